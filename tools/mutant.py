#!/usr/bin/env python3
"""Development tool: apply one textual mutation to a scratch worktree of /repo and run checks on it.

  tools/mutant.py <prop[,prop]> <file relative to repo> <old text> <new text> [--tier quick] [--shards 8]
"""
import argparse
import os
import re
import subprocess
import sys

ap = argparse.ArgumentParser()
ap.add_argument("props")
ap.add_argument("file")
ap.add_argument("old")
ap.add_argument("new")
ap.add_argument("--tier", default="quick")
ap.add_argument("--shards", default="8")
ap.add_argument("--count", type=int, default=1)
a = ap.parse_args()
wt = "/tmp/wt/mut_%d" % os.getpid()
os.makedirs("/tmp/wt", exist_ok=True)
subprocess.run(["git", "-C", "/repo", "worktree", "add", "--detach", wt, "HEAD"], capture_output=True, check=True)
try:
    p = os.path.join(wt, a.file)
    s = open(p).read()
    old = a.old.encode().decode("unicode_escape")
    new = a.new.encode().decode("unicode_escape")
    if s.count(old) != a.count:
        print("MUTANT-ERROR: old text occurs %d times (expected %d)" % (s.count(old), a.count))
        sys.exit(3)
    open(p, "w").write(s.replace(old, new))
    r = subprocess.run([sys.executable if False else "/venv/bin/python", "-c", "import glue.core, glue.viewers.image.state"],
                       env=dict(os.environ, PYTHONPATH=wt), capture_output=True, text=True)
    if r.returncode:
        print("MUTANT-ERROR: does not import:", r.stderr[-300:])
        sys.exit(3)
    for prop in a.props.split(","):
        r = subprocess.run(["./check", prop, "--tier", a.tier, "--shards", a.shards], cwd="/verif",
                           env=dict(os.environ, VERIF_GLUE_PATH=wt), capture_output=True, text=True)
        sigs = re.findall(r"^VIOLATION .*?signature=(\{.*?\}) count=(\d+)", r.stdout, re.M)
        print("%s rc=%d violations=%d %s" % (prop, r.returncode, len(sigs), "; ".join("%s x%s" % s for s in sigs[:3])))
        if r.returncode not in (0, 1):
            print(r.stdout[-800:])
finally:
    subprocess.run(["git", "-C", "/repo", "worktree", "remove", "--force", wt], capture_output=True)
    subprocess.run(["git", "-C", "/repo", "worktree", "prune"], capture_output=True)
