#!/bin/bash
# dev tool: confirm for every seed under /tmp/seeds (with meta.json) that the demo passes clean / fails patched and the
# repository's own suite still passes with the patch; results in /tmp/seedresults/<seed>.suite.json
for d in /tmp/seeds/*/; do
  n=$(basename $d)
  [ -f $d/meta.json ] || continue
  [ -f /tmp/seedresults/$n.suite.json ] && continue
  /verif/tools/seedcheck.py $d --suite > /tmp/seedresults/$n.suite.json 2>/tmp/seedresults/$n.suite.err
done
