#!/usr/bin/env python3
"""Development tool (not a registered check): try a seeded change against the checks.

  tools/seedcheck.py <seed_dir> <prop> [<prop> ...] [--tier quick] [--suite] [--shards N]

Creates a scratch worktree of /repo HEAD under /tmp/wt, applies <seed_dir>/patch.diff, runs
<seed_dir>/demo.py on the clean and on the patched tree, optionally the repository's full
test-suite on the patched tree (--suite), and each named check with VERIF_GLUE_PATH pointing
at the patched tree.  Removes the worktree afterwards.  Prints one JSON summary line.
"""
import argparse
import json
import os
import re
import subprocess
import sys

ap = argparse.ArgumentParser()
ap.add_argument("seed_dir")
ap.add_argument("props", nargs="*")
ap.add_argument("--tier", default="quick")
ap.add_argument("--suite", action="store_true")
ap.add_argument("--shards", default="8")
ap.add_argument("--budget-s", default=None)
a = ap.parse_args()
seed = os.path.abspath(a.seed_dir)
name = os.path.basename(seed.rstrip("/"))
wt = "/tmp/wt/sc_%s_%d" % (name, os.getpid())
os.makedirs("/tmp/wt", exist_ok=True)
PY = "/venv/bin/python"
out = {"seed": name}


def run(cmd, **kw):
    return subprocess.run(cmd, capture_output=True, text=True, **kw)


def demo(tree):
    env = dict(os.environ, PYTHONPATH=tree, MPLBACKEND="Agg")
    demo_file = os.path.join(seed, "demo.py")
    r = run([PY, demo_file], cwd=tree, env=env, timeout=600)
    if r.returncode == 5 or "no tests ran" in r.stdout:
        pass
    # a demo written as a pytest file with no __main__ exits 0 without running: use pytest then
    src = open(demo_file).read()
    if "__main__" not in src and re.search(r"^def test_", src, re.M):
        r = run([PY, "-m", "pytest", "-q", "-p", "no:cacheprovider", demo_file], cwd=tree, env=env, timeout=600)
    return r.returncode, (r.stdout + r.stderr)[-400:]


try:
    r = run(["git", "-C", "/repo", "worktree", "add", "--detach", wt, "HEAD"])
    assert r.returncode == 0, r.stderr
    out["demo_clean_rc"], _ = demo(wt)
    r = run(["git", "-C", wt, "apply", os.path.join(seed, "patch.diff")])
    out["apply_rc"] = r.returncode
    if r.returncode != 0:
        out["apply_err"] = r.stderr[-300:]
    else:
        out["demo_patched_rc"], out["demo_tail"] = demo(wt)
        if a.suite:
            env = dict(os.environ, PYTHONPATH=wt)
            env.pop("GLUE_VERIF", None)
            r = run([PY, "-m", "pytest", "-q", "-p", "no:cacheprovider", "--timeout=900", "-n", "5",
                     "--continue-on-collection-errors", "-rf", "glue"], cwd=wt, env=env, timeout=3600)
            tail = (r.stdout + r.stderr)[-1500:]
            m = re.search(r"(\d+) failed", tail)
            out["suite_failed"] = int(m.group(1)) if m else 0
            m = re.search(r"(\d+) passed", tail)
            out["suite_passed"] = int(m.group(1)) if m else 0
            ALWAYS = ["test_csv_pandas_factory", "test_excel_single", "test_translator_data_roundtrip",
                      "test_translator_from_data", "test_translator_from_subset", "test_CategoricalComponent_conversion",
                      "test_Data_conversion", "test_wcs_autolink_emptywcs"]
            fails = re.findall(r"^FAILED (\S+)", r.stdout, re.M)
            out["suite_new_failures"] = [f for f in fails if not any(a in f for a in ALWAYS)][:12]
        for prop in a.props:
            env = dict(os.environ, VERIF_GLUE_PATH=wt)
            r = run(["./check", prop, "--tier", a.tier, "--shards", a.shards] + (["--budget-s", a.budget_s] if a.budget_s else []), cwd="/verif", env=env, timeout=7200)
            sigs = re.findall(r"^VIOLATION .*?signature=(\{.*?\}) count", r.stdout, re.M)
            out[prop] = {"rc": r.returncode, "violations": sigs[:6], "n": len(sigs), "last": r.stdout.strip().splitlines()[-1:]}
finally:
    run(["git", "-C", "/repo", "worktree", "remove", "--force", wt])
    run(["git", "-C", "/repo", "worktree", "prune"])
print(json.dumps(out))
