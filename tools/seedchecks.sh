#!/bin/bash
# dev tool: run each seed's own property check against the patched tree; results in /tmp/seedresults/<seed>.check.json
for d in $(ls -d /tmp/seeds/*/); do
  n=$(basename $d); p=${n%%_*}
  [ -f $d/meta.json ] || continue
  [ -f /verif/vf/props/$p.py ] || continue
  [ -f /tmp/seedresults/$n.check.json ] && continue
  /verif/tools/seedcheck.py $d $p --shards 10 > /tmp/seedresults/$n.check.json 2>/tmp/seedresults/$n.check.err
done
