#!/usr/bin/env python3
"""dev tool: run the repro script of every entry in a findings file against /repo and print the outcome."""
import json, subprocess, sys, os
for path in sys.argv[1:]:
    doc = json.load(open(path))
    for e in doc["findings"]:
        print("=" * 100)
        print(e["id"], "|", e.get("status"), "|", json.dumps(e["signature"]))
        print("MECH:", e.get("mechanism", "")[:1500])
        rep = e.get("repro")
        if not rep:
            print("  (no repro)")
            continue
        if isinstance(rep, list):
            rep = "\n".join(rep)
        r = subprocess.run(["/venv/bin/python", "-W", "ignore", "-c", rep], capture_output=True, text=True, timeout=300,
                           env=dict(os.environ, MPLBACKEND="Agg"))
        print("--- repro:\n" + rep[:1800])
        print("--- rc=%d stdout:\n%s" % (r.returncode, r.stdout[-1200:]))
        if r.stderr.strip():
            print("--- stderr tail:\n" + r.stderr[-500:])
