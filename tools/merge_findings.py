#!/usr/bin/env python3
"""dev tool: merge findings_proposed/<id>.json entries (status known) into known_findings.json (idempotent by id)."""
import json, sys
kf = json.load(open("/verif/known_findings.json"))
have = {e["id"]: i for i, e in enumerate(kf["findings"])}
n = 0
for pid in sys.argv[1:]:
    try:
        doc = json.load(open("/verif/findings_proposed/%s.json" % pid))
    except FileNotFoundError:
        continue
    for e in doc["findings"]:
        e = dict(e)
        e.setdefault("status", "known")
        if e["id"] in have:
            old = kf["findings"][have[e["id"]]]
            if old.get("status") == "fixed":
                continue
            kf["findings"][have[e["id"]]] = e
        else:
            have[e["id"]] = len(kf["findings"])
            kf["findings"].append(e)
            n += 1
json.dump(kf, open("/verif/known_findings.json", "w"), indent=1)
print("added", n, "total", len(kf["findings"]))
