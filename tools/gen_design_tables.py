#!/usr/bin/env python3
"""dev tool: regenerate DESIGN.md sections 11 (defects) and 12 (seeded changes) from known_findings.json and seeded/."""
import json, glob, os, re
kf = json.load(open("/verif/known_findings.json"))["findings"]
props = sorted({e["property"] for e in kf})
out11 = ["## 11. Defects found on the current tree", "",
         "`known_findings.json` is the authoritative list (signature, mechanism, minimal witness and a standalone repro",
         "script per entry). Every entry was reproduced with a standalone script against the real code and its code path",
         "read before it was listed; anything that turned out to be an oracle or harness error was corrected in the",
         "machinery instead (section 13). `fixed` = repaired by the named `fix:` commit in `/repo` (the check passes on the",
         "repaired tree with no KNOWN-FINDING line for it and reports the violation again if it returns); `known` = recorded,",
         "not repaired: the check prints `KNOWN-FINDING: property=<id> ...` and exits 0.", ""]
for p in props:
    es = [e for e in kf if e["property"] == p]
    out11.append("### %s" % p)
    out11.append("")
    for e in es:
        mech = e.get("mechanism", "").strip().replace("\n", " ")
        mech = re.sub(r"^fixed: property=\S+ \S+ ", "", mech)
        if len(mech) > 330:
            mech = mech[:327] + "..."
        tag = "fixed %s" % e.get("commit", "") if e["status"] == "fixed" else "known"
        out11.append("* `%s` (%s) - %s" % (e["id"], tag, mech))
    out11.append("")
rows = []
for f in sorted(glob.glob("/verif/seeded/*/meta.json")):
    m = json.load(open(f))
    sid = f.split("/")[3]
    for prop, c in sorted(m.get("checks", {}).items()):
        sig = c["first_signatures"][0] if c.get("first_signatures") else {}
        kind = sig.get("kind") or sig.get("what") or ""
        rows.append("| %s | %s | %s | %s | %s (%d unlisted signatures%s) |" % (
            sid, ", ".join(m.get("files", []))[:60], (m.get("needs", "") or "").replace("|", "/").replace("\n", " ")[:170],
            prop, c["result"], c["distinct_unlisted_signatures"], (", e.g. kind=" + str(kind)) if kind else ""))
out12 = ["## 12. Seeded changes: which checks catch which", "",
         "`seeded/<id>/` (see `seeded/README.md` for how they were obtained and confirmed, for the four rounds, and for the",
         "changes the quick tier missed on its first run - about one in three in every round - and what was widened each time).",
         "Below: the result of the property's *quick* tier, final drivers, on a scratch tree of the final `/repo` HEAD with the",
         "change applied (`tools/seedcheck.py`, equivalent to `git -C /repo apply` + `./check` + `git -C /repo checkout -- .`):", "",
         "| seeded change | touches | needs, in order to manifest | check | quick tier result |", "|---|---|---|---|---|"] + rows + [""]
s = open("/verif/DESIGN.md").read()
i11 = s.index("## 11. Defects found")
i12 = s.index("## 12. Seeded changes")
tail_m = re.search(r"\n## 13\. ", s)
tail = s[tail_m.start() + 1:] if tail_m else ""
s = s[:i11] + "\n".join(out11) + "\n" + "\n".join(out12) + "\n" + tail
open("/verif/DESIGN.md", "w").write(s)
print("sections regenerated:", len(kf), "findings,", len(rows), "seed rows")
