#!/opt/veriftools/pyvenv/bin/python
"""Development tool: validate MANIFEST.json, evidence/*.json and properties coverage against the schemas."""
import glob
import json
import sys

import jsonschema

ok = True
man = json.load(open("/verif/MANIFEST.json"))
jsonschema.validate(man, json.load(open("/root/.vp/MANIFEST.schema.json")))
props = [json.loads(l)["id"] for l in open("/verif/properties.jsonl")]
claimed = [c["property_id"] for c in man["checks"]]
na = [n["property_id"] for n in man.get("not_applicable", [])]
if sorted(claimed + na) != sorted(props):
    print("MANIFEST: claimed + not_applicable != properties", sorted(set(props) - set(claimed) - set(na)))
    ok = False
es = json.load(open("/root/.vp/EVIDENCE.schema.json"))
for c in man["checks"]:
    try:
        ev = json.load(open("/verif/" + c["evidence_file"]))
        jsonschema.validate(ev, es)
        if ev["level"] != c["level_claimed"]["category"]:
            print(c["property_id"], "level mismatch")
            ok = False
        print(c["property_id"], "ok", ev["tier"], "eval=%d distinct=%d wall=%.0fs viol=%d" % (
            ev["coverage"]["evaluations"], ev["coverage"]["distinct_nontrivial"], ev["wall_s"], ev.get("violations", 0)))
    except Exception as e:
        print(c["property_id"], "EVIDENCE PROBLEM", repr(e)[:200])
        ok = False
sys.exit(0 if ok else 1)
