#!/usr/bin/env python3
"""dev tool: copy confirmed seeded changes from /tmp/seeds into /verif/seeded/<id>/ with an augmented meta.json.

A seed is kept only when I confirmed myself (tools/seedcheck.py --suite, in a scratch worktree of /repo HEAD): the patch
applies, the demo passes on the clean tree and fails on the patched tree, and the repository's own test-suite shows no
failure beyond the 8 tests that always fail in this sandbox (BASELINE.json always_fail)."""
import json, os, shutil, glob, subprocess, sys
PATTERN = sys.argv[1] if len(sys.argv) > 1 else "*"      # e.g. "*_i" to import one round only
head = subprocess.run(["git", "-C", "/repo", "rev-parse", "--short", "HEAD"], capture_output=True, text=True).stdout.strip()
for sj in sorted(glob.glob("/tmp/seedresults/%s.suite.json" % PATTERN)):
    name = os.path.basename(sj)[:-len(".suite.json")]
    try:
        s = json.load(open(sj))
    except Exception:
        continue
    ok = (s.get("apply_rc") == 0 and s.get("demo_clean_rc") == 0 and s.get("demo_patched_rc") not in (0, None)
          and s.get("suite_new_failures") == [] and s.get("suite_passed", 0) >= 1460)
    dst = "/verif/seeded/" + name
    if not ok:
        print(name, "NOT CONFIRMED", {k: s.get(k) for k in ("apply_rc", "demo_clean_rc", "demo_patched_rc", "suite_new_failures", "suite_passed")})
        continue
    os.makedirs(dst, exist_ok=True)
    for f in ("patch.diff", "demo.py"):
        shutil.copy("/tmp/seeds/%s/%s" % (name, f), dst)
    meta = json.load(open("/tmp/seeds/%s/meta.json" % name))
    old = {}
    if os.path.exists(dst + "/meta.json"):
        old = json.load(open(dst + "/meta.json"))
    meta["breaks_property"] = name.split("_")[0]
    meta["origin"] = "independent sub-agent given only the property text and a scratch worktree of /repo (nothing from /verif)"
    meta["confirmed"] = {
        "how": "tools/seedcheck.py --suite in a scratch worktree (git worktree add /tmp/wt/...; git apply patch.diff): demo.py on clean and patched tree; pytest -n 5 glue on the patched tree",
        "repo_head_when_confirmed": old.get("confirmed", {}).get("repo_head_when_confirmed", head),
        "demo_clean_rc": s["demo_clean_rc"], "demo_patched_rc": s["demo_patched_rc"],
        "suite_passed": s["suite_passed"], "suite_failed_always_fail_list": s["suite_failed"], "suite_new_failures": []}
    if "checks" in old:
        meta["checks"] = old["checks"]
    cj = "/tmp/seedresults/%s.check.json" % name
    if os.path.exists(cj):
        try:
            c = json.load(open(cj))
            for k, v in c.items():
                if k.startswith("C") and isinstance(v, dict):
                    meta.setdefault("checks", {})[k] = {
                        "tier": "quick", "ran": "VERIF_GLUE_PATH=<scratch worktree with patch.diff applied> ./check %s --tier quick" % k,
                        "result": "VIOLATION" if v["rc"] == 1 else ("held (MISSED)" if v["rc"] == 0 else "inconclusive"),
                        "distinct_unlisted_signatures": v["n"], "first_signatures": [json.loads(x) for x in v["violations"][:2]]}
        except Exception as e:
            print("  (no check result: %r)" % (e,))
    json.dump(meta, open(dst + "/meta.json", "w"), indent=1)
    print(name, "imported")
