"""C12 per-type family: one small recipe per type registered in
`GlueSerializer.dispatch`.  A recipe returns (graph, check): `graph` is a plain
dict that holds the object under test as graph["obj"] and, where the object
refers to other non-literal objects (a ComponentID, a state, a Data ...), the
very same object again as graph["direct"]; `check(loaded)` returns a list of
(kind, detail) problems, kind in {"class", "value", "sharing"}.

"sharing": an object referenced from inside the object under test and from
elsewhere in the same saved graph must be ONE object again after loading
(`loaded["obj"][0] is loaded["direct"]`); literals only round-trip by value.
"""
import operator

import numpy as np

from glue.core import Data, DataCollection
from glue.core.component import CategoricalComponent, Component, DerivedComponent
from glue.core.component_id import ComponentID, PixelComponentID
from glue.core.component_link import ComponentLink
from glue.core.coordinates import AffineCoordinates
from glue.core import roi as R
from glue.core import subset as S
from glue.core.roi_pretransforms import RadianTransform
from glue.core.visual import VisualAttributes

from vf import common
from vf.lib_C02_sessions import f_double, f_half, make_wcs


def same_seq(a, b):
    """list/tuple by value (a tuple of literals is written as a list: not distinguished)."""
    if isinstance(a, (list, tuple)) and isinstance(b, (list, tuple)):
        return len(a) == len(b) and all(same_seq(x, y) for x, y in zip(a, b))
    if isinstance(a, float) and isinstance(b, float) and a != a and b != b:
        return True
    return type(a) is type(b) and a == b or (isinstance(a, (int, float)) and isinstance(b, (int, float))
                                             and not isinstance(a, bool) and not isinstance(b, bool) and a == b)


def P(problems, cond, kind, detail):
    if not cond:
        problems.append((kind, detail))


def cls_is(problems, obj, cls):
    P(problems, type(obj) is cls, "class", "%s instead of %s" % (type(obj).__name__, cls.__name__))
    return type(obj) is cls


# ------------------------------------------------------------------ recipes: name -> function(rng) -> (graph, check)
def r_dict(rng):
    cid = ComponentID("shared")
    inner = {"a": 1, "b": "text", "c": cid, "d": [1, 2.5], "e": None, "f": True}

    def check(L):
        p = []
        o = L["obj"]
        if cls_is(p, o, dict):
            P(p, set(o) == set(inner), "value", "keys %r" % sorted(o))
            for k in ("a", "b", "d", "e", "f"):
                P(p, k in o and same_seq(o[k], inner[k]), "value", "entry %s" % k)
            P(p, o.get("c") is L["direct"], "sharing", "dict value is not the object referenced directly")
        return p
    return {"direct": cid, "obj": inner}, check


def r_list(rng):
    cid = ComponentID("shared")
    inner = [1, "a", cid, [2, 3], None]

    def check(L):
        p = []
        o = L["obj"]
        if cls_is(p, o, list) and len(o) == 5:
            P(p, same_seq(o[:2] + o[3:], inner[:2] + inner[3:]), "value", "items")
            P(p, o[2] is L["direct"], "sharing", "list item is not the object referenced directly")
        else:
            P(p, False, "value", "length")
        return p
    return {"direct": cid, "obj": inner}, check


def r_tuple(rng):
    cid = ComponentID("shared")
    inner = (1, "a", cid)

    def check(L):
        p = []
        o = L["obj"]
        if cls_is(p, o, tuple) and len(o) == 3:
            P(p, same_seq(o[:2], inner[:2]), "value", "items")
            P(p, isinstance(o[2], ComponentID) and o[2].label == "shared", "value", "item 2")
            P(p, o[2] is L["direct"], "sharing", "tuple item is not the object referenced directly")
        else:
            P(p, False, "value", "length")
        return p
    return {"direct": cid, "obj": inner}, check


def r_tuple_literals(rng):
    inner = (1, 2.5, (3, 4))

    def check(L):
        p = []
        P(p, same_seq(L["obj"], inner), "value", "items")
        return p
    return {"obj": inner, "pad": "x"}, check


def r_set(rng):
    cid = ComponentID("shared")
    inner = {1, "a", cid}

    def check(L):
        p = []
        o = L["obj"]
        if cls_is(p, o, set):
            P(p, len(o) == 3 and 1 in o and "a" in o, "value", "items")
            others = [x for x in o if isinstance(x, ComponentID)]
            P(p, len(others) == 1 and others[0].label == "shared", "value", "ComponentID item")
            P(p, any(x is L["direct"] for x in o), "sharing", "set item is not the object referenced directly")
        return p
    return {"direct": cid, "obj": inner}, check


def r_slice(rng):
    sl = rng.choice([slice(1, 5, 2), slice(None), slice(None, 3), slice(2, None, None)])

    def check(L):
        p = []
        if cls_is(p, L["obj"], slice):
            P(p, L["obj"] == sl, "value", repr(L["obj"]))
        return p
    return {"obj": sl, "pad": 1}, check


def r_unit(rng):
    import astropy.units as u
    unit = rng.choice([u.km / u.s, u.m, u.Jy * u.Hz])

    def check(L):
        p = []
        P(p, isinstance(L["obj"], u.UnitBase), "class", type(L["obj"]).__name__)
        if not p:
            P(p, L["obj"].to_string() == unit.to_string() and L["obj"] == unit, "value", L["obj"].to_string())
        return p
    return {"obj": unit, "pad": 1}, check


def r_wcs(rng):
    from astropy.wcs import WCS
    w = make_wcs(rng, rng.choice([1, 2, 3]))

    def check(L):
        p = []
        if cls_is(p, L["obj"], WCS):
            P(p, L["obj"].to_header_string() == w.to_header_string(), "value", "header")
            pix = [[1.0] * w.naxis, [2.5] * w.naxis]
            P(p, np.allclose(L["obj"].all_pix2world(pix, 0), w.all_pix2world(pix, 0)), "value", "pix2world")
        return p
    return {"obj": w, "pad": 1}, check


def _state_recipe(make, attrs):
    """make(cid, cid2) -> state; attrs: [(path, 'shared'|'shared2'|value)] checked on the loaded state."""
    def recipe(rng):
        cid, cid2 = ComponentID("shared"), ComponentID("shared2")
        st = make(cid, cid2)

        def get(o, path):
            for a in path.split("."):
                o = getattr(o, a)
            return o

        def check(L):
            p = []
            o = L["obj"]
            if cls_is(p, o, type(st)):
                for path, want in attrs:
                    try:
                        got = get(o, path)
                    except Exception as exc:
                        P(p, False, "value", "%s raises %s" % (path, type(exc).__name__))
                        continue
                    if want == "shared":
                        P(p, got is L["direct"], "sharing", path + " is not the object referenced directly")
                    elif want == "shared2":
                        P(p, got is L["direct2"], "sharing", path + " is not the object referenced directly")
                    elif isinstance(want, type):
                        P(p, type(got) is want, "class", "%s is %s" % (path, type(got).__name__))
                    else:
                        P(p, same_seq(got, want) or got == want, "value", "%s = %r" % (path, got))
            return p
        return {"direct": cid, "direct2": cid2, "obj": st}, check
    return recipe


r_range = _state_recipe(lambda a, b: S.RangeSubsetState(-1.5, 2.0, a), [("lo", -1.5), ("hi", 2.0), ("att", "shared")])
r_inequality = _state_recipe(lambda a, b: S.InequalitySubsetState(a, 2, operator.ge),
                             [("left", "shared"), ("right", 2), ("operator", operator.ge)])
r_inequality2 = _state_recipe(lambda a, b: S.InequalitySubsetState(a, b, operator.lt),
                              [("left", "shared"), ("right", "shared2"), ("operator", operator.lt)])
r_base_state = _state_recipe(lambda a, b: S.SubsetState(), [])
r_composite = _state_recipe(lambda a, b: S.AndState(S.RangeSubsetState(0, 1, a), S.InequalitySubsetState(b, 2, operator.gt)),
                            [("state1", S.RangeSubsetState), ("state2", S.InequalitySubsetState), ("state1.att", "shared"),
                             ("state2.left", "shared2"), ("state1.hi", 1)])
r_invert = _state_recipe(lambda a, b: S.InvertState(S.RangeSubsetState(0, 1, a)),
                         [("state1", S.RangeSubsetState), ("state1.att", "shared"), ("state2", type(None))])
r_roi_state = _state_recipe(lambda a, b: S.RoiSubsetState(a, b, R.RectangularROI(0, 1, 2, 3, theta=0.5), RadianTransform(["x"])),
                            [("xatt", "shared"), ("yatt", "shared2"), ("roi", R.RectangularROI), ("roi.xmin", 0),
                             ("roi.ymax", 3), ("roi.theta", 0.5), ("pretransform", RadianTransform)])
r_roi_state_nd = _state_recipe(lambda a, b: S.RoiSubsetStateNd([a, b], R.CircularROI(1, 2, 3)),
                               [("roi", R.CircularROI), ("roi.radius", 3), ("pretransform", type(None))])


def r_roi_state_nd_atts(rng):
    g, c = r_roi_state_nd(rng)

    def check(L):
        p = c(L)
        o = L["obj"]
        if type(o) is S.RoiSubsetStateNd:
            atts = o.attributes
            P(p, len(atts) == 2 and atts[0] is L["direct"] and atts[1] is L["direct2"], "sharing",
              "attributes are not the objects referenced directly")
        return p
    return g, check


def r_roi_base(rng):
    # the registered saver of the Roi base class refuses; PointROI has no saver of its own
    return {"obj": R.PointROI(1, 2), "pad": 1}, lambda L: [("value", "a PointROI was saved by the refusing base saver")]


def r_style(rng):
    v = VisualAttributes()
    kw = dict(color="#123456", alpha=0, linewidth=2.5, linestyle="dashed", marker="s", markersize=0)
    for k, x in kw.items():
        setattr(v, k, x)

    def check(L):
        p = []
        if cls_is(p, L["obj"], VisualAttributes):
            for k, x in kw.items():
                P(p, same_seq(getattr(L["obj"], k), x), "value", "%s = %r" % (k, getattr(L["obj"], k)))
        return p
    return {"obj": v, "pad": 1}, check


def r_subset(rng):
    cid = ComponentID("shared")
    st = S.RangeSubsetState(0, 1, cid)
    s = S.Subset(None, label="sub", color="#00ff00", alpha=0.5)
    s.subset_state = st
    label0 = s.label        # glue disambiguates labels within a process ("sub_01", ...)

    def check(L):
        p = []
        o = L["obj"]
        if cls_is(p, o, S.Subset):
            P(p, o.label == label0, "value", "label %r" % o.label)
            P(p, o.style.color == "#00ff00" and o.style.alpha == 0.5, "value", "style")
            P(p, o.subset_state is L["direct"], "sharing", "subset_state is not the state referenced directly")
            P(p, type(o.subset_state) is S.RangeSubsetState and o.subset_state.att is L["direct2"], "sharing", "state.att")
        return p
    return {"direct": st, "direct2": cid, "obj": s}, check


def _small_data(rng, label="d", coords=False):
    kw = {}
    if coords:
        kw["coords"] = AffineCoordinates(common.affine_matrix(rng, 2, "full"))
        shape = (2, 3)
    else:
        shape = (3,)
    d = Data(label=label, **kw)
    d.add_component(common.injective_floats(rng, shape), "x")
    d.add_component(common.rand_ints(rng, shape, 0, 4), "i")
    d.add_component_link(ComponentLink([d.id["x"]], ComponentID("fx"), using=f_double), "fx")
    return d


def r_data(rng):
    d = _small_data(rng, coords=rng.random() < 0.5)
    x = d["x"].copy()

    def check(L):
        p = []
        o = L["obj"]
        if cls_is(p, o, Data):
            P(p, o.label == "d", "value", "label")
            P(p, [c.label for c in o.components] == [c.label for c in d.components], "value", "component labels")
            P(p, common.same_array(o["x"], x) and common.same_array(o["fx"], x * 2), "value", "values")
            P(p, any(c is L["direct"] for c in o.components), "sharing", "component id is not the id referenced directly")
        return p
    return {"direct": d.id["x"], "obj": d}, check


def r_data_collection(rng):
    d0, d1 = _small_data(rng, "d0", coords=True), _small_data(rng, "d1")
    dc = DataCollection([d0, d1])
    dc.add_link(ComponentLink([d0.id["x"]], d1.id["x"], using=f_double))
    dc.new_subset_group(subset_state=d0.id["x"] > 0, label="g")

    def check(L):
        p = []
        o = L["obj"]
        if cls_is(p, o, DataCollection):
            P(p, [d.label for d in o] == ["d0", "d1"], "value", "labels")
            P(p, len(o) == 2 and o[0] is L["direct"], "sharing", "member dataset is not the dataset referenced directly")
            P(p, len(o) == 2 and common.same_array(o[0]["x"], d0["x"]), "value", "values")
        return p
    return {"direct": d0, "obj": dc}, check


def r_component_id(rng):
    cid = ComponentID("an id")

    def check(L):
        p = []
        if cls_is(p, L["obj"], ComponentID):
            P(p, L["obj"].label == "an id" and L["obj"].uuid == cid.uuid, "value", "label / uuid")
            P(p, L["listed"][0] is L["obj"], "sharing", "the id in a list is not the id referenced directly")
        return p
    return {"obj": cid, "listed": [cid, 1]}, check


def r_pixel_component_id(rng):
    cid = PixelComponentID(1, "Pixel Axis 1 [x]")

    def check(L):
        p = []
        if cls_is(p, L["obj"], PixelComponentID):
            P(p, L["obj"].label == cid.label and L["obj"].axis == 1, "value", "label / axis")
            P(p, L["listed"][0] is L["obj"], "sharing", "the id in a list is not the id referenced directly")
        return p
    return {"obj": cid, "listed": [cid, 1]}, check


def r_component(rng):
    arr = rng.choice([np.array([1.5, np.nan, -np.inf]), np.arange(6).reshape(2, 3),
                      np.array(["2020-01-01", "2021-05-06T07:08"], dtype="datetime64[s]")])
    c = Component.autotyped(arr, units="m")

    def check(L):
        p = []
        if cls_is(p, L["obj"], type(c)):
            P(p, common.same_array(L["obj"].data, c.data) if arr.dtype.kind != "M" else np.array_equal(L["obj"].data, c.data),
              "value", "data")
            P(p, L["obj"].units == c.units, "value", "units %r" % L["obj"].units)
        return p
    return {"obj": c, "pad": 1}, check


def r_categorical_component(rng):
    c = CategoricalComponent(np.array(["mid", "low", "high", "mid"]), categories=np.array(["low", "mid", "high"]), units="cm")

    def check(L):
        p = []
        if cls_is(p, L["obj"], CategoricalComponent):
            P(p, list(L["obj"].labels) == list(c.labels), "value", "labels")
            P(p, list(L["obj"].categories) == list(c.categories), "value", "categories %r" % list(L["obj"].categories))
            P(p, common.same_array(L["obj"].codes, c.codes), "value", "codes")
            P(p, L["obj"].units == "cm", "value", "units")
        return p
    return {"obj": c, "pad": 1}, check


def r_derived_component(rng):
    a, b = ComponentID("a"), ComponentID("b")
    link = ComponentLink([a], b, using=f_double)
    c = DerivedComponent(None, link)

    def check(L):
        p = []
        if cls_is(p, L["obj"], DerivedComponent):
            P(p, L["obj"].link is L["direct"], "sharing", "link is not the link referenced directly")
        return p
    return {"direct": link, "obj": c}, check


def r_component_link(rng):
    a, b, c = ComponentID("a"), ComponentID("b"), ComponentID("c")
    link = ComponentLink([a, b], c, using=_add2) if rng.random() < 0.5 else ComponentLink([a], c, using=f_double, inverse=f_half)

    def check(L):
        p = []
        o = L["obj"]
        if cls_is(p, o, ComponentLink):
            P(p, len(o.get_from_ids()) == len(link.get_from_ids()), "value", "number of inputs")
            P(p, o.get_from_ids()[0] is L["direct"], "sharing", "input id is not the id referenced directly")
            P(p, o.get_to_id() is L["direct2"], "sharing", "output id is not the id referenced directly")
            P(p, o.get_using() is link.get_using(), "value", "function")
            P(p, o.get_inverse() is link.get_inverse(), "value", "inverse")
        return p
    return {"direct": a, "direct2": c, "obj": link}, check


def _add2(x, y):
    return x + y


def r_coordinate_component_link(rng):
    d = _small_data(rng, coords=True)
    link = rng.choice(d.coordinate_links)
    from glue.core.component_link import CoordinateComponentLink

    def check(L):
        p = []
        o = L["obj"]
        if cls_is(p, o, CoordinateComponentLink):
            P(p, o.index == link.index and o.pixel2world == link.pixel2world, "value", "index / direction")
            P(p, o.get_to_id() is L["direct"], "sharing", "output id is not the id referenced directly")
            P(p, np.allclose(o.coords.pixel_to_world_values(1.0, 2.0), link.coords.pixel_to_world_values(1.0, 2.0)),
              "value", "coords")
        return p
    return {"direct": link.get_to_id(), "obj": link}, check


def r_builtin(rng):
    f = rng.choice([operator.add, operator.gt, len])
    return {"obj": f, "pad": 1}, lambda L: [] if L["obj"] is f else [("value", repr(L["obj"]))]


def r_function(rng):
    f = rng.choice([f_double, f_half])
    return {"obj": f, "pad": 1}, lambda L: [] if L["obj"] is f else [("value", repr(L["obj"]))]


def r_method(rng):
    cid = ComponentID("shared")
    st = S.RangeSubsetState(0, 1, cid)

    def check(L):
        p = []
        m = L["obj"]
        P(p, getattr(m, "__name__", None) == "copy", "value", "method name")
        P(p, getattr(m, "__self__", None) is L["direct"], "sharing", "bound instance is not the object referenced directly")
        return p
    return {"direct": st, "obj": st.copy}, check


def r_session(rng):
    from glue.core import Session
    return {"obj": Session(), "pad": 1}, lambda L: []


def r_ndarray(rng):
    arr = rng.choice([np.array([1.5, np.nan, np.inf, -0.0]), np.arange(12, dtype=np.int16).reshape(3, 4),
                      np.array([True, False]), np.array(["a", "bcd"]), np.zeros((0, 2)),
                      np.array(["2020-01-01"], dtype="datetime64[D]")])

    def check(L):
        p = []
        if cls_is(p, L["obj"], np.ndarray):
            P(p, L["obj"].dtype == arr.dtype and L["obj"].shape == arr.shape, "value", "dtype / shape")
            P(p, np.array_equal(L["obj"], arr) if arr.dtype.kind != "f" else common.same_array(L["obj"], arr), "value", "data")
        return p
    return {"obj": arr, "pad": 1}, check


def r_colormap(rng):
    from matplotlib import colormaps
    cm = colormaps[rng.choice(["viridis", "gray", "plasma"])]
    return {"obj": cm, "pad": 1}, lambda L: [] if getattr(L["obj"], "name", None) == cm.name else [("value", repr(L["obj"]))]


def r_datetime64(rng):
    v = np.datetime64(rng.choice(["2021-03-04T05:06:07", "1999-12-31", "2020-02-29T12:00"]))
    return {"obj": v, "pad": 1}, lambda L: [] if (isinstance(L["obj"], np.datetime64) and L["obj"] == v) else [("value", repr(L["obj"]))]


def r_geometry(rng):
    import shapely
    g = rng.choice([shapely.Point(1.5, -2.0), shapely.Polygon([(0, 0), (2, 0), (1, 1.5)]), shapely.LineString([(0, 0), (1, 1)])])

    def check(L):
        p = []
        P(p, isinstance(L["obj"], shapely.Geometry), "class", type(L["obj"]).__name__)
        if not p:
            P(p, L["obj"].equals(g) and L["obj"].geom_type == g.geom_type, "value", shapely.to_wkt(L["obj"]))
        return p
    return {"obj": g, "pad": 1}, check


def r_region_data(rng):
    import shapely
    from glue.core.data_region import RegionData
    polys = np.array([shapely.Polygon([(0, 0), (2, 0), (1, 1.5)]), shapely.Polygon([(3, 3), (5, 3), (4, 6)])])
    rd = RegionData(label="regions", regions=polys)
    rd.add_component(np.array([1.5, 2.5]), "val")

    def check(L):
        p = []
        o = L["obj"]
        if cls_is(p, o, RegionData):
            P(p, o.label == "regions", "value", "label")
            P(p, [c.label for c in o.components] == [c.label for c in rd.components], "value", "component labels")
            P(p, common.same_array(o["val"], rd["val"]), "value", "values")
            try:
                regs = o.get_component(o.extended_component_id).data
                P(p, all(a.equals(b) for a, b in zip(regs, polys)), "value", "regions")
                ext = o.get_component(o.extended_component_id)
                P(p, any(ext.x is c for c in o.components) and any(ext.y is c for c in o.components), "sharing",
                  "centre ids of the extended component are not the dataset's own ids")
            except Exception as exc:
                P(p, False, "value", "regions unreadable: %s" % type(exc).__name__)
            P(p, any(c is L["direct"] for c in o.components), "sharing", "component id is not the id referenced directly")
        return p
    return {"direct": rd.id["val"], "obj": rd}, check


def r_callback_list(rng):
    from echo import CallbackList
    cid = ComponentID("shared")
    cl = CallbackList(lambda *a, **k: None, [cid, 1, "a", [2, 3]])

    def check(L):
        p = []
        o = L["obj"]
        P(p, isinstance(o, list), "class", type(o).__name__)
        if not p and len(o) == 4:
            P(p, same_seq(o[1:], [1, "a", [2, 3]]), "value", "items")
            P(p, o[0] is L["direct"], "sharing", "list item is not the object referenced directly")
        elif not p:
            P(p, False, "value", "length")
        return p
    return {"direct": cid, "obj": cl}, check


def r_callback_dict(rng):
    from echo import CallbackDict
    cid = ComponentID("shared")
    cd = CallbackDict(lambda *a, **k: None, {"k": cid, "n": 3})

    def check(L):
        p = []
        o = L["obj"]
        P(p, isinstance(o, dict), "class", type(o).__name__)
        if not p:
            P(p, o.get("n") == 3, "value", "items")
            P(p, o.get("k") is L["direct"], "sharing", "dict value is not the object referenced directly")
        return p
    return {"direct": cid, "obj": cd}, check


class RenameTarget(object):
    """Final target of the harness' own rename chains (see C12.rename_resolver_case)."""


def r_nested_containers(rng):
    cid, cid2 = ComponentID("shared"), ComponentID("shared2")
    inner = {"l": [1, {"t": (cid, 2), "deep": [[cid2], []]}, []], "e": {}, "np": [np.int64(3), np.float32(0.5)]}

    def check(L):
        p = []
        o = L["obj"]
        try:
            P(p, o["l"][0] == 1 and o["l"][2] == [] and o["e"] == {} and same_seq(o["np"], [3, 0.5]), "value", "literals")
            P(p, o["l"][1]["deep"][0][0] is L["direct2"], "sharing", "item of a list nested in a dict nested in a list")
            P(p, o["l"][1]["deep"][1] == [], "value", "empty nested list")
            P(p, isinstance(o["l"][1]["t"][0], ComponentID) and o["l"][1]["t"][1] == 2, "value", "nested tuple")
        except Exception as exc:
            P(p, False, "value", "structure: %s" % type(exc).__name__)
        return p
    return {"direct": cid, "direct2": cid2, "obj": inner}, check


def r_dict_shared_key(rng):
    cid = ComponentID("shared")
    inner = {cid: "value", "other": [cid]}

    def check(L):
        p = []
        o = L["obj"]
        if cls_is(p, o, dict):
            keys = [k for k in o if isinstance(k, ComponentID)]
            P(p, len(keys) == 1 and o[keys[0]] == "value", "value", "ComponentID key")
            P(p, len(keys) == 1 and keys[0] is L["direct"], "sharing", "dict key is not the object referenced directly")
            P(p, o["other"][0] is L["direct"], "sharing", "list item is not the object referenced directly")
        return p
    return {"direct": cid, "obj": inner}, check


def r_meta_sharing(rng):
    d = _small_data(rng)
    d.meta["ref"] = d.id["x"]
    d.meta["refs"] = [d.id["x"], d.id["i"]]
    d.meta["np"] = np.float32(2.5)

    def check(L):
        p = []
        o = L["obj"]
        if cls_is(p, o, Data):
            own = [c for c in o.components if c.label == "x"]
            P(p, len(own) == 1 and o.meta.get("ref") is own[0], "sharing", "meta value is not the dataset's own component id")
            P(p, isinstance(o.meta.get("refs"), list) and len(o.meta["refs"]) == 2 and o.meta["refs"][0] is own[0], "sharing",
              "item of a list in meta is not the dataset's own component id")
            P(p, o.meta.get("np") == 2.5, "value", "numpy scalar in meta")
        return p
    return {"direct": d.id["x"], "obj": d}, check


r_meta_sharing.min_version = 5       # metadata is written from Data version 5 on


def r_link_helper_sharing(rng):
    from glue.core.link_helpers import LinkSame
    d0, d1 = _small_data(rng, "d0"), _small_data(rng, "d1")
    dc = DataCollection([d0, d1])
    dc.add_link(LinkSame(d0.id["x"], d1.id["x"]))

    def check(L):
        p = []
        o = L["obj"]
        if cls_is(p, o, DataCollection) and len(o) == 2 and len(o.external_links) >= 1:
            from glue.core.link_helpers import LinkCollection
            link = o.external_links[0]          # a LinkSame (v4) or its flat component link (v1-v3)
            cl = list(link)[0] if isinstance(link, LinkCollection) else link
            ids = list(cl.get_from_ids()) + [cl.get_to_id()]
            own = [c for d in o for c in d.components]
            P(p, all(any(i is c for c in own) for i in ids), "sharing", "link ends are not the datasets' own component ids")
            P(p, any(i is L["direct"] for i in ids), "sharing", "link end is not the id referenced directly")
        else:
            P(p, False, "value", "collection / link count")
        return p
    return {"direct": d0.id["x"], "obj": dc}, check


# registered type name -> recipes exercising its saver (several recipes may share a registered type)
RECIPES = {
    "dict": [r_dict, r_callback_dict, r_nested_containers, r_dict_shared_key], "tuple": [r_tuple, r_tuple_literals],
    "list": [r_list], "set": [r_set],
    "slice": [r_slice], "UnitBase": [r_unit], "WCS": [r_wcs],
    "CompositeSubsetState": [r_composite, r_invert], "SubsetState": [r_base_state], "RangeSubsetState": [r_range],
    "RoiSubsetState": [r_roi_state], "RoiSubsetStateNd": [r_roi_state_nd_atts],
    "InequalitySubsetState": [r_inequality, r_inequality2], "Roi": [r_roi_base], "VisualAttributes": [r_style],
    "Subset": [r_subset], "DataCollection": [r_data_collection, r_link_helper_sharing], "Data": [r_data, r_meta_sharing], "ComponentID": [r_component_id],
    "PixelComponentID": [r_pixel_component_id], "Component": [r_component], "CategoricalComponent": [r_categorical_component],
    "DerivedComponent": [r_derived_component], "ComponentLink": [r_component_link],
    "CoordinateComponentLink": [r_coordinate_component_link], "builtin_function_or_method": [r_builtin],
    "function": [r_function], "method": [r_method], "Session": [r_session], "ndarray": [r_ndarray],
    "Colormap": [r_colormap], "datetime64": [r_datetime64], "Geometry": [r_geometry], "RegionData": [r_region_data],
    "ExtendedComponent": [r_region_data], "CallbackList": [r_callback_list],
}
