"""Orchestrator: shards a property's workload over subprocesses, merges what
the monitors observed, classifies violations against known_findings.json,
writes evidence/<id>.json and prints the verdict.

exit 0  held on everything observed (KNOWN-FINDING lines allowed)
exit 1  VIOLATION property=<id> replay=<path>
exit 2  INCONCLUSIVE property=<id> reason=...
"""
import argparse
import importlib
import json
import os
import shutil
import subprocess
import sys
import time

import vf
from vf.ctx import stable_hash

PY = sys.executable
DEFAULT_BUDGET = {"quick": 40.0, "thorough": 480.0}


def load_findings(prop, extra=None):
    out = []
    for path in [os.path.join(vf.VERIF_ROOT, "known_findings.json")] + ([extra] if extra else []):
        if not os.path.exists(path):
            continue
        with open(path) as f:
            doc = json.load(f)
        out.extend(e for e in doc.get("findings", []) if e.get("property") == prop)
    return out


def sig_matches(entry_sig, sig):
    return all(sig.get(k) == v for k, v in entry_sig.items())


def worker_env():
    env = dict(os.environ)
    env[vf.GUARD] = "1"
    env["PYTHONHASHSEED"] = "0"
    env["MPLBACKEND"] = "Agg"
    env["OMP_NUM_THREADS"] = "1"
    env["OPENBLAS_NUM_THREADS"] = "1"
    env["MKL_NUM_THREADS"] = "1"
    env["PYTHONDONTWRITEBYTECODE"] = "1"
    env["PYTHONPATH"] = vf.VERIF_ROOT + os.pathsep + env.get("PYTHONPATH", "")
    if os.environ.get("VERIF_GLUE_PATH"):
        # development only (validating monitors against a modified scratch copy of glue)
        env["PYTHONPATH"] = os.environ["VERIF_GLUE_PATH"] + os.pathsep + env["PYTHONPATH"]
    work = os.path.join(vf.VERIF_ROOT, ".work")
    os.makedirs(work, exist_ok=True)
    env["MPLCONFIGDIR"] = os.path.join(work, "mpl")
    env["VERIF_WORK"] = work
    return env


def ensure_deps():
    d = os.path.join(vf.VERIF_ROOT, ".deps")
    if os.path.isdir(os.path.join(d, "icontract")):
        return True
    wheels = "/opt/veriftools/wheels"
    if not os.path.isdir(wheels):
        return False
    r = subprocess.run([PY, "-m", "pip", "install", "-q", "--no-index", "--find-links", wheels,
                        "--target", d, "icontract", "deal"], capture_output=True, text=True)
    return r.returncode == 0


def run_shards(prop, tier, seed, nshards, budget, workdir, case=None):
    env = worker_env()
    procs = []
    for i in range(nshards):
        out = os.path.join(workdir, "shard_%d.json" % i)
        cmd = [PY, "-m", "vf.worker", prop, "--tier", tier, "--seed", str(seed), "--shard", str(i),
               "--nshards", str(nshards), "--budget-s", str(budget), "--out", out]
        if case is not None:
            cmd += ["--case", json.dumps(case)]
        log = open(os.path.join(workdir, "shard_%d.log" % i), "w")
        procs.append((i, out, log, subprocess.Popen(cmd, cwd=vf.VERIF_ROOT, env=env, stdout=log, stderr=subprocess.STDOUT)))
    deadline = time.time() + budget * 3 + 120
    results, problems = [], []
    for i, out, log, p in procs:
        try:
            rc = p.wait(timeout=max(1.0, deadline - time.time()))
        except subprocess.TimeoutExpired:
            p.kill()
            p.wait()
            problems.append("shard %d hit the wall-clock watchdog" % i)
            log.close()
            continue
        log.close()
        if rc != 0 or not os.path.exists(out):
            tail = open(log.name).read()[-600:]
            problems.append("shard %d exited %s: %s" % (i, rc, tail.replace("\n", " | ")))
            if os.path.exists(out):
                try:
                    results.append(json.load(open(out)))
                except Exception:
                    pass
            continue
        results.append(json.load(open(out)))
    return results, problems


def merge(results):
    m = {"counters": {}, "evaluations": 0, "distinct": set(), "samples": [], "violations": {},
         "errors": [], "reach": {}, "cases_run": 0, "truncated": False, "fatal": []}
    for r in results:
        if "fatal" in r:
            m["fatal"].append(r["fatal"])
            continue
        for k, v in r["counters"].items():
            m["counters"][k] = m["counters"].get(k, 0) + v
        m["evaluations"] += r["evaluations"]
        m["distinct"].update(r["distinct"])
        for s in r["samples"]:
            if len(m["samples"]) < 6:
                m["samples"].append(s)
        for v in r["violations"]:
            key = json.dumps(v["signature"], sort_keys=True)
            rec = m["violations"].setdefault(key, {"signature": v["signature"], "count": 0, "witnesses": []})
            rec["count"] += v["count"]
            if len(rec["witnesses"]) < 2:
                rec["witnesses"].extend(v["witnesses"][:1])
        m["errors"].extend(r["errors"])
        for spec, val in r.get("reach", {}).items():
            old = m["reach"].get(spec)
            if isinstance(val, dict) and isinstance(old, dict):
                old["lines_hit"] = max(old["lines_hit"], val["lines_hit"])
            else:
                m["reach"][spec] = val
        m["cases_run"] += r.get("cases_run", 0)
        m["truncated"] = m["truncated"] or r.get("truncated", False)
    return m


def main(argv=None):
    ap = argparse.ArgumentParser(prog="check")
    ap.add_argument("prop")
    ap.add_argument("--tier", default=os.environ.get("VERIF_TIER") or "quick", choices=["quick", "thorough"])
    ap.add_argument("--replay", default=None)
    ap.add_argument("--shards", type=int, default=None)
    ap.add_argument("--budget-s", type=float, default=None)
    ap.add_argument("--findings", default=None, help="development only: extra findings file to merge with known_findings.json")
    args = ap.parse_args(argv)
    prop = args.prop
    seed = int(os.environ.get("VERIF_SEED") or 0)
    t0 = time.time()
    os.environ[vf.GUARD] = "1"
    os.environ.setdefault("MPLBACKEND", "Agg")
    ensure_deps()
    vf.add_deps()

    import warnings
    warnings.filterwarnings("ignore")
    mod = importlib.import_module("vf.props." + prop)
    budget = args.budget_s or getattr(mod, "BUDGET_S", DEFAULT_BUDGET)[args.tier]
    nshards = args.shards or getattr(mod, "SHARDS", {}).get(args.tier, 16)
    nshards = max(1, min(nshards, os.cpu_count() or 1))

    workdir = os.path.join(vf.VERIF_ROOT, ".work", "%s_%s_%d_%d" % (prop, args.tier, seed, os.getpid()))
    os.makedirs(workdir, exist_ok=True)
    case = None
    tier = args.tier
    if args.replay:
        rep = json.load(open(args.replay))
        case, tier, seed = rep["case"], rep.get("tier", tier), rep.get("seed", seed)
        nshards = 1
    try:
        results, problems = run_shards(prop, tier, seed, nshards, budget, workdir, case=case)
    finally:
        pass
    m = merge(results)
    shutil.rmtree(workdir, ignore_errors=True)

    # ---- classify violations -------------------------------------------
    findings = load_findings(prop, args.findings)
    known = [e for e in findings if e.get("status") == "known"]
    hits = {e["id"]: 0 for e in known}
    unknown = []
    for rec in m["violations"].values():
        matched = [e for e in known if sig_matches(e["signature"], rec["signature"])]
        if matched:
            for e in matched:
                hits[e["id"]] += rec["count"]
        else:
            unknown.append(rec)

    lines = []
    replay_dir = os.path.join(vf.VERIF_ROOT, "replay", prop)
    for rec in unknown:
        os.makedirs(replay_dir, exist_ok=True)
        path = os.path.join(replay_dir, stable_hash(rec["signature"], 12) + ".json")
        w = rec["witnesses"][0] if rec["witnesses"] else {}
        with open(path, "w") as f:
            json.dump({"property": prop, "signature": rec["signature"], "count": rec["count"], "tier": tier,
                       "seed": seed, "case": w.get("case"), "detail": w.get("detail"), "events": w.get("events")},
                      f, indent=1)
        lines.append("VIOLATION property=%s replay=%s signature=%s count=%d" %
                     (prop, path, json.dumps(rec["signature"], sort_keys=True), rec["count"]))
    for e in known:
        lines.append("KNOWN-FINDING: property=%s %s: %s (observed %d times in this run)" %
                     (prop, e["id"], e.get("mechanism", ""), hits[e["id"]]))

    # ---- inconclusive? ----------------------------------------------------
    reasons = list(problems) + m["fatal"]
    if m["errors"]:
        reasons.append("%d harness errors, first: %s" % (len(m["errors"]), m["errors"][0]["error"]))
    if not args.replay:
        if m["evaluations"] == 0:
            reasons.append("no oracle comparison was made")
        try:
            reasons.extend(mod.floors(m["counters"], tier) if hasattr(mod, "floors") else [])
        except Exception as exc:
            reasons.append("floors() failed: %r" % (exc,))

    wall = round(time.time() - t0, 2)
    # ---- evidence -----------------------------------------------------------
    if not args.replay:
        cov = {
            "evaluations": m["evaluations"],
            "distinct_nontrivial": len(m["distinct"]),
            "rule": getattr(mod, "RULE", ""),
            "samples": m["samples"] or ["(no sample recorded)"],
            "cases_run": m["cases_run"],
            "shards": nshards,
            "truncated_by_time_budget": m["truncated"],
            "counters": dict(sorted(m["counters"].items())),
            "anchor_line_reach": m["reach"],
            "known_findings_observed": hits,
            "unlisted_violation_signatures": [r["signature"] for r in unknown],
            "inconclusive_reasons": reasons,
            "verdict": "violated" if unknown else ("inconclusive" if reasons else "held on what was observed"),
        }
        if getattr(mod, "EXHAUSTIVE", None):
            cov["exhaustive"] = bool(mod.EXHAUSTIVE.get(tier)) and not m["truncated"]
        ev = {"property_id": prop, "tier": tier, "seed": seed, "level": getattr(mod, "LEVEL", "exploration"),
              "coverage": cov, "assumptions": getattr(mod, "ASSUMPTIONS", []), "wall_s": wall,
              "violations": len(unknown)}
        # evidence is only ever written for runs against /repo itself
        evdir = os.path.join(vf.VERIF_ROOT, "evidence") if not os.environ.get("VERIF_GLUE_PATH") else \
            os.path.join(vf.VERIF_ROOT, ".work", "evidence_dev")
        os.makedirs(evdir, exist_ok=True)
        with open(os.path.join(evdir, prop + ".json"), "w") as f:
            json.dump(ev, f, indent=1, sort_keys=True)

    for ln in lines:
        print(ln)
    print("%s tier=%s seed=%d cases=%d evaluations=%d distinct_nontrivial=%d violations(unlisted)=%d known_hit=%s wall=%.1fs" %
          (prop, tier, seed, m["cases_run"], m["evaluations"], len(m["distinct"]), len(unknown),
           json.dumps(hits), wall))
    if args.replay:
        want = json.load(open(args.replay))["signature"]
        rep = [r for r in m["violations"].values() if r["signature"] == want]
        print("REPLAY %s" % ("reproduced" if rep else "did not reproduce"))
        for r in m["violations"].values():
            print(json.dumps(r, indent=1)[:4000])
        for e in m["errors"]:
            print(e["traceback"])
        return 1 if rep else 0
    if unknown:
        return 1
    if reasons:
        for r in reasons:
            print("INCONCLUSIVE property=%s reason=%s" % (prop, r))
        if m["errors"]:
            print(m["errors"][0]["traceback"])
        return 2
    return 0


if __name__ == "__main__":
    sys.exit(main())
