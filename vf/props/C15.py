"""C15 - world coordinates, their links and inverses agree with the coordinate object.

Shape: input sweep + dense reference.  A case builds one `Data` with identity
or affine coordinates whose linear part follows a named boolean coupling
pattern (diagonal, one symmetric pair, triangular, chain, permuted, full ...;
every fourth affine case is expressed as a linear astropy WCS instead),
then observes, at the public boundary,

  W   `data[world cid, view]` for every world axis and every view recipe,
  L1  every automatically created pixel->world link, `link.compute(data, view)`,
  L2  every automatically created world->pixel link, compared with calling
      `coords.world_to_pixel_values` directly on the very inputs the link reads,
  RT  world->pixel(pixel->world(p)) == p on the coordinate object (grid and
      off-grid positions) and through the links,
  H   the single-axis helpers on inputs with a random broadcast structure.

The reference is the transformation applied to the dense `meshgrid` (no
shortcut), indexed with the view by numpy.  The coordinate object itself is
trusted (the property is "agrees with the coordinate object").

A mismatch is classified by what structurally triggers the shortcut taken: two
predicates are computed from the non-zero pattern of the matrix with plain
sets, independently of glue (see `structure`).
"""
import numpy as np

from glue.core import Data, DataCollection
from glue.core.coordinates import AffineCoordinates, IdentityCoordinates
from glue.core.coordinate_helpers import pixel2world_single_axis, world2pixel_single_axis

from vf.common import VIEW_KINDS, make_view, exc_name, rand_slice
from vf.common import describe_view as _describe_view

ID = "C15"
LEVEL = "exploration"
BUDGET_S = {"quick": 35.0, "thorough": 420.0}
RULE = ("a case is one dataset: (ndim 1-3, coupling pattern of the affine matrix or identity, shape with axis lengths "
        "1-5 (thorough 1-8), random well-conditioned values); on it every world attribute is read with every view "
        "recipe, every coordinate link is computed with a sample of views, the helpers are called with randomly "
        "broadcast inputs. One evaluation = one comparison of a returned array with the dense reference. Non-trivial = "
        "the dataset has more than one element and the comparison involved a view other than None or an axis that "
        "the matrix couples to another one; distinct = distinct (ndim, pattern, shape, axis, observation kind, view) "
        "fingerprints.")
ASSUMPTIONS = ["the coordinate object's own pixel_to_world_values / world_to_pixel_values on dense arrays is the "
               "reference (the property states agreement with the coordinate object)",
               "values are compared with rtol 1e-9 / atol 1e-9 (round trips 1e-8): matrix products over differently "
               "shaped operands may round differently",
               "views are taken from the supported domain only (no negative indices or steps)"]
ANCHORS = ["glue.core.coordinate_helpers:pixel2world_single_axis", "glue.core.coordinate_helpers:world2pixel_single_axis",
           "glue.core.coordinate_helpers:dependent_axes", "glue.core.component:CoordinateComponent._calculate",
           "glue.core.component_link:CoordinateComponentLink.using",
           "glue.core.coordinates:AffineCoordinates.pixel_to_world_values",
           "glue.core.coordinates:AffineCoordinates.world_to_pixel_values"]

RTOL = 1e-9
ATOL = 1e-9
RT_TOL = 1e-8
REL = 1e-12      # relative to the magnitude of the quantity (matmul / wcslib round to ~1e-16 of it)

# coupling patterns of the linear part, in matrix (x, y, z) order; 1 = non-zero entry
PATTERNS = {
    1: {"identity": None, "diagonal": [[1]]},
    2: {"identity": None,
        "diagonal": [[1, 0], [0, 1]],
        "symmetric": [[1, 1], [1, 1]],
        "triangular_upper": [[1, 1], [0, 1]],
        "triangular_lower": [[1, 0], [1, 1]],
        "permuted": [[0, 1], [1, 0]],
        "zero_diag_coupled": [[1, 1], [1, 0]],
        },
    3: {"identity": None,
        "diagonal": [[1, 0, 0], [0, 1, 0], [0, 0, 1]],
        "block_xy": [[1, 1, 0], [1, 1, 0], [0, 0, 1]],
        "block_xz": [[1, 0, 1], [0, 1, 0], [1, 0, 1]],
        "block_yz": [[1, 0, 0], [0, 1, 1], [0, 1, 1]],
        "triangular_upper": [[1, 1, 1], [0, 1, 1], [0, 0, 1]],
        "triangular_lower": [[1, 0, 0], [1, 1, 0], [0, 1, 1]],
        "triangular_one": [[1, 0, 1], [0, 1, 0], [0, 0, 1]],
        "chain": [[1, 1, 0], [1, 1, 1], [0, 1, 1]],
        "permuted_cycle": [[0, 1, 0], [0, 0, 1], [1, 0, 0]],
        "permuted_swap": [[0, 1, 0], [1, 0, 0], [0, 0, 1]],
        "permuted_swap_coupled": [[0, 1, 0], [1, 1, 0], [0, 0, 1]],
        "full": [[1, 1, 1], [1, 1, 1], [1, 1, 1]],
        },
}
CELLS = [(nd, name) for nd in (1, 2, 3) for name in PATTERNS[nd]]
N_PER_CELL = {"quick": 32, "thorough": 2500}
MAX_LEN = {"quick": 5, "thorough": 8}


def cases(tier, seed):
    for k in range(N_PER_CELL[tier]):
        for nd, name in CELLS:
            yield ["ds", nd, name, k]


# ---------------------------------------------------------------- recipes
TINY = [2.5e-10, 4e-10, 1e-9, -3e-10, 7.5e-10]
MAGNITUDES = ["unit", "tiny_axis", "all_tiny", "tiny_offdiag"]


def make_matrix(rng, nd, pattern, magnitude="unit"):
    """(nd+1)x(nd+1) affine matrix whose linear part has exactly the given non-zero pattern.  The order-1 base matrix
    is well conditioned; `magnitude` then makes genuinely tiny but real terms (a wavelength axis in metres next to
    order-1 axes): tiny_axis = one world row (and its offset) scaled by ~1e-10..1e-9, all_tiny = every row,
    tiny_offdiag = coupling terms ~1e-10..1e-9 next to an order-1 diagonal.  Returns (matrix, inverse of linear part)."""
    pat = np.array(pattern, dtype=bool)
    for _ in range(200):
        lin = np.zeros((nd, nd))
        for i in range(nd):
            for j in range(nd):
                if pat[i, j]:
                    lin[i, j] = rng.choice([0.5, 1.5, 2.0, 3.0, -2.0, -0.75, 1.0]) if i == j or not pat[i, i] \
                        else rng.choice([0.25, -0.5, 0.75, 0.1, -0.2, 1.0])
        if abs(np.linalg.det(lin)) < 0.2 or np.linalg.cond(lin) > 200:
            continue
        off = np.array([rng.choice([0.0, 1.0, -2.5, 10.0, 0.125]) for _ in range(nd)])
        if magnitude == "tiny_offdiag":
            for i in range(nd):
                for j in range(nd):
                    if i != j and pat[i, j] and pat[i, i]:
                        lin[i, j] = rng.choice(TINY)
            inv = np.linalg.inv(lin)
        else:
            scale = np.ones(nd)
            if magnitude == "tiny_axis":
                scale[rng.randrange(nd)] = abs(rng.choice(TINY))
            elif magnitude == "all_tiny":
                scale = np.array([abs(rng.choice(TINY)) for _ in range(nd)])
            inv = np.linalg.inv(lin) / scale[None, :]      # inverse of diag(scale) @ lin, without a tiny pivot
            lin = lin * scale[:, None]
            off = off * scale * np.where(scale < 1, 100.0, 1.0)   # e.g. 5e-7 m with 2.5e-10 m steps
        m = np.eye(nd + 1)
        m[:nd, :nd] = lin
        m[:nd, nd] = off
        return m, inv
    raise RuntimeError("no well-conditioned matrix for pattern %r" % (pattern,))


def linear_wcs(nd, matrix):
    """astropy WCS without celestial axes computing world = lin @ pixel + offset for 0-based pixels."""
    from astropy.wcs import WCS
    w = WCS(naxis=nd)
    w.wcs.ctype = [""] * nd
    w.wcs.crpix = [1.0] * nd
    w.wcs.crval = [float(x) for x in matrix[:nd, nd]]
    w.wcs.cdelt = [1.0] * nd
    w.wcs.pc = np.array(matrix[:nd, :nd], dtype=float)
    w.wcs.set()
    return w


_INV_PATTERN = {}


def structural_inverse_pattern(pat):
    """Non-zero pattern of the inverse of a generic matrix with non-zero pattern `pat` (magnitudes of the actual
    entries must not matter: a 1e-10 coupling is a dependency)."""
    key = pat.tobytes() + bytes([pat.shape[0]])
    if key not in _INV_PATTERN:
        import random
        r = random.Random(12345)
        n = pat.shape[0]
        acc = np.zeros((n, n), dtype=bool)
        done = 0
        while done < 3:
            g = np.array([[r.uniform(1.0, 2.0) * r.choice([-1, 1]) if pat[i, j] else 0.0 for j in range(n)] for i in range(n)])
            if abs(np.linalg.det(g)) < 0.05:
                continue
            acc |= np.abs(np.linalg.inv(g)) > 1e-9
            done += 1
        _INV_PATTERN[key] = acc
    return _INV_PATTERN[key]


def structure(nd, lin, inv):
    """Set-based description of which axes matter, in NUMPY axis order (axis k <-> matrix index nd-1-k).

    deps[w]     pixel axes world axis w really depends on
    group[p]    pixel axes that share at least one world axis with pixel axis p  (the set glue's shortcut keeps
                for "axis p", whether p names a pixel or a world axis)
    invdeps[p]  world axes pixel axis p really depends on (non-zero pattern of the inverse)
    wdep[p]     world axes that depend on pixel axis p (column of the forward pattern)
    """
    C = (np.asarray(lin) != 0)[::-1, ::-1]          # C[w, p] numpy order
    Ci = structural_inverse_pattern(np.asarray(lin) != 0)[::-1, ::-1]   # Ci[p, w]
    deps = {w: {p for p in range(nd) if C[w, p]} for w in range(nd)}
    wdep = {p: {w for w in range(nd) if C[w, p]} for p in range(nd)}
    group = {p: set().union(*[deps[w] for w in wdep[p]]) if wdep[p] else set() for p in range(nd)}
    invdeps = {p: {w for w in range(nd) if Ci[p, w]} for p in range(nd)}
    fwd_ok = {w: deps[w] <= group[w] for w in range(nd)}
    # the world->pixel link for pixel axis p keeps world axes numbered like group[p], the helper keeps wdep[p]
    inv_ok_link = {p: invdeps[p] <= (group[p] & wdep[p]) for p in range(nd)}
    inv_ok_helper = {p: invdeps[p] <= wdep[p] for p in range(nd)}
    coupled = {w: len(deps[w]) > 1 for w in range(nd)}
    return {"fwd_ok": fwd_ok, "inv_ok_link": inv_ok_link, "inv_ok_helper": inv_ok_helper, "coupled": coupled}


def dense_reference(coords, shape):
    """World arrays (numpy axis order) from the transformation applied to the full pixel grid."""
    nd = len(shape)
    grids = np.meshgrid(*[np.arange(s, dtype=float) for s in shape], indexing="ij")
    w = coords.pixel_to_world_values(*grids[::-1])
    if nd == 1:
        w = [w]
    world = [np.array(np.broadcast_to(np.asarray(a, dtype=float), shape)) for a in w][::-1]
    return grids, world


def close(got, exp, tol=None, scale=None):
    """tol: absolute tolerance; scale: magnitude of the quantity -> absolute tolerance 1e-12 * scale (values of a
    tiny axis are ~1e-9: a fixed absolute tolerance would accept anything there)."""
    got = np.asarray(got)
    exp = np.asarray(exp)
    if got.shape != exp.shape:
        return "shape"
    if got.size == 0:
        return None
    try:
        g = got.astype(float)
    except (TypeError, ValueError):
        return "dtype"
    if scale is not None:
        ok = np.allclose(g, exp, rtol=0, atol=REL * scale, equal_nan=True)
    elif tol is None:
        ok = np.allclose(g, exp, rtol=RTOL, atol=ATOL, equal_nan=True)
    else:
        ok = np.allclose(g, exp, rtol=0, atol=tol, equal_nan=True)
    return None if ok else "value"


def describe_view(view):
    return str(view) if isinstance(view, (int, np.integer)) else _describe_view(view)


def neg_view(rng, shape):
    """Negative scalar indices, alone or mixed with slices / non-negative integers (numpy semantics: -k = n-k)."""
    nd = len(shape)
    n = rng.randint(1, nd)
    v = []
    for i in range(n):
        r = rng.random()
        if r < 0.5:
            v.append(-rng.randint(1, shape[i]))
        elif r < 0.8:
            v.append(rand_slice(rng, shape[i], allow_empty=False))
        else:
            v.append(rng.randrange(shape[i]))
    if not any(isinstance(x, int) and x < 0 for x in v):
        i = rng.randrange(n)
        v[i] = -rng.randint(1, shape[i])
    if n == 1 and rng.random() < 0.5:
        return v[0]          # data[wcid, -1]
    return tuple(v)


def view_index(view):
    return Ellipsis if view is None else view


# ---------------------------------------------------------------- the case
MATRIX_FORMS = ["contiguous", "fortran", "noncontiguous_view", "int_dtype"]


def build_coords(rng, nd, pname, k):
    """Coordinate object of cell (nd, pname); k selects magnitude class, WCS and the in-memory form of the matrix."""
    pattern = PATTERNS[nd][pname]
    spec = {"ckind": "identity" if pattern is None else "affine", "magnitude": "unit", "matrix_form": "n/a", "pname": pname}
    if pattern is None:
        spec.update(coords=IdentityCoordinates(n_dim=nd), lin=np.eye(nd), inv=np.eye(nd), matrix=None)
        return spec
    magnitude = {5: "tiny_axis", 6: "all_tiny", 7: "tiny_offdiag"}.get(k % 8, "unit")
    pat = np.array(pattern, dtype=bool)
    # tiny couplings only where the matrix stays well conditioned without them (full diagonal); otherwise the
    # round trip legitimately loses precision
    if magnitude == "tiny_offdiag" and not (all(pat[i, i] for i in range(nd)) and pat.sum() > nd):
        magnitude = "tiny_axis"
    matrix, inv = make_matrix(rng, nd, pattern, magnitude)
    form = "contiguous"
    if k % 8 == 3:
        coords = linear_wcs(nd, matrix)     # the same affine map expressed as an astropy WCS (glue's WCS branch)
        spec["ckind"] = "wcs"
    else:
        form = MATRIX_FORMS[(k // 8) % 4] if magnitude == "unit" else MATRIX_FORMS[(k // 8) % 3]
        given = matrix
        if form == "int_dtype":
            # integer-valued matrix handed over as an integer array (same non-zero pattern)
            mi = np.rint(matrix * 8)
            mi[nd, nd] = 1
            li = mi[:nd, :nd]
            if (li != 0).tolist() == (matrix[:nd, :nd] != 0).tolist() and abs(np.linalg.det(li)) > 0.5 \
                    and np.linalg.cond(li) < 500:
                matrix = mi.astype(float)
                inv = np.linalg.inv(li)
                given = mi.astype(np.int64)
            else:
                form = "contiguous"
        elif form == "fortran":
            given = np.asfortranarray(matrix)
        elif form == "noncontiguous_view":
            big = np.zeros((2 * (nd + 1), 2 * (nd + 1)))
            big[::2, ::2] = matrix
            given = big[::2, ::2]
        coords = AffineCoordinates(given)
    spec.update(coords=coords, lin=matrix[:nd, :nd], inv=inv, matrix=matrix, magnitude=magnitude, matrix_form=form)
    return spec


REPLACEMENTS = ["other_pattern", "near_equal", "equal_but_distinct", "to_identity", "same_object_again", "via_none"]


def run_case(ctx, case):
    _, nd, pname, _k = case
    rng = ctx.rng
    # class selectors come from the case's own random stream, not from its position in the case list, so that a run
    # cut short by the time budget still samples every class
    k = rng.randrange(10 ** 6)
    max_len = MAX_LEN[ctx.tier]
    shape = tuple(rng.randint(1, max_len) for _ in range(nd))
    if k % 5 == 0:      # make sure axes of length 1 (collapsed by unbroadcast) are frequent
        shape = tuple(1 if rng.random() < 0.4 else s for s in shape)
    shape_class = "small"
    if k % 20 == 19:
        ax = rng.randrange(nd)
        shape = tuple(rng.randint(100, 180) if j == ax else min(s, 2) for j, s in enumerate(shape))
        shape_class = "large"
    elif k % 20 == 9:
        ax = rng.randrange(nd)
        shape = tuple(0 if j == ax else s for j, s in enumerate(shape))
        shape_class = "zero_size"
    ctx.count("shape_class:" + shape_class)
    spec = build_coords(rng, nd, pname, k)
    size = int(np.prod(shape))
    d = Data(label="d", coords=spec["coords"])
    arr = np.arange(size, dtype=float).reshape(shape)
    d.add_component(np.asfortranarray(arr) if k % 2 else arr, "v")
    in_dc = k % 4 == 2
    if in_dc:
        dc = DataCollection([d])    # noqa: F841
        ctx.count("datasets_in_data_collection")
    if not observe(ctx, rng, d, spec, shape, "initial"):
        return
    if k % 3 == 2 and size > 0:
        # ---- the dataset changes SHAPE while keeping the very same coords object: the world attributes were just
        # read without a view (observe), now the values are refreshed from differently shaped datasets that share the
        # coordinate object, and everything must follow the new grid (with and without views)
        cur = shape
        for step in range(2):
            kind = rng.choice(["grow", "shrink", "same_shape_refresh", "other_lengths"])
            if kind == "grow":
                new_shape = tuple(n + rng.randint(1, 3) for n in cur)
            elif kind == "shrink":
                new_shape = tuple(max(1, n - rng.randint(1, 2)) for n in cur)
            elif kind == "same_shape_refresh":
                new_shape = cur
            else:
                new_shape = tuple(rng.randint(1, max_len + 2) for _ in cur)
            if shape_class == "large":
                new_shape = tuple(min(n, 12) for n in new_shape)
            other = Data(label="d", coords=spec["coords"])
            other.add_component(np.arange(int(np.prod(new_shape)), dtype=float).reshape(new_shape) + 0.5, "v")
            # a whole-dataset read right before the change (anything memoised would be taken now)
            for wc in d.world_component_ids:
                try:
                    np.asarray(d[wc])
                except Exception:
                    pass
            try:
                d.update_values_from_data(other)
            except Exception as e:   # noqa
                ctx.violation({"kind": "update_values_from_data_failed", "how": "exception:" + exc_name(e), "change": kind},
                              {"old_shape": list(cur), "new_shape": list(new_shape), "error": repr(e)[:300]})
                return
            ctx.count("shape_changed:" + kind)
            if tuple(d.shape) != tuple(new_shape) or d.coords is not spec["coords"]:
                ctx.violation({"kind": "shape_or_coords_not_taken_over", "change": kind},
                              {"shape": list(d.shape), "expected": list(new_shape)})
                return
            if not observe(ctx, rng, d, spec, new_shape, "after_shape_changed:" + kind):
                return
            cur = new_shape
        return
    if k % 3 != 1:
        return
    # ---- the coordinates of the live dataset are replaced
    how = REPLACEMENTS[(k // 3) % len(REPLACEMENTS)]
    if how == "other_pattern":
        spec2 = build_coords(rng, nd, rng.choice(sorted(PATTERNS[nd])), rng.randrange(64))
    elif how == "near_equal" and spec["matrix"] is not None:
        # one real term changes by a relative 1e-7: an allclose-style "unchanged" shortcut would keep the old values
        m2 = spec["matrix"].copy()
        i, j = [(i, j) for i in range(nd) for j in range(nd + 1) if m2[i, j] != 0][0]
        m2[i, j] *= (1 + 1e-7)
        sc = np.abs(m2[:nd, :nd]).sum(axis=1)          # rows may be ~1e-10: invert the row-normalised matrix
        spec2 = dict(spec, coords=AffineCoordinates(m2), matrix=m2, lin=m2[:nd, :nd],
                     inv=np.linalg.inv(m2[:nd, :nd] / sc[:, None]) / sc[None, :], ckind="affine", matrix_form="contiguous")
    elif how == "equal_but_distinct" and spec["matrix"] is not None:
        spec2 = dict(spec, coords=AffineCoordinates(spec["matrix"].copy()), ckind="affine", matrix_form="contiguous")
    elif how == "to_identity" or spec["matrix"] is None and how in ("near_equal", "equal_but_distinct"):
        spec2 = build_coords(rng, nd, "identity", 0)
        how = "to_identity"
    elif how == "same_object_again":
        spec2 = spec
    else:
        spec2 = build_coords(rng, nd, rng.choice(sorted(PATTERNS[nd])), rng.randrange(64))
    try:
        if how == "via_none":
            d.coords = None
            # the statement covers datasets *with* a transformation: without one, no world attribute may be offered;
            # coordinate links left behind by glue are only tallied (an observation, not judged here)
            offered = {"world_ids": len(d.world_component_ids),
                       "world_labels_listed": sum(1 for c in d.components if c.label.startswith("World"))}
            ctx.evaluation()
            ctx.count("coords_removed_state_compared")
            if d.coordinate_links:
                ctx.count("observation:coordinate_links_left_after_coords_removed")
            if any(offered.values()):
                ctx.violation({"kind": "world_attributes_offered_after_coords_removed",
                               "what": sorted(k_ for k_, v in offered.items() if v)}, {"shape": list(shape), "left": offered})
        d.coords = spec2["coords"]
    except Exception as e:   # noqa
        ctx.violation({"kind": "coords_replacement_failed", "how": "exception:" + exc_name(e), "replacement": how},
                      {"shape": list(shape), "error": repr(e)[:300]})
        return
    ctx.count("coords_replaced:" + how)
    observe(ctx, rng, d, spec2, shape, "after_coords_replaced:" + how)


def observe(ctx, rng, d, spec, shape, phase):
    """All observations of one dataset in its current state; False when nothing more can be checked."""
    nd = len(shape)
    pname = spec["pname"]
    coords, lin, inv, matrix = spec["coords"], spec["lin"], spec["inv"], spec["matrix"]
    magnitude, ckind = spec["magnitude"], spec["ckind"]
    initial = phase == "initial"
    st = structure(nd, lin, inv)
    size = int(np.prod(shape))
    grids, world = dense_reference(coords, shape)
    # magnitude of each world axis (numpy order) over the pixel range used anywhere below, and of each pixel axis when
    # recovered from such world values: absolute tolerances are REL times these
    offm = np.zeros(nd) if matrix is None else matrix[:nd, nd]
    pmax = max(max(shape), 8)
    wscale_c = np.abs(lin).sum(axis=1) * pmax + np.abs(offm)           # coordinate order
    wscale_c = np.where(wscale_c == 0, 1.0, wscale_c)
    pscale_c = np.abs(inv) @ (wscale_c + np.abs(offm)) + 1.0
    wscale = wscale_c[::-1]
    pscale = pscale_c[::-1]
    if initial:
        ctx.count("magnitude:" + magnitude)
        ctx.count("datasets")
        ctx.count("cell:%dd:%s" % (nd, pname))
        ctx.count("coords:" + ckind)
        ctx.count("matrix_form:" + spec["matrix_form"])
    base = {"ndim": nd, "coords": ckind, "phase": phase.split(":")[0]}
    wit = {"shape": list(shape), "pattern": pname, "magnitude": magnitude, "phase": phase, "matrix_form": spec["matrix_form"],
           "matrix": None if matrix is None else matrix.tolist()}

    def report(kind, sig_extra, how, detail):
        sig = dict(base)
        sig["kind"] = kind
        sig["how"] = how
        sig.update(sig_extra)
        det = dict(wit)
        det.update(detail)
        ctx.violation(sig, det)

    if len(d.world_component_ids) != nd or len(d.coordinate_links) != 2 * nd:
        report("missing_world_attributes_or_links", {}, "count",
               {"world": len(d.world_component_ids), "links": len(d.coordinate_links)})
        return False

    # ---- P: the pixel attributes are the grid (inputs of the links)
    for ax, pc in enumerate(d.pixel_component_ids):
        how = close(d[pc], grids[ax], tol=0)
        ctx.evaluation()
        ctx.count("pixel_attr_compared")
        if how:
            report("pixel_attr_mismatch", {}, how, {"axis": ax})

    # ---- W: world attributes under every view recipe
    world_view_ok = {}
    views = []
    zero = 0 in shape
    for vk in VIEW_KINDS:
        if zero and vk in ("int_slice_mix", "all_int", "index_arrays", "bool_mask"):
            continue
        reps = 2 if vk in ("int_slice_mix", "slice_tuple_full", "slice_tuple_short", "index_arrays") and initial else 1
        for _ in range(reps):
            views.append((vk, make_view(rng, shape, vk)))
    if zero:
        views.append(("bool_mask", np.zeros(shape, dtype=bool)))
    else:
        for _ in range(3 if initial else 1):
            views.append(("neg_int", neg_view(rng, shape)))
        views.append(("neg_step", tuple(slice(rng.choice([None, s - 1]), rng.choice([None, 0]), -rng.choice([1, 2]))
                                        for s in shape[:rng.randint(1, nd)])))
        kk = rng.randint(1, 5)
        views.append(("neg_index_arrays", tuple(np.array([rng.randrange(-s, s) for _ in range(kk)]) for s in shape)))
        if nd > 1:
            # index arrays mixed with integers / slices (numpy broadcasts the integer, keeps the sliced axis)
            mix = [np.array([rng.randrange(s) for _ in range(kk)]) if rng.random() < 0.5 else
                   (rng.randrange(s) if rng.random() < 0.6 else slice(None)) for s in shape]
            if not any(isinstance(x, np.ndarray) for x in mix):
                mix[0] = np.array([rng.randrange(shape[0]) for _ in range(kk)])
            if all(isinstance(x, np.ndarray) for x in mix):
                mix[-1] = rng.randrange(shape[-1])
            if isinstance(mix[0], np.ndarray) or not any(isinstance(x, slice) for x in mix):
                views.append(("index_array_int_mix", tuple(mix)))
    if phase != "initial":
        ctx.count("world_reads_" + phase.split(":")[0], len(views) * nd)
    for ax, wc in enumerate(d.world_component_ids):
        comp = d.get_component(wc)
        for vi, (vk, view) in enumerate(views):
            exp = world[ax][view_index(view)]
            route = rng.choice(["getitem", "get_data", "component"])
            try:
                if route == "getitem":
                    got = d[wc] if view is None else d[wc, view]
                elif route == "get_data":
                    got = d.get_data(wc, view)
                else:
                    got = comp.data if view is None else comp[view]
                how = close(got, exp, scale=wscale[ax])
            except Exception as e:   # noqa
                got = None
                how = "exception:" + exc_name(e)
            nontrivial = size > 1 and (vk != "none" or st["coupled"][ax])
            ctx.evaluation([nd, pname, list(shape), ax, "W", describe_view(view)], nontrivial)
            ctx.count("world_attr_compared")
            ctx.count("world_attr_view:" + vk)
            world_view_ok[(ax, vi)] = how is None
            if how:
                report("world_attr_mismatch", {"view_kind": vk, "deps_within_own_axis_group": st["fwd_ok"][ax],
                                               "axis_coupled": st["coupled"][ax], "empty_result": exp.size == 0}, how,
                       {"axis": ax, "view": describe_view(view), "route": route, "got": got, "expected": exp})
    if not all(st["fwd_ok"].values()):
        ctx.count("datasets_with_world_axis_outside_own_group")

    # ---- L: the automatically created links
    always = ("none", "bool_mask", "neg_int", "neg_step", "neg_index_arrays")
    link_views = [(i, v) for i, v in enumerate(views) if v[0] in always]
    others = [(i, v) for i, v in enumerate(views) if v[0] not in always]
    rng.shuffle(others)
    link_views += others[:6 if initial else 3]
    seen = set()
    for link in d.coordinate_links:
        ax = link.index
        p2w = bool(link.pixel2world)
        seen.add((p2w, ax))
        for vi, (vk, view) in link_views:
            if p2w:
                exp = world[ax][view_index(view)]
                inputs_ok = True
            else:
                # the transformation called directly on the inputs the link reads
                try:
                    ins = [np.asarray(d[wc] if view is None else d[wc, view], dtype=float) for wc in d.world_component_ids]
                    ins = np.broadcast_arrays(*ins)
                    res = coords.world_to_pixel_values(*ins[::-1])
                    exp = np.asarray(res if nd == 1 else res[nd - 1 - ax], dtype=float)
                    exp = np.broadcast_to(exp, ins[0].shape)
                except Exception:
                    ctx.count("w2p_link_inputs_unreadable_skipped")
                    continue
                inputs_ok = all(world_view_ok[(a, vi)] for a in range(nd))
            try:
                got = link.compute(d) if view is None and rng.random() < 0.5 else link.compute(d, view)
                how = close(got, exp, scale=wscale[ax] if p2w else pscale[ax])
            except Exception as e:   # noqa
                got = None
                how = "exception:" + exc_name(e)
            kind = "p2w_link" if p2w else "w2p_link"
            ctx.evaluation([nd, pname, list(shape), ax, kind, describe_view(view)], size > 1)
            ctx.count(kind + "_compared")
            ctx.count("link_view:" + vk)
            if how:
                # ComponentLink.compute packs (cid, view) with join_component_view and Data.__getitem__ unpacks it
                # again: an ndarray view is spread into its rows and a 1-tuple loses its tuple (computed here from
                # the view alone, not from glue)
                altered = isinstance(view, np.ndarray) or (isinstance(view, tuple) and len(view) == 1
                                                           and isinstance(view[0], np.ndarray))
                extra = {"view_kind": vk, "link_view_altered_by_join": altered}
                if p2w:
                    extra["deps_within_own_axis_group"] = st["fwd_ok"][ax]
                else:
                    extra["inverse_deps_covered"] = st["inv_ok_link"][ax]
                    extra["world_inputs_ok"] = inputs_ok
                report(kind + "_mismatch", extra, how,
                       {"axis": ax, "view": describe_view(view), "got": got, "expected": exp})
            elif not p2w and inputs_ok:
                # RT through glue: world attributes, then the world->pixel link, give the pixel grid back
                rt = close(got, grids[ax][view_index(view)], tol=RT_TOL)
                ctx.evaluation()
                ctx.count("roundtrip_through_links_compared")
                if rt:
                    report("roundtrip_through_links_mismatch", {"view_kind": vk}, rt,
                           {"axis": ax, "view": describe_view(view), "got": got})
    if len(seen) != 2 * nd:
        report("missing_world_attributes_or_links", {}, "link_index_set", {"seen": sorted(seen)})
    if not all(st["inv_ok_link"].values()):
        ctx.count("datasets_with_inverse_dependency_outside_shortcut")

    if not initial:
        return True
    # ---- RT on the coordinate object: grid and off-grid positions
    pts = [g.ravel() for g in grids] + []
    off = [np.array([rng.uniform(-2, s + 1) for _ in range(7)]) for s in shape]
    for label, P in (("grid", pts), ("offgrid", off)):
        try:
            w = coords.pixel_to_world_values(*P[::-1])
            back = coords.world_to_pixel_values(*([w] if nd == 1 else list(w)))
            back = [back] if nd == 1 else list(back)
            bad = [a for a in range(nd) if close(back[::-1][a], P[a], tol=RT_TOL)]
            how = "value" if bad else None
        except Exception as e:   # noqa
            how = "exception:" + exc_name(e)
            bad = []
        ctx.evaluation([nd, pname, list(shape), "RT", label], True)
        ctx.count("roundtrip_on_coords_compared")
        if how:
            report("roundtrip_on_coords_mismatch", {"points": label}, how, {"axes": bad})

    # ---- H: the single-axis helpers with randomly broadcast inputs
    for _ in range(3):
        hshape = tuple(rng.randint(1, 4) for _ in range(rng.randint(1, 3)))
        arrs = []
        for i in range(nd):
            keep = [rng.random() < 0.5 for _ in hshape]
            small = tuple(s if kp else 1 for s, kp in zip(hshape, keep))
            a = np.array([rng.choice([0.0, 1.0, 2.0, 3.5, -1.25, 7.0]) for _ in range(int(np.prod(small)))]).reshape(small)
            if rng.random() < 0.3:
                a = a.astype(rng.choice(["float32", "int64", ">f8"]))    # 3.5 / -1.25 truncate for int64: still inputs
            arrs.append(np.broadcast_to(a, hshape))
        dense = [np.array(a, dtype=float) for a in arrs]
        for direction in ("p2w", "w2p"):
            for cax in range(nd):       # coordinate-order axis
                try:
                    # reference on ravelled dense inputs (a 1-d astropy WCS rejects n-d arrays, astropy #12154)
                    flat = [a.ravel() for a in dense]
                    if direction == "p2w":
                        ref = coords.pixel_to_world_values(*flat)
                        got = pixel2world_single_axis(coords, *arrs, world_axis=cax)
                    else:
                        ref = coords.world_to_pixel_values(*flat)
                        got = world2pixel_single_axis(coords, *arrs, pixel_axis=cax)
                    exp = np.asarray(ref if nd == 1 else ref[cax], dtype=float).reshape(hshape)
                    if direction == "p2w":
                        hs = np.abs(lin[cax]).sum() * 7.0 + abs(offm[cax])
                    else:
                        hs = np.abs(inv[cax]) @ (7.0 + np.abs(offm)) + 1.0
                    how = close(got, exp, scale=hs if hs > 0 else 1.0)
                except Exception as e:   # noqa
                    how = "exception:" + exc_name(e)
                    got = exp = None
                ctx.evaluation([nd, pname, direction, cax, "H", [list(np.asarray(a).strides) for a in arrs]], True)
                ctx.count("helper_%s_compared" % direction)
                if how:
                    extra = {}
                    if direction == "w2p":
                        extra["inverse_deps_within_forward_column"] = st["inv_ok_helper"][nd - 1 - cax]
                    report("helper_%s_mismatch" % direction, extra, how,
                           {"axis_coordinate_order": cax, "inputs": dense, "got": got, "expected": exp})
    if rng.random() < 0.01:
        ctx.sample({"shape": list(shape), "pattern": pname, "matrix": wit["matrix"],
                    "world0_full": world[0], "views": [describe_view(v) for _, v in views[:6]]})
    return True


def floors(counters, tier):
    out = []
    for nd, name in CELLS:
        if counters.get("cell:%dd:%s" % (nd, name), 0) < 8:
            out.append("fewer than 8 datasets in cell %dd/%s" % (nd, name))
    for key, lo in (("world_attr_compared", 3000), ("p2w_link_compared", 1000), ("w2p_link_compared", 500),
                    ("roundtrip_through_links_compared", 300), ("roundtrip_on_coords_compared", 300),
                    ("helper_p2w_compared", 500), ("helper_w2p_compared", 500), ("pixel_attr_compared", 300)):
        if counters.get(key, 0) < lo:
            out.append("fewer than %d %s" % (lo, key))
    for ck in ("identity", "affine", "wcs"):
        if counters.get("coords:" + ck, 0) < 15:
            out.append("fewer than 15 datasets with %s coordinates" % ck)
    for mg in MAGNITUDES:
        if counters.get("magnitude:" + mg, 0) < 15:
            out.append("fewer than 15 datasets with magnitude class %s" % mg)
    for key, lo in (("shape_changed:grow", 15), ("shape_changed:shrink", 15), ("shape_changed:same_shape_refresh", 15),
                    ("shape_changed:other_lengths", 15), ("world_reads_after_shape_changed", 3000),
                    ("coords_replaced:other_pattern", 8), ("coords_replaced:near_equal", 8), ("coords_replaced:via_none", 8),
                    ("coords_replaced:equal_but_distinct", 8), ("coords_replaced:to_identity", 8),
                    ("coords_replaced:same_object_again", 8), ("world_reads_after_coords_replaced", 2000),
                    ("shape_class:large", 8), ("shape_class:zero_size", 8), ("datasets_in_data_collection", 50),
                    ("matrix_form:fortran", 15), ("matrix_form:noncontiguous_view", 15), ("matrix_form:int_dtype", 8)):
        if counters.get(key, 0) < lo:
            out.append("fewer than %d %s" % (lo, key))
    for vk in list(VIEW_KINDS) + ["neg_int", "neg_step", "neg_index_arrays", "index_array_int_mix"]:
        if counters.get("world_attr_view:" + vk, 0) < 200:
            out.append("fewer than 200 world-attribute reads with view kind %s" % vk)
    return out
