"""C01 - selections form a faithful Boolean algebra over membership masks.

Shape: generated programs + an independent numpy evaluation.  A *tree program*
is (dataset recipe, leaf descriptions, expression tree, evaluation schedule).
The tree is built with the real glue operators (state-level `& | ^ ~`, the
composite classes directly, the n-ary MultiOrState, combine_multiple, and the
same operators at Subset and SubsetGroup level); the schedule evaluates
sub-expressions and the root through `Data.get_mask`, `SubsetState.to_mask`
and `Subset.to_mask`, full and viewed, repeatedly, interleaved with `copy()`.
Every returned mask is compared with the tree evaluated by numpy over *leaf*
masks obtained from fresh twins of the leaves (new objects built from the leaf
description, never evaluated before, so they cannot share a memo entry with
the objects under observation).  After the schedule every operand object
(every sub-expression object the program built) is checked: its structural
fingerprint is unchanged and its mask, re-read through the same object (hence
through its memo entry), is still the expected one.

An *edit program* drives `EditSubsetMode.update` with Replace/And/Or/Xor/AndNot/
New modes over a DataCollection and compares every group's mask with the
6-line table applied to numpy masks.
"""
import json
import operator
import traceback

import numpy as np

from glue.core.edit_subset_mode import (AndMode, AndNotMode, EditSubsetMode, NewMode, OrMode, ReplaceMode, XorMode)
from glue.core.exceptions import IncompatibleAttribute
from glue.core.hub import HubListener
from glue.core.message import SubsetCreateMessage, SubsetUpdateMessage
from glue.core.subset import (AndState, InequalitySubsetState, InvertState, MultiOrState, OrState, RangeSubsetState,
                              Subset, SubsetState, XorState, combine_multiple)
from glue.core.subset_group import SubsetGroup

from vf import common
from vf import lib_C01_states as L

ID = "C01"
LEVEL = "exploration"
BUDGET_S = {"quick": 27.0, "thorough": 140.0}
RULE = ("a tree program = 1-3-d dataset (stored/int/categorical/derived/linked/pixel/world attributes, NaN/inf values) "
        "+ 3-8 elementary selections of random kinds + a random expression tree (depth <= 4 quick, <= 6 thorough) over "
        "and/or/xor/not built through state operators, composite classes, MultiOrState, combine_multiple, Subset-level "
        "and SubsetGroup-level operators + an evaluation schedule (sub-expressions and root, through Data.get_mask / "
        "state.to_mask / Subset.to_mask, full and viewed, repeated, interleaved with copy() and one in-place edit of an "
        "operand after combining); systematic blocks additionally build every operator over every ordered pair of leaf "
        "kinds; an edit program = 4-12 steps of mode changes, edit-subset choices and EditSubsetMode.update calls. A "
        "tree program is non-trivial when its depth is >= 2, it uses >= 2 leaf kinds and the expected root mask is not "
        "constant; an edit program when it ends with a non-constant group mask after >= 2 combining updates. Widening "
        "round: attributes of many dtypes / memory layouts / magnitudes (1e-10 .. 1.6e9) incl. a stride-0 and a dask-backed "
        "column; 18 % of the leaves take falsy / extreme / unusual-type parameters; tree flavours near_equal (bounds agreeing to "
        "1e-9), aligned (evaluated on a pixel-aligned, axis-permuted dataset), joined (parts defined on a key-joined table), "
        "large (>= 100 rows), zero_size; identity nodes (copy, paste, state_as_mask); views with negative integers, backward "
        "slices, negative / 2-d index arrays, numpy integers; fault steps; a tiny chunk limit for a fifth of the programs; "
        "pressure cases (thousands of short-lived selections on one dataset); edit programs with groups created / removed in "
        "the middle, datasets re-appended, paste, repeated and failing updates and a listener reading masks from inside the "
        "change message. distinct = "
        "distinct (shape, coordinate kind, tree with leaf kinds substituted) / (shape, mode sequence) fingerprints.")
ASSUMPTIONS = ["numpy elementwise &, |, ^, ~ on boolean arrays are the specification of the Boolean operations",
               "the truth values of a part's answer are its membership mask (a part answering with 0/1 numbers of the "
               "right shape is still a part; only a wrongly shaped answer excludes a comparison)",
               "throw-away inequalities / ranges of the pressure cases: op(values, bound) by numpy is their definition",
               "the chunk size of glue's chunked code paths is internal: shrinking it must not change any mask",
               "the mask of an elementary selection evaluated once on a freshly built object is taken as that "
               "selection's membership mask (leaf semantics are C04/C08/C09's business)",
               "the instance attribute 'parent' that the edit modes attach to the incoming state is not a defining "
               "attribute of a selection",
               "a composite built from operands keeps its meaning when an operand object is later edited through a "
               "documented setter (glue copies operands when combining; only Range/Inequality/MultiRange leaves whose "
               "copy is independent are edited, and never leaves held by reference by MultiOrState/combine_multiple)"]
ANCHORS = ["glue.core.subset:CompositeSubsetState.to_mask", "glue.core.subset:InvertState.to_mask",
           "glue.core.subset:MultiOrState.to_mask", "glue.core.subset:CompositeSubsetState.__init__",
           "glue.core.subset:combine_multiple", "glue.core.edit_subset_mode:EditSubsetMode._combine_data",
           "glue.core.edit_subset_mode:AndNotMode", "glue.core.data:Data.get_mask"]

BIN = {"and": operator.and_, "or": operator.or_, "xor": operator.xor}
BIN_CLS = {"and": AndState, "or": OrState, "xor": XorState}
# node kinds: (name, arity class)
BINARY_NODES = ["and", "or", "xor", "cls_and", "cls_or", "cls_xor", "s_and", "s_or", "s_xor", "g_and", "g_or", "g_xor"]
UNARY_NODES = ["not", "cls_not", "s_not", "g_not"]
NARY_NODES = ["multior", "cm_and", "cm_or", "cm_xor"]
IDENT_NODES = ["s_asmask", "copied", "pasted"]     # the same selection again: as a mask, as a copy, pasted into a subset
ALL_NODE_KINDS = BINARY_NODES + UNARY_NODES + NARY_NODES + IDENT_NODES
SHARING_NODES = set(NARY_NODES)       # hold (some of) their operands by reference
VIEW_KINDS = ["none", "none", "ellipsis", "bare_slice", "slice_tuple_full", "slice_tuple_short", "int_slice_mix",
              "index_arrays", "bool_mask"]
MODES = {"replace": ReplaceMode, "and": AndMode, "or": OrMode, "xor": XorMode, "andnot": AndNotMode, "new": NewMode}

N_TREE_BLOCKS = {"quick": 480, "thorough": 5000}
N_EDIT_BLOCKS = {"quick": 240, "thorough": 2500}
TREES_PER_BLOCK = 6
EDITS_PER_BLOCK = 4
MAX_DEPTH = {"quick": 4, "thorough": 6}


def base_op(kind):
    return kind.split("_")[-1] if "_" in kind else kind


# ---------------------------------------------------------------- trees
def gen_tree(rng, depth, nleaf):
    if depth == 0 or rng.random() < 0.22:
        return ["leaf", rng.randrange(nleaf)]
    r = rng.random()
    if r < 0.62:
        return [rng.choice(BINARY_NODES), gen_tree(rng, depth - 1, nleaf), gen_tree(rng, depth - 1, nleaf)]
    if r < 0.78:
        return [rng.choice(UNARY_NODES), gen_tree(rng, depth - 1, nleaf)]
    if r < 0.84:
        return [rng.choice(IDENT_NODES), gen_tree(rng, depth - 1, nleaf)]
    return [rng.choice(NARY_NODES), [gen_tree(rng, depth - 1, nleaf) for _ in range(rng.randint(1, 4))]]


def tree_depth(t):
    if t[0] == "leaf":
        return 0
    if t[0] in NARY_NODES:
        return 1 + max(tree_depth(x) for x in t[1])
    return 1 + max(tree_depth(x) for x in t[1:])


def tree_leaves(t):
    if t[0] == "leaf":
        return [t[1]]
    if t[0] in NARY_NODES:
        return [k for x in t[1] for k in tree_leaves(x)]
    return [k for x in t[1:] for k in tree_leaves(x)]


def tree_ops(t):
    if t[0] == "leaf":
        return []
    if t[0] in NARY_NODES:
        return [t[0]] + [k for x in t[1] for k in tree_ops(x)]
    return [t[0]] + [k for x in t[1:] for k in tree_ops(x)]


def subst(t, names):
    if t[0] == "leaf":
        return names[t[1]]
    if t[0] in NARY_NODES:
        return [t[0], [subst(x, names) for x in t[1]]]
    return [t[0]] + [subst(x, names) for x in t[1:]]


def has_op(t, name):
    return name in tree_ops(t)


def ev(t, M, emptied=None):
    """numpy evaluation of a tree over leaf masks M (dict leaf index -> bool array).  `emptied`, when given, is
    (Mfull, view): a selection turned into a mask (state_as_mask) was evaluated in full when it was built and is only
    then restricted to the view."""
    k = t[0]
    if k == "leaf":
        return M[t[1]]
    if k == "s_asmask" and emptied is not None:
        return ev(t[1], emptied[0], None)[emptied[1]]
    if k in UNARY_NODES:
        return ~ev(t[1], M, emptied)
    if k in IDENT_NODES:
        return ev(t[1], M, emptied)
    if k in NARY_NODES:
        parts = [ev(x, M, emptied) for x in t[1]]
        op = operator.or_ if k == "multior" else BIN[base_op(k)]
        r = parts[0].copy()
        for p in parts[1:]:
            r = op(r, p)
        return r
    a, b = ev(t[1], M, emptied), ev(t[2], M, emptied)
    return BIN[base_op(k)](a, b)


def ev_copy_model(t, M, lossy, parent_copies=False):
    """Diagnosis only: evaluation in which a leaf whose class inherits SubsetState.copy() (which returns an empty
    selection) contributes an empty mask wherever glue copies it while combining."""
    k = t[0]
    if k == "leaf":
        m = M[t[1]]
        return np.zeros_like(m) if (parent_copies and t[1] in lossy) else m
    if k in UNARY_NODES:
        return ~ev_copy_model(t[1], M, lossy, True)
    if k in IDENT_NODES:
        return ev_copy_model(t[1], M, lossy, k != "s_asmask")
    if k in NARY_NODES:
        if k == "multior":
            copies = False          # children are held by reference, MultiOrState.copy() shares them
        else:
            copies = True if len(t[1]) > 1 else parent_copies   # a single element is returned as is
        parts = [ev_copy_model(x, M, lossy, copies) for x in t[1]]
        op = operator.or_ if k == "multior" else BIN[base_op(k)]
        r = parts[0].copy()
        for p in parts[1:]:
            r = op(r, p)
        return r
    return BIN[base_op(k)](ev_copy_model(t[1], M, lossy, True), ev_copy_model(t[2], M, lossy, True))


def diagnose(W, descs, tree, M, got, top_copied=False):
    """Structural explanation of a mismatch (used only to name the mechanism in the signature)."""
    lossy = set()
    classes = set()
    for k in set(tree_leaves(tree)):
        twin = L.build_leaf(W, descs[k])
        if type(twin) is not SubsetState and type(twin).copy is SubsetState.copy:
            lossy.add(k)
            classes.add(type(twin).__name__)
    if lossy:
        try:
            if np.array_equal(ev_copy_model(tree, M, lossy, top_copied), got):
                return {"explained_by": "leaf_class_inherits_SubsetState_copy_which_returns_empty_selection",
                        "leaf_classes": sorted(classes)}
        except Exception:
            pass
    return {"explained_by": None}


def judge(W, descs, tree, M, got, exp, full, top_copied=False, shape=None):
    """None when `got` is the expected mask; otherwise (kind, diagnosis, detail)."""
    g = np.asarray(got)
    if g.shape != exp.shape or (full and g.shape != tuple(W.shape if shape is None else shape)):
        kind = "shape_mismatch"
        detail = {"got_shape": list(g.shape), "expected_shape": list(exp.shape)}
    elif not np.array_equal(g.astype(bool), exp):
        kind = "mask_mismatch"
        detail = {"got": g.astype(int), "expected": exp.astype(int)}
    else:
        return None
    diag = {"explained_by": None}
    if g.shape == exp.shape:
        diag = diagnose(W, descs, tree, M, g.astype(bool), top_copied=top_copied)
    return kind, diag, detail


class Node(object):
    __slots__ = ("tree", "obj", "fp", "parent_kind", "is_leaf", "leaf_index", "skip")

    def __init__(self, tree, obj, parent_kind):
        self.tree, self.obj, self.parent_kind = tree, obj, parent_kind
        self.fp = L.fingerprint(obj)
        self.is_leaf = tree[0] == "leaf"
        self.leaf_index = tree[1] if self.is_leaf else None
        self.skip = False


def build(W, t, leaves, nodes, parent_kind, target=None):
    """Build the glue state for tree t with the real operators; every sub-expression object is recorded as an
    operand (with its fingerprint) *before* its parent is constructed from it."""
    k = t[0]
    target = W.d if target is None else target
    if k == "leaf":
        obj = leaves[t[1]]
    elif k in UNARY_NODES:
        a = build(W, t[1], leaves, nodes, k, target)
        if k == "not":
            obj = ~a
        elif k == "cls_not":
            obj = InvertState(a)
        elif k == "s_not":
            s = Subset(target)
            s.subset_state = a
            obj = (~s).subset_state
        else:
            obj = ~SubsetGroup(subset_state=a)
    elif k in IDENT_NODES:
        a = build(W, t[1], leaves, nodes, k, target)
        if k == "copied":
            obj = a.copy()
        elif k == "pasted":
            src, dst = Subset(target), Subset(target)
            src.subset_state = a
            dst.paste(src)
            obj = dst.subset_state
        else:
            src = Subset(target)
            src.subset_state = a
            obj = src.state_as_mask()
    elif k in NARY_NODES:
        parts = [build(W, x, leaves, nodes, k, target) for x in t[1]]
        if k == "multior":
            obj = MultiOrState(list(parts))
        else:
            obj = combine_multiple(list(parts), BIN[base_op(k)])
    else:
        a = build(W, t[1], leaves, nodes, k, target)
        b = build(W, t[2], leaves, nodes, k, target)
        o = base_op(k)
        if k in BIN:
            obj = BIN[k](a, b)
        elif k.startswith("cls_"):
            obj = BIN_CLS[o](a, b)
        elif k.startswith("s_"):
            sa, sb = Subset(target), Subset(target)
            sa.subset_state, sb.subset_state = a, b
            obj = BIN[o](sa, sb).subset_state
        else:
            obj = BIN[o](SubsetGroup(subset_state=a), SubsetGroup(subset_state=b))
    nodes.append(Node(t, obj, parent_kind))
    return obj


# ---------------------------------------------------------------- observation helpers
def glue_frame(exc):
    tb = traceback.extract_tb(exc.__traceback__)
    for fr in reversed(tb):
        if "/glue/" in fr.filename:
            return fr.name
    return tb[-1].name if tb else "?"


def view_kind_of(kind):
    return kind


class LeafOracle(object):
    """Leaf masks from fresh twins, one new object per (leaf, view)."""

    def __init__(self, ctx, W, descs, target=None):
        self.ctx, self.W, self.descs = ctx, W, descs
        self.T = W.d if target is None else target
        self.cache = {}
        self.nonbool = {}        # leaf index -> dtype kind of a twin's answer that was not boolean
        self.lazy = set()        # leaf indices whose twin answered with a dask array

    def masks(self, needed, vid, view):
        out = {}
        for k in needed:
            key = (k, vid)
            if key not in self.cache:
                twin = L.build_leaf(self.W, self.descs[k])
                limit = L._CHUNK_LIMIT[0]
                L._CHUNK_LIMIT[0] = None        # twins always see glue's real chunk constant
                try:
                    m = self.T.get_mask(twin, view=view)
                    shape = tuple(self.T.shape)
                    want = shape if view is None else np.empty(shape, dtype=bool)[view].shape
                    if np.shape(m) == want:
                        if type(m).__module__.startswith("dask"):
                            self.lazy.add(k)
                        if np.asarray(m).dtype != bool:
                            self.nonbool[k] = np.asarray(m).dtype.kind
                        # truth values: a leaf may answer with 0/1 numbers; "selected" is what the statement is about
                        self.cache[key] = ("ok", np.array(np.asarray(m), dtype=bool))
                    else:
                        # a wrongly shaped answer: how an elementary selection answers a view is C04's business
                        self.cache[key] = ("malformed", None)
                except IncompatibleAttribute:
                    self.cache[key] = ("incompat", None)
                except Exception as e:   # leaf semantics under this view are not C01's business
                    self.cache[key] = ("exc", type(e).__name__)
                finally:
                    L._CHUNK_LIMIT[0] = limit
            st, m = self.cache[key]
            out[k] = (st, m)
        # a leaf that fails / answers malformed under this view excludes the comparison whatever else is in the tree
        for want in ("exc", "malformed", "incompat"):
            if any(st == want for st, _ in out.values()):
                return want, None
        return "ok", {k: m for k, (st, m) in out.items()}


def nonbool_diag(oracle, W, descs, needed, exc=None):
    """Names the mechanism when a part of the expression answers with a non-boolean array (the Boolean operators of
    numpy are not defined on floats, and ~ on 0/1 integers is not a complement)."""
    hit = sorted(k for k in needed if k in oracle.nonbool)
    lazy = any(k in oracle.lazy for k in needed)
    if lazy and (not hit or isinstance(exc, NotImplementedError)):
        return {"explained_by": "part_answers_with_a_dask_array"}
    if not hit or isinstance(exc, NotImplementedError):
        return None
    return {"explained_by": "part_answers_with_a_non_boolean_array",
            "leaf_classes": sorted(set(type(L.build_leaf(W, descs[k])).__name__ for k in hit)),
            "leaf_dtype_kinds": sorted(set(oracle.nonbool[k] for k in hit))}


def evaluate(T, obj, view, via):
    if via == "get_mask":
        return T.get_mask(obj, view=view)
    if via == "to_mask":
        return obj.to_mask(T, view=view)
    s = Subset(T)
    s.subset_state = obj
    return s.to_mask(view=view)


class TreeRun(object):
    def __init__(self, ctx, W, descs, tree, sched_seed_rng, label, target="d"):
        self.ctx, self.W, self.descs, self.tree, self.rng, self.label = ctx, W, descs, tree, sched_seed_rng, label
        self.target = target
        self.T = {"d": W.d, "p": W.p}[target]
        self.shape = tuple(self.T.shape)
        self.oracle = LeafOracle(ctx, W, descs, self.T)
        self.views = [("none", None)]
        self.evaluated = {}          # (id(obj), vid) -> count
        self.kinds = [d["k"] for d in descs]
        self.has_incompat = any(descs[k]["k"] == "incompat" for k in set(tree_leaves(tree)))
        self.joined = any(k.startswith("join_") for k in self.kinds)

    def witness(self, extra):
        w = {"world": L.describe_world(self.W), "leaves": self.descs, "tree": self.tree, "label": self.label,
             "evaluated_on": self.target, "chunk_limit": L._CHUNK_LIMIT[0]}
        w.update(extra)
        return w

    def add_view(self):
        if 0 in self.shape:
            kind = self.rng.choice(["ellipsis", "slice_tuple_full", "slice_tuple_short", "bool_mask"])
            v = np.zeros(self.shape, dtype=bool) if kind == "bool_mask" else common.make_view(self.rng, self.shape, kind)
            self.views.append((kind, v))
            return len(self.views) - 1
        if self.rng.random() < 0.3:
            kind = self.rng.choice(L.EXT_VIEW_KINDS)
            v = L.make_view_ext(self.rng, self.shape, kind)
        else:
            kind = self.rng.choice(VIEW_KINDS[2:])
            v = common.make_view(self.rng, self.shape, kind)
        self.views.append((kind, v))
        return len(self.views) - 1

    def compare(self, node, vid, via, phase, obj=None):
        """One monitored evaluation of `node` (or of obj, a copy of it) against the numpy oracle."""
        ctx, W = self.ctx, self.W
        vkind, view = self.views[vid]
        obj = node.obj if obj is None else obj
        needed = sorted(set(tree_leaves(node.tree)))
        st, M = self.oracle.masks(needed, vid, view)
        key = (id(obj), vid)
        repeat = self.evaluated.get(key, 0) > 0
        self.evaluated[key] = self.evaluated.get(key, 0) + 1
        node_op = node.tree[0]
        try:
            got = evaluate(self.T, obj, view, via)
            exc = None
        except Exception as e:
            got, exc = None, e
        if st == "incompat":
            ctx.count("expr_with_incompatible_leaf:" + ("raised_IncompatibleAttribute" if isinstance(
                exc, IncompatibleAttribute) else ("returned_mask" if exc is None else "raised_other")))
            if exc is not None and not isinstance(exc, IncompatibleAttribute):
                sig = {"kind": "exception", "exc": type(exc).__name__, "phase": phase, "node_op": node_op,
                       "where": glue_frame(exc), "with_incompatible_leaf": True}
                nb = nonbool_diag(self.oracle, W, self.descs, needed, exc)
                if nb is not None and isinstance(exc, (TypeError, NotImplementedError)):
                    sig = {"kind": "exception", "exc": type(exc).__name__}      # a known mechanism struck first
                    sig.update(nb)
                ctx.violation(sig, self.witness({"view": common.describe_view(view), "error": repr(exc)[:300]}))
            return None
        if st == "exc":
            ctx.count("excluded:leaf_fails_under_view:" + vkind)
            return None
        kinds_here = set(self.kinds[k].startswith("join_") for k in needed)
        if len(kinds_here) == 2:
            # parts defined on the joined table mixed with parts defined on this dataset: glue evaluates a selection
            # as a whole on one side of a key join; recorded, not judged (see notes)
            ctx.count("mixed_native_and_joined_parts:" + ("raised_" + type(exc).__name__ if exc is not None else
                                                          "returned_mask"))
            return None
        if st == "malformed":
            ctx.count("excluded:leaf_result_under_view_is_not_a_boolean_array_of_the_view_shape:" + vkind)
            return None
        full = None
        if view is not None and has_op(node.tree, "s_asmask"):
            st0, M0 = self.oracle.masks(needed, 0, None)
            if st0 != "ok":
                ctx.count("excluded:leaf_fails_under_view:none")
                return None
            full = (M0, view)
        try:
            exp = ev(node.tree, M, full)
        except Exception:
            ctx.count("excluded:leaf_masks_do_not_combine_under_view:" + vkind)
            return None
        ctx.count("comparisons")
        ctx.count("comparisons:phase:" + phase)
        ctx.count("comparisons:via:" + via)
        ctx.count("comparisons:view:" + vkind)
        if node_op != "leaf":
            ctx.count("comparisons:node_op:" + node_op)
            if repeat:
                ctx.count("composite_reevaluated_through_same_object")
        sig = None
        nb = nonbool_diag(self.oracle, W, self.descs, needed, exc)
        if exc is not None:
            sig = {"kind": "exception", "exc": type(exc).__name__, "phase": phase, "node_op": node_op,
                   "where": glue_frame(exc), "view_kind": vkind}
            if nb is not None and isinstance(exc, (TypeError, NotImplementedError)) and node_op != "leaf":
                sig = {"kind": "exception", "exc": type(exc).__name__}
                sig.update(nb)
            detail = {"error": repr(exc)[:300]}
        else:
            res = judge(W, self.descs, node.tree, M, got, exp, view is None, top_copied=(phase == "copy"),
                        shape=self.shape)
            if res is not None:
                kind, diag, detail = res
                if diag["explained_by"]:
                    # a named mechanism: the signature is the mechanism, not where it happened to surface
                    sig = {"kind": "mask_mismatch"}
                else:
                    sig = {"kind": kind, "phase": phase, "node_op": node_op, "view_kind": vkind,
                           "repeat_evaluation": bool(repeat)}
                sig.update(diag)
                if nb is not None and not diag["explained_by"] and node_op != "leaf":
                    sig = {"kind": kind}
                    sig.update(nb)
        if sig is not None:
            detail.update({"view": common.describe_view(view), "via": via, "node": node.tree})
            ctx.violation(sig, self.witness(detail))
            return False
        return True

    def run(self):
        ctx, W, rng = self.ctx, self.W, self.rng
        leaves = {}
        used = sorted(set(tree_leaves(self.tree)))
        try:
            for k in used:
                leaves[k] = L.build_leaf(W, self.descs[k])
        except Exception as e:
            ctx.count("excluded:leaf_constructor_failed:" + type(e).__name__)
            return
        # some operands are evaluated (and so memoised) before they are combined
        if rng.random() < 0.5:
            for k in used:
                if rng.random() < 0.6 and self.descs[k]["k"] != "incompat":
                    try:
                        self.T.get_mask(leaves[k])
                        self.evaluated[(id(leaves[k]), 0)] = 1
                    except Exception:
                        pass
        nodes = []
        try:
            root = build(W, self.tree, leaves, nodes, None, self.T)
        except IncompatibleAttribute:
            ctx.count("excluded:incompatible_leaf_while_building")     # state_as_mask of an incompatible part
            return
        except Exception as e:
            if any(self.oracle.masks([k], 0, None)[0] != "ok" for k in used):
                ctx.count("excluded:leaf_fails_while_building")        # state_as_mask evaluates its operand
                return
            sig = {"kind": "exception_while_combining", "exc": type(e).__name__, "where": glue_frame(e),
                   "root_op": self.tree[0]}
            nb = nonbool_diag(self.oracle, W, self.descs, used, e)
            if nb is not None and isinstance(e, (TypeError, NotImplementedError)):
                sig = {"kind": "exception", "exc": type(e).__name__}
                sig.update(nb)
            ctx.violation(sig, self.witness({"error": repr(e)[:300]}))
            return
        rootnode = nodes[-1]
        comps = [n for n in nodes if not n.is_leaf]
        # ---- schedule
        nsteps = rng.randint(3, 9)
        edited = False
        ok = True
        for _ in range(nsteps):
            r = rng.random()
            node = rootnode if rng.random() < 0.4 else rng.choice(nodes)
            if node.skip:       # the leaf object the harness itself edited
                continue
            p = rng.random()
            if p < 0.45:
                vid = 0
            elif p < 0.7 and len(self.views) > 1:
                vid = rng.randrange(1, len(self.views))
            else:
                vid = self.add_view()
            via = rng.choice(["get_mask", "get_mask", "to_mask", "subset"])
            if via == "to_mask" and self.joined:
                via = "get_mask"       # the key-join fallback lives in Data.get_mask, not in SubsetState.to_mask
            if r < 0.08:
                self.fault(node, via)
                continue
            if r < 0.70:
                res = self.compare(node, vid, via, "schedule")
            elif r < 0.90:
                try:
                    cp = node.obj.copy()
                except Exception as e:
                    ctx.violation({"kind": "exception_in_copy", "exc": type(e).__name__, "node_op": node.tree[0]},
                                  self.witness({"error": repr(e)[:300]}))
                    continue
                if node.is_leaf:
                    # copies of elementary selections are leaf semantics (C02/C05); only composites are compared
                    ctx.count("leaf_copies_not_compared")
                    continue
                ctx.count("copies_evaluated")
                res = self.compare(node, vid, via, "copy", obj=cp)
            else:
                if not edited:
                    edited = self.edit_operand(nodes, leaves)
                continue
            ok = ok and (res is not False)
        # ---- root: full, twice through the same object
        self.compare(rootnode, 0, "get_mask", "root_full")
        self.compare(rootnode, 0, rng.choice(["get_mask", "subset"] + ([] if self.joined else ["to_mask"])), "root_full_again")
        # ---- operands: unaltered, and their masks re-read through the same objects
        for n in nodes[:-1]:
            if n.skip:
                continue
            ctx.count("operand_checks")
            fp = L.fingerprint(n.obj)
            if fp != n.fp:
                ctx.violation({"kind": "operand_altered", "what": "defining_attributes",
                               "operand_class": type(n.obj).__name__, "parent_op": n.parent_kind},
                              self.witness({"node": n.tree, "before": repr(n.fp)[:600], "after": repr(fp)[:600]}))
            self.compare(n, 0, "get_mask", "operand_recheck")
        # ---- accounting
        depth = tree_depth(self.tree)
        kinds_used = sorted(set(self.kinds[k] for k in used))
        st, M = self.oracle.masks(used, 0, None)
        nonconst = False
        if st == "ok":
            e = ev(self.tree, M)
            nonconst = bool(e.any() and not e.all())
        for k in kinds_used:
            ctx.count("trees_with_leaf_kind:" + k)
        for o in set(tree_ops(self.tree)):
            ctx.count("trees_with_op:" + o)
        ctx.count("tree_programs")
        ctx.count("tree_programs:evaluated_on:" + self.target)
        if L._CHUNK_LIMIT[0] is not None:
            ctx.count("tree_programs:with_small_chunk_limit")
        if self.shape and max(self.shape) >= 100:
            ctx.count("tree_programs:table_with_100_or_more_rows")
        for k in used:
            if self.descs[k].get("variant"):
                ctx.count("leaf_edge_variants_in_evaluated_trees")
                ctx.count("leaf_edge_variant:%s:%s" % (self.descs[k]["k"], self.descs[k]["variant"]))
            if self.descs[k].get("att") in self.W.variants:
                ctx.count("leaf_on_column:dtype:" + self.W.variants[self.descs[k]["att"]]["dtype"])
                ctx.count("leaf_on_column:layout:" + self.W.variants[self.descs[k]["att"]]["layout"])
        if self.has_incompat:
            ctx.count("tree_programs_with_incompatible_leaf")
        ctx.evaluation([list(W.shape), W.coords, self.target, subst(self.tree, self.kinds)],
                       depth >= 2 and len(kinds_used) >= 2 and nonconst)
        if ctx.rng.random() < 0.002:
            ctx.sample({"world": L.describe_world(W), "tree": subst(self.tree, self.kinds), "views": [
                common.describe_view(v) for _, v in self.views]})

    def fault(self, node, via):
        """A call that fails (a view numpy rejects, a non-selection operand), followed later by valid calls on the same
        objects: whatever the failure leaves behind must not matter.  The outcome of the failing call is not judged."""
        kind, view = L.invalid_view(self.rng, self.shape)
        if self.rng.random() < 0.25:
            kind = "combine_with_non_selection"
            try:
                self.rng.choice([lambda: node.obj & 5, lambda: node.obj | None, lambda: MultiOrState([node.obj, "x"]).to_mask(
                    self.T)])()
                self.ctx.count("fault:%s:no_exception" % kind)
            except Exception as e:
                self.ctx.count("fault:%s:%s" % (kind, type(e).__name__))
            return
        try:
            evaluate(self.T, node.obj, view, via)
            self.ctx.count("fault:%s:no_exception" % kind)
        except Exception as e:
            self.ctx.count("fault:%s:%s" % (kind, type(e).__name__))
        self.ctx.count("fault_steps")

    def edit_operand(self, nodes, leaves):
        """In-place edit (documented setter) of an operand object after it was combined.  Only leaves all of whose
        occurrences were copied by their parent are eligible; every composite must keep its mask."""
        # leaves held by reference: root leaf, or direct child of an n-ary node
        shared = set()
        for n in nodes:
            if n.is_leaf and (n.parent_kind is None or n.parent_kind in SHARING_NODES):
                shared.add(n.leaf_index)
        cand = [k for k in leaves if k not in shared and self.descs[k]["k"] in ("range", "ineq", "multirange")]
        if not cand:
            return False
        k = self.rng.choice(cand)
        obj = leaves[k]
        kind = self.descs[k]["k"]
        if kind == "range":
            obj.lo = obj.lo - 1.5
            obj.hi = obj.hi + 2.5
        elif kind == "ineq":
            obj.right = obj.right + 1.75
        else:
            obj.pairs = [(lo - 1.0, hi + 1.0) for lo, hi in obj.pairs] + [(100.0, 101.0)]
        for n in nodes:
            if n.is_leaf and n.leaf_index == k:
                n.skip = True
        self.ctx.count("operand_edited_after_combining")
        self.ctx.count("operand_edited_after_combining:" + kind)
        # every composite (none holds this leaf by reference) must be unaffected
        for n in nodes:
            if not n.is_leaf and k in tree_leaves(n.tree):
                self.compare(n, 0, "get_mask", "after_operand_edit")
        return True


ALIGNED_KINDS = ["slice", "pixslice", "mask", "roi2d_pix", "range_pix", "empty", "slice", "pixslice"]
NARY_SIZES = list(range(2, 21)) + [33]
NARY_FORMS = ["cm_and", "cm_or", "cm_xor", "multior", "chain_left", "chain_right", "chain_left", "chain_right"]


def nary_tree(rng, n, nleaf, form):
    """n operands (leaf positions; n > nleaf repeats leaf objects) combined by one n-ary form."""
    ops = list(range(nleaf)) + [rng.randrange(nleaf) for _ in range(max(0, n - nleaf))]
    ops = ops[:n]
    rng.shuffle(ops)
    kids = [["leaf", k] for k in ops]
    if rng.random() < 0.3:
        j = rng.randrange(n)
        kids[j] = [rng.choice(["not", "cls_not"]), kids[j]]
    if form in NARY_NODES:
        return [form, kids]
    op = rng.choice(["and", "or", "xor", "cls_and", "cls_or", "cls_xor", "s_or", "g_xor"])
    mixed = rng.random() < 0.25
    pick = (lambda: rng.choice(["and", "or", "xor"])) if mixed else (lambda: op)
    if form == "chain_left":
        t = kids[0]
        for k in kids[1:]:
            t = [pick(), t, k]
        return t
    t = kids[-1]
    for k in reversed(kids[:-1]):
        t = [pick(), k, t]
    return t



def run_tree_program(ctx, rng, max_depth, with_incompat=False, forced=None, label="random", flavour=None):
    """flavour: None (general), 'near_equal', 'aligned' (evaluated on the pixel-aligned, axis-permuted dataset),
    'joined' (parts defined on a table joined to the dataset by a bijective key), 'large' (>= 100 rows), 'zero_size'."""
    if forced:
        TreeRun(ctx, forced["W"], forced["descs"], forced["tree"], rng, label).run()
        return
    shape = None
    if flavour == "large":
        shape = (rng.randint(100, 260),)
    elif flavour == "joined":
        shape = (rng.randint(2, 7),)
    elif flavour == "zero_size":
        shape = rng.choice([(0,), (0, 3), (2, 0), (2, 0, 3)])
    W = L.make_world(rng, shape=shape)
    nleaf = rng.randint(3, 8)
    target = "d"
    if flavour == "nary":
        # many operands: n from {2..20, 33}, distinct leaf kinds first, then repeated leaf objects
        n = rng.choice(NARY_SIZES)
        kinds = L.leaf_kinds(W)
        rng.shuffle(kinds)
        descs = [L.rand_leaf(rng, W, k) for k in kinds[:min(n, len(kinds), 12)]]
        form = rng.choice(NARY_FORMS)
        tree = nary_tree(rng, n, len(descs), form)
        if rng.random() < 0.3:
            tree = [rng.choice(BINARY_NODES), tree, ["leaf", 0]]
        ctx.count("nary_programs")
        ctx.count("nary_programs:form:" + form)
        ctx.count("nary_programs:operands:%d" % n)
        TreeRun(ctx, W, descs, tree, rng, "nary").run()
        return
    if flavour == "nan_not":
        # the complement of an ordering inequality on an attribute containing NaN selects the NaN elements
        for _ in range(20):
            names = [a for a in ("v", "be") if a in W.atts and np.isnan(W.full(a).astype(float)).any()]
            if names:
                break
            W = L.make_world(rng)
        else:
            ctx.count("excluded:no_attribute_with_nan")
            return
        descs = []
        for a in names + [rng.choice(names)]:
            descs.append({"k": rng.choice(["ineq", "ineq_rev"]), "att": a, "op": rng.choice(["gt", "ge", "lt", "le"]),
                          "val": L.pick_value(rng, W, a)})
        descs.append(L.rand_leaf(rng, W))
        inner = ["leaf", rng.randrange(len(descs) - 1)]
        tree = [rng.choice(UNARY_NODES), inner]
        r = rng.random()
        if r < 0.3:
            tree = [rng.choice(BINARY_NODES), tree, ["leaf", len(descs) - 1]]
        elif r < 0.5:
            tree = ["multior", [tree, ["not", ["leaf", 0]], ["leaf", len(descs) - 1]]]
        ctx.count("not_of_ordering_inequality_on_attribute_with_nan")
        TreeRun(ctx, W, descs, tree, rng, "nan_not").run()
        return
    if flavour == "aligned":
        target = "p"
        descs = []
        for _ in range(nleaf):
            k = rng.choice(ALIGNED_KINDS)
            if k == "range_pix":
                a = rng.choice(W.names("pixel"))
                lo, hi = L.pick_interval(rng, W, a)
                descs.append({"k": "range", "att": a, "lo": lo, "hi": hi})
            else:
                descs.append(L.rand_leaf(rng, W, k))
    elif flavour == "joined":
        descs = [L.join_leaf(rng, W) for _ in range(nleaf)]
        if rng.random() < 0.15:
            descs[rng.randrange(nleaf)] = L.rand_leaf(rng, W, rng.choice(["ineq", "range", "mask"]))
    else:
        descs = [L.rand_leaf(rng, W) for _ in range(nleaf)]
        if with_incompat:
            descs[rng.randrange(nleaf)] = L.rand_leaf(rng, W, "incompat")
    if flavour == "near_equal" or (flavour is None and rng.random() < 0.2):
        # selections of one kind on the large-magnitude attribute whose bounds agree to a relative 1e-9..1e-7, and an
        # equal-but-distinct twin of an existing leaf, side by side in one tree
        first = L.close_leaf(rng, W)
        descs[0] = first
        descs[1] = L.near_copy(rng, W, first)
        descs[2] = L.near_copy(rng, W, first)
        descs.append(dict(descs[rng.randrange(len(descs))]))
        nleaf = len(descs)
        ctx.count("tree_programs:with_near_equal_and_equal_but_distinct_leaves")
    tree = gen_tree(rng, rng.randint(1, max_depth), nleaf)
    if L._CHUNK_LIMIT[0] is not None and flavour in (None, "near_equal", "large"):
        # programs run with a tiny chunk limit contain a selection kind that is evaluated chunk by chunk
        chunked = L.rand_leaf(rng, W, rng.choice(["roind", "roi3d"]), edge=False)
        if chunked["k"] == "roind":
            chunked["pre"] = rng.choice(["swap", "scale"])
        descs.append(chunked)
        tree = [rng.choice(["and", "or", "xor", "cls_or"]), ["leaf", len(descs) - 1], tree]
        ctx.count("tree_programs:chunked_selection_kind_with_small_chunk_limit")
    if flavour == "joined":
        # state_as_mask would turn a part defined on the joined table into a mask defined on this dataset
        tree = json.loads(json.dumps(tree).replace('"s_asmask"', '"copied"'))
    TreeRun(ctx, W, descs, tree, rng, flavour or label, target=target).run()


# ---------------------------------------------------------------- edit-mode programs
def small_tree(rng, nleaf_base, n_new):
    """Expression over newly created leaves (indices nleaf_base ...)."""
    idx = list(range(nleaf_base, nleaf_base + n_new))
    if n_new == 1:
        return ["leaf", idx[0]]
    k = rng.choice(["and", "or", "xor", "multior"])
    if k == "multior":
        return ["multior", [["leaf", i] for i in idx]]
    return [k, ["leaf", idx[0]], ["leaf", idx[1]]]


class ReentrantReader(HubListener):
    """Reads the mask of a subset from inside the message that announces its new selection (i.e. while
    EditSubsetMode.update / new_subset_group is still on the stack) - and thereby memoises it at that moment."""

    def __init__(self, hub, data):
        self.data = data
        self.seen = []       # (group, mask or exception)
        hub.subscribe(self, SubsetUpdateMessage, handler=self.on_update)
        hub.subscribe(self, SubsetCreateMessage, handler=self.on_create)

    def read(self, subset):
        if subset.data is not self.data or getattr(subset, "group", None) is None:
            return
        try:
            self.seen.append((subset.group, np.array(subset.to_mask())))
        except Exception as e:
            self.seen.append((subset.group, e))

    def on_update(self, msg):
        if msg.attribute == "subset_state":
            self.read(msg.subset)

    def on_create(self, msg):
        self.read(msg.subset)


def run_edit_program(ctx, rng, max_steps):
    W = L.make_world(rng)
    d, dc = W.d, W.dc
    mode = EditSubsetMode()
    mode.data_collection = dc
    descs = []
    oracle = LeafOracle(ctx, W, descs)
    groups = []           # model: expression tree per live group, same order as dc.subset_groups
    edit = []             # model: indices into groups
    cur = "replace"
    last = ["none"]       # mode of the most recent update
    last_close = [None]
    log = []
    combining = 0
    nsteps = rng.randint(4, max_steps)
    views = [("none", None)]
    reader = ReentrantReader(dc.hub, d) if rng.random() < 0.5 else None
    last_update = [None]          # (state object, model tree) of the most recent update

    def witness(extra):
        w = {"world": L.describe_world(W), "leaves": descs, "steps": log}
        w.update(extra)
        return w

    def cmp_mask(tree, getter, vid, phase, extra, mismatch_kind="edit_mask_mismatch"):
        """One monitored read compared with the numpy evaluation of the model tree."""
        vkind, view = views[vid]
        st, M = oracle.masks(sorted(set(tree_leaves(tree))), vid, view)
        if st != "ok":
            ctx.count("excluded:edit_leaf_%s_under_view:%s" % (st, vkind))
            return
        try:
            exp = ev(tree, M)
        except Exception:
            ctx.count("excluded:leaf_masks_do_not_combine_under_view:" + vkind)
            return
        try:
            got = getter(view)
        except Exception as e:
            sig = {"kind": "exception", "exc": type(e).__name__, "phase": phase, "where": glue_frame(e),
                   "view_kind": vkind}
            sig.update(extra)
            nb = nonbool_diag(oracle, W, descs, sorted(set(tree_leaves(tree))), e) if tree[0] != "leaf" else None
            if nb is not None and isinstance(e, (TypeError, NotImplementedError)):
                sig = {"kind": "exception", "exc": type(e).__name__}
                sig.update(nb)
            ctx.violation(sig, witness({"error": repr(e)[:300], "view": common.describe_view(view)}))
            return
        ctx.count("comparisons")
        ctx.count("comparisons:phase:" + phase)
        ctx.count("comparisons:view:" + vkind)
        res = judge(W, descs, tree, M, got, exp, view is None, top_copied=True)
        if res is not None:
            kind, diag, detail = res
            if diag["explained_by"]:
                sig = {"kind": "mask_mismatch"}
            else:
                sig = {"kind": mismatch_kind if kind == "mask_mismatch" else kind, "phase": phase, "view_kind": vkind}
                sig.update(extra)
            sig.update(diag)
            detail.update({"model_tree": tree, "view": common.describe_view(view)})
            ctx.violation(sig, witness(detail))

    def check_groups(after):
        real = list(dc.subset_groups)
        if len(real) != len(groups):
            ctx.violation({"kind": "edit_group_count", "after": after, "last_update_mode": last[0]},
                          witness({"real": len(real), "model": len(groups)}))
            return False
        if reader is not None:
            seen, reader.seen = reader.seen, []
            for grp, val in seen:
                if grp not in real:
                    continue

                def stored(view, val=val):
                    if isinstance(val, Exception):
                        raise val
                    return val
                ctx.count("reads_from_inside_the_change_message")
                cmp_mask(groups[real.index(grp)], stored, 0, "edit_read_inside_message",
                         {"after": after, "last_update_mode": last[0]})
        for gi, (grp, tree) in enumerate(zip(real, groups)):
            via = rng.choice(["get_mask", "subset", "group_subset"])
            if via == "get_mask":
                getter = lambda view, grp=grp: d.get_mask(grp.subset_state, view=view)
            elif via == "subset":
                getter = lambda view, grp=grp: [s for s in d.subsets if s.group is grp][0].to_mask(view=view)
            else:
                getter = lambda view, grp=grp: [s for s in grp.subsets if s.data is d][0].to_mask(view=view)
            cmp_mask(tree, getter, 0, "edit_group", {"after": after, "last_update_mode": last[0], "in_edit_subset": gi in edit})
        return True

    modes_seen = []
    for step in range(nsteps):
        r = rng.random()
        repeat = None
        if r < 0.20:
            cur = rng.choice(list(MODES))
            mode.mode = MODES[cur]
            log.append(["mode", cur])
        elif r < 0.24:
            # a group created directly, without a selection, in the middle of the history (not the edit subset)
            dc.new_subset_group(label="empty %d" % step)
            descs.append({"k": "empty"})
            groups.append(["leaf", len(descs) - 1])
            log.append(["new_empty_group"])
            ctx.count("edit_steps:new_empty_group")
            if not check_groups("new_empty_group"):
                return
        elif r < 0.28 and groups:
            # a group removed from anywhere in the list; the edit subset is then set to what is left of it
            gi = rng.randrange(len(groups))
            real = list(dc.subset_groups)
            dc.remove_subset_group(real[gi])
            groups.pop(gi)
            edit = [i - (1 if i > gi else 0) for i in edit if i != gi]
            real = list(dc.subset_groups)
            mode.edit_subset = [real[i] for i in edit]
            log.append(["remove_group", gi])
            ctx.count("edit_steps:remove_group:" + ("last" if gi == len(groups) else "not_last"))
            if not check_groups("remove_group"):
                return
        elif r < 0.31:
            # another dataset leaves the collection and comes back
            dc.remove(W.u)
            dc.append(W.u)
            log.append(["readd_dataset", "u"])
            ctx.count("edit_steps:dataset_removed_and_appended_again")
            if not check_groups("readd_dataset"):
                return
        elif r < 0.35 and len(groups) >= 2:
            gi, gj = rng.sample(range(len(groups)), 2)
            real = list(dc.subset_groups)
            real[gi].paste([sub for sub in real[gj].subsets if sub.data is d][0])
            groups[gi] = groups[gj]
            log.append(["paste", gj, "into", gi])
            ctx.count("edit_steps:paste")
            if not check_groups("paste"):
                return
        elif r < 0.38:
            # fault: an update that must fail, followed by ordinary steps
            try:
                if rng.random() < 0.5:
                    mode.update(dc, "not a selection")
                else:
                    mode.update(42, SubsetState())
                ctx.count("fault:edit_update:no_exception")
            except Exception as e:
                ctx.count("fault:edit_update:" + type(e).__name__)
            log.append(["failing_update"])
            if not check_groups("failing_update"):
                return
        elif r < 0.50 and groups:
            k = rng.choice([0, 1, 1, 1, 2])
            edit = sorted(rng.sample(range(len(groups)), min(k, len(groups))))
            real = list(dc.subset_groups)
            mode.edit_subset = [real[i] for i in edit]
            log.append(["edit_subset", list(edit)])
        elif r < 0.58 and groups:
            # viewed read of one group through its subset
            gi = rng.randrange(len(groups))
            kind = rng.choice(VIEW_KINDS[2:])
            views.append((kind, common.make_view(rng, W.shape, kind)))
            log.append(["viewed_read", gi, common.describe_view(views[-1][1])])
            grp = list(dc.subset_groups)[gi]
            cmp_mask(groups[gi], lambda view, grp=grp: [s for s in grp.subsets if s.data is d][0].to_mask(view=view),
                     len(views) - 1, "edit_viewed_read", {})
        else:
            if last_update[0] is not None and rng.random() < 0.12:
                repeat = last_update[0]        # the same selection object applied once more (possibly in another mode)
            n_new = rng.choice([1, 1, 1, 2, 2, 3])
            base = len(descs)
            if repeat is not None:
                n_new = 0
                ctx.count("edit_updates:same_state_object_again")
            elif rng.random() < 0.2:
                # a selection on the large-magnitude attribute, most often the previous one with a bound moved
                n_new = 1
                last_close[0] = L.close_leaf(rng, W, last_close[0] if rng.random() < 0.75 else None)
                descs.append(last_close[0])
                ctx.count("edit_updates:close_bounds_on_large_magnitude_attribute")
            else:
                for _ in range(n_new):
                    descs.append(L.rand_leaf(rng, W, "incompat") if rng.random() < 0.04 else L.rand_leaf(rng, W))
            if repeat is not None:
                new_state, tree = repeat
            else:
                tree = small_tree(rng, base, n_new) if n_new <= 2 else ["multior", [["leaf", base + j] for j in range(n_new)]]
                leaves = {base + j: L.build_leaf(W, descs[base + j]) for j in range(n_new)}
                nodes = []
                try:
                    new_state = build(W, tree, leaves, nodes, None)
                except Exception as e:
                    ctx.violation({"kind": "exception_while_combining", "exc": type(e).__name__, "where": glue_frame(e),
                                   "root_op": tree[0]}, witness({"error": repr(e)[:300]}))
                    return
            last_update[0] = (new_state, tree)
            if rng.random() < 0.4:
                try:
                    d.get_mask(new_state)       # memoise the incoming state before it is combined
                except Exception:
                    pass
            override = rng.choice(list(MODES)) if rng.random() < 0.15 else None
            eff = override or cur
            target = rng.choice(["dc", "data"])
            real_before = list(dc.subset_groups)
            old = [(real_before[i].subset_state, L.fingerprint(real_before[i].subset_state), groups[i]) for i in edit]
            fp_new = L.fingerprint(new_state)
            log.append(["update", eff, tree, "override" if override else "mode", target, list(edit)])
            try:
                mode.update(dc if target == "dc" else d, new_state,
                            override_mode=MODES[override] if override else None)
            except Exception as e:
                ctx.violation({"kind": "exception", "exc": type(e).__name__, "phase": "edit_update", "mode": eff,
                               "where": glue_frame(e)}, witness({"error": repr(e)[:300]}))
                return
            ctx.count("edit_updates")
            ctx.count("edit_updates:mode:" + eff)
            ctx.count("edit_updates:" + ("with_edit_subset" if edit and eff != "new" else "without_edit_subset"))
            modes_seen.append(eff)
            last[0] = eff
            # ---- the 6-line table
            if not edit or eff == "new":
                groups.append(tree)
                edit = [len(groups) - 1]
            else:
                for i in edit:
                    o = groups[i]
                    if eff == "replace":
                        groups[i] = tree
                    elif eff == "and":
                        groups[i] = ["and", tree, o]
                    elif eff == "or":
                        groups[i] = ["or", tree, o]
                    elif eff == "xor":
                        groups[i] = ["xor", tree, o]
                    elif eff == "andnot":
                        groups[i] = ["and", o, ["not", tree]]
                    if eff != "replace":
                        combining += 1
            if not check_groups("update"):
                return
            # edit subset choice must follow the model
            real = list(dc.subset_groups)
            real_edit = [real.index(g) for g in mode.edit_subset if g in real]
            if sorted(real_edit) != sorted(edit):
                ctx.violation({"kind": "edit_subset_choice", "mode": eff}, witness({"real": real_edit, "model": edit}))
                return
            # operands: the incoming state and the previous states of the edited groups
            for (ostate, ofp, otree, role) in [(new_state, fp_new, tree, "incoming")] + [
                    (o[0], o[1], o[2], "previous") for o in old]:
                ctx.count("operand_checks")
                fp = L.fingerprint(ostate)
                if fp != ofp:
                    ctx.violation({"kind": "operand_altered", "what": "defining_attributes",
                                   "operand_class": type(ostate).__name__, "parent_op": "edit:" + eff, "role": role},
                                  witness({"before": repr(ofp)[:500], "after": repr(fp)[:500]}))
                cmp_mask(otree, lambda view, ostate=ostate: d.get_mask(ostate, view=view), 0, "edit_operand_recheck",
                         {"mode": eff, "role": role}, mismatch_kind="operand_mask_changed")
    check_groups("end")
    nonconst = False
    if groups:
        st, M = oracle.masks(sorted(set(tree_leaves(groups[-1]))), 0, None)
        if st == "ok":
            e = ev(groups[-1], M)
            nonconst = bool(e.any() and not e.all())
    ctx.count("edit_programs")
    ctx.evaluation([list(W.shape), "edit", modes_seen], combining >= 2 and nonconst)


# ---------------------------------------------------------------- many short-lived selections on one dataset
def run_pressure(ctx, rng, n_throwaway):
    """Thousands of distinct, short-lived selections evaluated on one dataset while a few long-lived composites are
    re-read: the answer must not depend on how many evaluations came before (bounded caches, identity-keyed memo
    entries of objects whose address is reused).  Throw-away selections are inequalities / ranges and their
    complements and conjunctions, whose masks follow from the definition with numpy alone."""
    W = L.make_world(rng, shape=rng.choice([(rng.randint(3, 9),), (rng.randint(2, 4), rng.randint(2, 4))]), extras=False)
    d = W.d
    names = ["v", "w", "i", "big"]
    full = {n: np.asarray(d[W.atts[n]]) for n in names}
    long_lived = []
    for _ in range(5):
        descs = [L.rand_leaf(rng, W, rng.choice(["ineq", "range", "category", "element", "ineq2", "catroi"]), edge=False)
                 for _ in range(3)]
        tree = gen_tree(rng, 2, 3)
        leaves = {k: L.build_leaf(W, descs[k]) for k in set(tree_leaves(tree))}
        try:
            obj = build(W, tree, leaves, [], None)
            exp = np.array(d.get_mask(obj), dtype=bool)       # first read; later reads must agree with it
        except Exception:
            continue
        st, M = LeafOracle(ctx, W, descs).masks(sorted(leaves), 0, None)
        if st != "ok" or not np.array_equal(ev(tree, M), exp):
            continue          # judged by the tree programs, not here
        long_lived.append((obj, tree, descs, exp))
    views = [None, None, Ellipsis] + [common.make_view(rng, W.shape, k) for k in ("slice_tuple_full", "int_slice_mix")]

    def throwaway():
        a = rng.choice(names)
        op = rng.choice(["gt", "ge", "lt", "le"])
        val = L.pick_value(rng, W, a)
        st = InequalitySubsetState(W.atts[a], val, L.OPS[op]) if rng.random() < 0.7 else None
        if st is None:
            hi = val + rng.choice([0.5, 1.0, 3.0])
            return RangeSubsetState(val, hi, W.atts[a]), (full[a] >= val) & (full[a] <= hi), "range"
        return st, L.OPS[op](full[a], val), "ineq"

    for j in range(n_throwaway):
        st, exp, what = throwaway()
        r = rng.random()
        if r < 0.2:
            st, exp, what = ~st, ~exp, "not"
        elif r < 0.4:
            st2, exp2, _ = throwaway()
            st, exp, what = st & st2, exp & exp2, "and"
        view = rng.choice(views)
        try:
            got = np.asarray(d.get_mask(st, view=view))
        except Exception as e:
            ctx.violation({"kind": "exception", "exc": type(e).__name__, "phase": "pressure_throwaway", "node_op": what,
                           "where": glue_frame(e)}, {"world": L.describe_world(W), "error": repr(e)[:300], "after": j})
            continue
        e_ = exp if view is None else exp[view]
        ctx.count("comparisons")
        ctx.count("comparisons:phase:pressure_throwaway")
        if got.shape != np.shape(e_) or not np.array_equal(got.astype(bool), e_):
            ctx.violation({"kind": "mask_mismatch", "phase": "pressure_throwaway", "node_op": what,
                           "view_kind": "none" if view is None else "viewed", "explained_by": None},
                          {"world": L.describe_world(W), "after_evaluations": j, "got": got.astype(int),
                           "expected": np.asarray(e_).astype(int), "view": common.describe_view(view)})
        del st
        if j % 150 == 149:
            for obj, tree, descs, exp0 in long_lived:
                try:
                    again = np.asarray(d.get_mask(obj))
                except Exception as e:
                    ctx.violation({"kind": "exception", "exc": type(e).__name__, "phase": "pressure_long_lived",
                                   "node_op": tree[0], "where": glue_frame(e)}, {"error": repr(e)[:300], "after": j})
                    continue
                ctx.count("comparisons")
                ctx.count("comparisons:phase:pressure_long_lived")
                ctx.count("composite_reevaluated_through_same_object")
                if again.shape != exp0.shape or not np.array_equal(again.astype(bool), exp0):
                    ctx.violation({"kind": "mask_mismatch", "phase": "pressure_long_lived", "node_op": tree[0],
                                   "view_kind": "none", "repeat_evaluation": True, "explained_by": None},
                                  {"world": L.describe_world(W), "leaves": descs, "tree": tree, "after_evaluations": j,
                                   "got": again.astype(int), "expected": exp0.astype(int)})
    ctx.count("pressure_blocks")
    ctx.count("pressure_throwaway_selections", n_throwaway)
    ctx.count("memo_entries_seen_at_block_end", L.memo_entries())
    ctx.evaluation(["pressure", list(W.shape), n_throwaway], True)


# ---------------------------------------------------------------- systematic blocks
def systematic_block(ctx, rng, kind_a):
    """Every operator over (kind_a, kind_b) for every leaf kind b constructible on the dataset."""
    # datasets: 1-d with categories and coordinates (all kinds constructible), plus one 2-3-d with coordinates
    for shape in [(rng.randint(3, 5),), tuple(rng.randint(2, 4) for _ in range(rng.choice([2, 3])))]:
        W = L.make_world(rng, shape=shape, coords=rng.choice(["identity", "diagonal", "full"]))
        kinds = L.leaf_kinds(W)
        if kind_a not in kinds:
            continue
        for kind_b in kinds:
            descs = [L.rand_leaf(rng, W, kind_a), L.rand_leaf(rng, W, kind_b), L.rand_leaf(rng, W, kind_a)]
            t = [rng.choice(BINARY_NODES), ["leaf", 0], ["leaf", 1]]
            if rng.random() < 0.3:
                t = [rng.choice(UNARY_NODES + IDENT_NODES), t]
            TreeRun(ctx, W, descs, t, rng, "systematic").run()
            if rng.random() < 0.5:
                t = [rng.choice(UNARY_NODES + IDENT_NODES), ["leaf", 0]]
            else:
                t = [rng.choice(NARY_NODES), [["leaf", 0], ["leaf", 1], ["and", ["leaf", 2], ["leaf", 1]]][:rng.randint(1, 3)]]
            TreeRun(ctx, W, descs, t, rng, "systematic").run()
    ctx.count("systematic_blocks")


ALL_LEAF_KINDS = L.LEAF_KINDS_ANY + L.LEAF_KINDS_1D + L.LEAF_KINDS_WORLD


FLAVOURS = [None, "nary", None, "near_equal", "aligned", "nary", None, "joined", "nan_not", "large", "nary", "zero_size", None,
            "aligned"]
N_PRESSURE = {"quick": (8, 1200), "thorough": (40, 4000)}


def cases(tier, seed):
    # interleaved, so that a run cut short by the time budget still has its share of every class
    sys_cases = [["sys", k] for k in ALL_LEAF_KINDS]
    pressure = [["pressure", i] for i in range(N_PRESSURE[tier][0])]
    nt, ne = N_TREE_BLOCKS[tier], N_EDIT_BLOCKS[tier]
    for i in range(max(nt, ne)):
        if i % 5 == 0 and sys_cases:
            yield sys_cases.pop(0)
        if i % 17 == 3 and pressure:
            yield pressure.pop(0)
        if i < nt:
            yield ["tree", i]
        if i < ne:
            yield ["edit", i]
    for c in sys_cases + pressure:
        yield c


def setup(ctx):
    L.set_chunk_limit(None)


def run_case(ctx, case):
    L.clear_memo_caches()
    L.set_chunk_limit(None)
    rng = ctx.rng
    md = MAX_DEPTH[ctx.tier]
    if case[0] == "sys":
        systematic_block(ctx, rng, case[1])
    elif case[0] == "pressure":
        run_pressure(ctx, rng, N_PRESSURE[ctx.tier][1])
    elif case[0] == "tree":
        flavour = FLAVOURS[case[1] % len(FLAVOURS)]
        for j in range(TREES_PER_BLOCK if flavour != "large" else 2):
            # the chunk constant of the chunked code paths is internal: a fifth of the programs run with tiny chunks
            L.set_chunk_limit(rng.choice([1, 2, 3, 7]) if rng.random() < 0.2 else None)
            run_tree_program(ctx, rng, md, with_incompat=(j == 0 and case[1] % 4 == 0 and flavour is None),
                             flavour=flavour)
        L.set_chunk_limit(None)
        ctx.count("memo_entries_seen_at_block_end", L.memo_entries())
    else:
        for _ in range(EDITS_PER_BLOCK):
            run_edit_program(ctx, rng, 10 if ctx.tier == "quick" else 14)


def floors(counters, tier):
    out = []
    c = counters.get
    if c("composite_reevaluated_through_same_object", 0) < 50:
        out.append("fewer than 50 composites evaluated more than once through the same object")
    if c("comparisons", 0) < 5000:
        out.append("fewer than 5000 mask comparisons")
    if c("operand_checks", 0) < 1000:
        out.append("fewer than 1000 operand checks")
    for k in ALL_NODE_KINDS:
        if c("comparisons:node_op:" + k, 0) < 10:
            out.append("operator %s evaluated in fewer than 10 comparisons" % k)
    for k in ALL_LEAF_KINDS:
        if c("trees_with_leaf_kind:" + k, 0) < 5:
            out.append("leaf kind %s present in fewer than 5 evaluated trees" % k)
    for m in MODES:
        if c("edit_updates:mode:" + m, 0) < 10:
            out.append("edit mode %s applied fewer than 10 times" % m)
    for k in ("edit_updates:with_edit_subset", "edit_updates:without_edit_subset", "copies_evaluated",
              "operand_edited_after_combining"):
        if c(k, 0) < 10:
            out.append("fewer than 10 %s" % k)
    for v in (set(VIEW_KINDS) - {"none"}) | set(L.EXT_VIEW_KINDS):
        if c("comparisons:view:" + v, 0) < 10:
            out.append("fewer than 10 comparisons under view kind %s" % v)
    # classes added in the adversarial widening round
    for k, need in (("tree_programs:with_near_equal_and_equal_but_distinct_leaves", 20),
                    ("tree_programs:evaluated_on:p", 20), ("tree_programs:with_small_chunk_limit", 20),
                    ("tree_programs:chunked_selection_kind_with_small_chunk_limit", 10),
                    ("tree_programs:table_with_100_or_more_rows", 3), ("leaf_edge_variants_in_evaluated_trees", 100),
                    ("pressure_throwaway_selections", 1000), ("comparisons:phase:pressure_long_lived", 20),
                    ("fault_steps", 100), ("reads_from_inside_the_change_message", 100),
                    ("edit_steps:new_empty_group", 10), ("edit_steps:dataset_removed_and_appended_again", 10),
                    ("edit_updates:same_state_object_again", 10), ("edit_updates:close_bounds_on_large_magnitude_attribute", 20),
                    ("leaf_on_column:layout:F", 20), ("leaf_on_column:layout:reversed", 20),
                    ("leaf_on_column:layout:strided", 20), ("leaf_on_column:layout:broadcast", 10),
                    ("leaf_on_column:layout:dask", 5), ("leaf_on_column:dtype:float32", 10), ("leaf_on_column:dtype:>f8", 10),
                    ("leaf_on_column:dtype:uint8", 10)):
        if c(k, 0) < need:
            out.append("fewer than %d %s" % (need, k))
    if c("nary_programs", 0) < 100:
        out.append("fewer than 100 programs with many operands")
    for n in (6, 7, 10, 13, 15, 18, 20, 33):
        if c("nary_programs:operands:%d" % n, 0) < 3:
            out.append("fewer than 3 n-ary programs with %d operands" % n)
    for f in set(NARY_FORMS):
        if c("nary_programs:form:" + f, 0) < 8:
            out.append("fewer than 8 n-ary programs of form %s" % f)
    if c("not_of_ordering_inequality_on_attribute_with_nan", 0) < 50:
        out.append("fewer than 50 complements of ordering inequalities on an attribute containing NaN")
    if c("edit_steps:remove_group:last", 0) + c("edit_steps:remove_group:not_last", 0) < 10:
        out.append("fewer than 10 group removals")
    joined = sum(v for k, v in counters.items() if k.startswith("trees_with_leaf_kind:join_"))
    if joined < 10:
        out.append("fewer than 10 trees over parts defined on the joined table")
    return out
