"""C05 - results always reflect the current data, regions and links (never a stale cache).

Shape: history + fresh twin.  A *world* (1-2 datasets in a DataCollection, links,
a handful of subset states - some registered as subset groups, some free-standing)
lives through a history of reads and mutations.  After every mutation each read
that was made before is repeated on the long-lived objects and on a twin world
that is rebuilt from scratch (fresh Data holding the values the harness supplied,
fresh links, states re-constructed by the class constructors from what the public
getters of the live states report) and has therefore never been evaluated.  The
two outcomes (array or exception class) must be equal.

Four families of histories: "state" (masks / statistics / histograms / component
values vs update_components, update_values_from_data, setters, move_to, ROI edits,
link changes; a hub listener repeats reads *during* the NumericalDataChangedMessage
broadcast), "indexed" (IndexedData vs indices / parent updates), "hist" and "prof"
(live SimpleHistogramViewer / SimpleProfileViewer layer states vs data updates,
subset replacement and viewer settings).
"""
import random

import numpy as np

from glue.core.hub import HubListener
from glue.core.message import Message, NumericalDataChangedMessage
from glue.core.subset import SliceSubsetState

from vf.common import describe_view, make_view
from vf import lib_C05_world as W
from vf import lib_C05_views as V
from vf.lib_C05_world import brief, clear_all_memo, okind, outcome, same_outcome

ID = "C05"
LEVEL = "exploration"
BUDGET_S = {"quick": 30.0, "thorough": 420.0}
RULE = ("a case is a block of random histories of one family (state / indexed / hist / prof); a history builds a world, "
        "makes reads, then alternates one mutation with a re-read of every earlier read on the live objects and on a "
        "freshly built twin. One evaluation = one live-vs-twin comparison of a read. Non-trivial = the read had been made "
        "on the live objects before the mutation AND the twin's answer differs from the answer before the mutation (so a "
        "stale cache would be visible). distinct = distinct (mutation kind, mutated attribute/class family, read kind, "
        "calling convention, view kind, class structure of the state, during-broadcast) fingerprints.")
ASSUMPTIONS = ["the twin is specified by the public getters of the live states (lo/hi/att/roi.xmin/...) and by the values "
               "the harness itself passed to glue; a setter that silently stores something else than it was given is "
               "outside this property",
               "equality is exact (same code, same inputs), NaN == NaN; an exception class counts as an outcome; only "
               "statistics in histories whose live arrays have another memory layout than the twin's contiguous copies "
               "are compared relative to the column's magnitude (1e-9; 1e-5 for 4-byte floats), because numpy's summation "
               "order depends on the layout",
               "in-place edits of a subset state that is shown in a viewer, without any message, are outside the viewer "
               "families (the layer cannot know); viewer histories replace the state through Subset.subset_state",
               "random_subset statistics and arrays returned by glue and then modified in place by the caller are not "
               "exercised",
               "update_components is applied to numeric components only (its docstring excludes Component subclasses); "
               "update_values_from_data keeps ndim and the components used by the states, on datasets without coords / "
               "derived components",
               "statistics over a SliceSubsetState that selects nothing are excluded (glue returns uninitialised memory "
               "there, which is not reproducible)",
               "culprit / cause in a signature are diagnosis (node-by-node comparison with the twin, public clear_cache, "
               "a look at the memo dictionaries); they never decide whether a result is stale"]
ANCHORS = ["glue.core.decorators:clear_cache",
           "glue.core.data:Data.update_components", "glue.core.data:Data.update_values_from_data",
           "glue.core.data:_clear_subset_state_caches",
           "glue.core.subset:CompositeSubsetState.to_mask", "glue.core.subset:InvertState.to_mask",
           "glue.core.subset:MultiOrState.to_mask", "glue.core.subset:InequalitySubsetState.to_mask",
           "glue.core.subset:CategorySubsetState.to_mask", "glue.core.subset:ElementSubsetState.to_mask",
           "glue.core.subset:CategoricalROISubsetState.to_mask", "glue.core.subset:FloodFillSubsetState.mask",
           "glue.core.subset:CompositeSubsetState.move_to",
           "glue.viewers.histogram.state:HistogramLayerState.update_histogram",
           "glue.viewers.profile.state:ProfileLayerState.update_profile",
           "glue.core.data_derived:IndexedData.indices"]

READ_FAMILY = {"mask": "mask", "index_list": "mask", "subset_values": "mask", "stat": "statistic", "hist": "histogram",
               "value": "component_value"}


# ---------------------------------------------------------------- reads
def exec_read(w, r):
    k = r["k"]
    d = w.datas[r["d"]]
    st = None if r.get("s") is None else w.states[r["s"]]
    view = r.get("view")
    if k == "mask":
        via = r["via"]
        if via == "subset":
            sub = (w.subsets2 if r.get("g2") else w.subsets)[(r["s"], r["d"])]
            return outcome(lambda: sub.to_mask(view))
        if via == "get_mask":
            return outcome(lambda: d.get_mask(st, view=view))
        if via == "to_mask_pos":
            return outcome(lambda: st.to_mask(d, view))
        if via == "to_mask_default":
            return outcome(lambda: st.to_mask(d))
        raise ValueError(via)
    if k == "index_list":
        sub = w.subsets[(r["s"], r["d"])]
        return outcome(lambda: sub.to_index_list())
    if k == "subset_values":
        sub = w.subsets[(r["s"], r["d"])]
        try:
            cid = W.resolve(r["cid"], w.datas)
        except KeyError:
            return ("exc", "unresolvable_component")
        return outcome(lambda: sub[cid])
    try:
        cid = W.resolve(r["cid"], w.datas)
    except (KeyError, IndexError):
        return ("exc", "unresolvable_component")
    if k == "stat":
        if isinstance(st, SliceSubsetState) and np.zeros(d.shape, dtype=bool)[tuple(st.slices)].size == 0:
            # Data.compute_statistic(..., subset_state=<SliceSubsetState selecting nothing>) unbroadcasts an empty
            # array and returns uninitialised memory for derived/coordinate components: not reproducible, so it
            # cannot be compared (tallied as both_raised:stat:excluded_empty_slice_statistic; reported to C10)
            return ("exc", "excluded_empty_slice_statistic")
        kw = {}
        if r.get("n_chunk_max"):
            kw["n_chunk_max"] = r["n_chunk_max"]   # drives the chunked path (one memo entry per chunk view)
        return outcome(lambda: d.compute_statistic(r["stat"], cid, subset_state=st, axis=r["axis"],
                                                   percentile=r.get("percentile"), finite=r.get("finite", True), **kw))
    if k == "hist":
        return outcome(lambda: d.compute_histogram([cid], range=[r["range"]], bins=[r["bins"]], subset_state=st,
                                                   log=[False]))
    if k == "value":
        if view is None:
            return outcome(lambda: d[cid])
        return outcome(lambda: d[cid, view])
    raise ValueError(k)


def describe_read(r):
    out = {k: v for k, v in r.items() if k not in ("view", "last", "nreads", "dead")}
    if "view" in r:
        out["view"] = describe_view(r["view"])
    return out


VIEWS_HASHABLE = ["none", "none", "slice_tuple_full", "slice_tuple_short", "int_slice_mix", "all_int", "empty_slice"]
VIEWS_1D = ["none", "none", "bare_slice", "slice_tuple_full", "slice_tuple_full", "empty_slice", "all_int"]
VIEWS_UNHASHABLE = ["index_arrays", "bool_mask", "dup_index"]
VIEWS_EXTRA = ["neg_int", "backward_slice", "dup_index"]


def make_view_x(rng, shape, kind):
    if kind == "neg_int":
        v = [slice(None)] * len(shape)
        a = rng.randrange(len(shape))
        v[a] = -rng.randint(1, shape[a])
        return tuple(v)
    if kind == "backward_slice":
        v = []
        for n in shape:
            v.append(rng.choice([slice(None, None, -1), slice(n - 1, None, -2), slice(None), slice(None, 0, -1)]))
        return tuple(v)
    if kind == "dup_index":
        k = rng.randint(2, 6)
        cols = [[rng.randrange(n) for _ in range(k)] for n in shape]
        for c in cols:
            c[-1] = c[0]            # a duplicate, and not sorted
        return tuple(np.array(c) for c in cols)
    return make_view(rng, shape, kind)


def gen_read(rng, H, s, di, registered):
    """A read of state s (or None) on dataset di."""
    m = H.models[di]
    kinds = ["mask", "mask", "mask", "stat", "hist"]
    if registered:
        kinds += ["mask", "index_list", "subset_values"]
    if s is None:
        kinds = ["value", "value", "stat", "hist"]
    k = rng.choice(kinds)
    r = {"k": k, "d": di, "s": s, "last": None, "nreads": 0}
    num = [["c", di, n] for n in m.names("float", "int", "pos")]
    if H.cross_refs.get(di):
        num = num + H.cross_refs[di]
    if k == "mask":
        vias = ["get_mask", "to_mask_pos", "to_mask_default"] + (["subset", "subset"] if registered else [])
        r["via"] = rng.choice(vias)
        if r["via"] == "to_mask_default":
            r["vk"] = "none"
            r["view"] = None
        else:
            r["vk"] = rng.choice((VIEWS_1D if m.ndim == 1 else VIEWS_HASHABLE) * 2 + VIEWS_UNHASHABLE + VIEWS_EXTRA)
            r["view"] = make_view_x(rng, m.shape, r["vk"])
    elif k == "index_list":
        pass
    elif k == "subset_values":
        r["cid"] = rng.choice(num)
    elif k == "stat":
        r["cid"] = rng.choice(num + ([["c", di, "der"]] if m.derived else []))
        r["stat"] = rng.choice(["minimum", "maximum", "mean", "median", "sum", "percentile"])
        r["percentile"] = rng.choice([10, 50, 90]) if r["stat"] == "percentile" else None
        r["axis"] = None if m.ndim == 1 else rng.choice([None, None] + list(range(m.ndim)) + [tuple(range(1, m.ndim))])
        r["finite"] = rng.random() < 0.8
        if isinstance(r["axis"], tuple) and rng.random() < 0.6:
            r["n_chunk_max"] = rng.choice([2, 3, 5, m.size - 1, m.size, m.size + 1])     # below / at / above the size
    elif k == "hist":
        r["cid"] = rng.choice(num)
        lo = rng.choice([-6.0, -3.0, 0.0]) * W.SCALE
        r["range"] = [lo, lo + rng.choice([4.0, 6.0, 12.0]) * W.SCALE]
        r["bins"] = rng.choice([1, 2, 3, 5])
    elif k == "value":
        cands = list(num)
        if m.derived:
            cands += [["c", di, "der"]] * 2
        if m.coords is not None:
            cands += [["w", di, a] for a in range(m.ndim)]
        r["cid"] = rng.choice(cands)
        r["vk"] = rng.choice(["none", "none", "slice_tuple_full", "slice_tuple_full" if m.ndim == 1 else "int_slice_mix",
                              "backward_slice", "neg_int", "dup_index", "bool_mask"])
        r["view"] = make_view_x(rng, m.shape, r["vk"])
    return r


# ---------------------------------------------------------------- a state history
class Probe(HubListener):
    """Re-entrant listener.  While the NumericalDataChangedMessage is being broadcast it repeats reads and compares them
    with the twin (`todo`).  On every other message the hub delivers while a mutation is in progress
    (DataRemoveComponentMessage, DataAddComponentMessage, ComponentsChangedMessage, DataUpdateMessage, ... - they come
    from *inside* update_values_from_data, when the dataset is half refreshed) it evaluates the memoized selections
    (`mid`): nothing can be asserted about those results, but the memo entries they create must not survive the call."""

    def __init__(self, hub):
        self.todo = None
        self.mid = None
        self.busy = False
        hub.subscribe(self, NumericalDataChangedMessage, handler=self.on_change)
        hub.subscribe(self, Message, handler=self.on_any)

    def on_change(self, msg):
        if self.todo is not None:
            fn, self.todo = self.todo, None
            fn()

    def on_any(self, msg):
        if self.mid is not None and not self.busy:
            self.busy = True
            try:
                self.mid(type(msg).__name__)
            finally:
                self.busy = False


class History:
    pass


def flavour_world(rng, flavour):
    H = History()
    H.flavour = flavour
    H.links_pool, H.links_active = [], []
    H.cross_refs = {}
    H.with_dc = True
    H.joins = []
    # classes of the widening round: magnitude of the float columns / bounds, dtype variants, memory layouts
    H.scale = rng.choice([1.0, 1.0, 1.0, 1e-10, 1e12]) if flavour in ("table", "cube", "linked", "joined") else 1.0
    W.SCALE = H.scale
    H.dtypes = rng.random() < 0.4
    H.layouts = rng.random() < 0.5
    dt = H.dtypes
    if flavour == "table":
        r = rng.random()
        n = rng.randint(100, 150) if r < 0.08 else (1 if r < 0.12 else rng.randint(4, 8))
        H.size_class = "rows>=100" if n >= 100 else ("single_row" if n == 1 else "small")
        H.models = [W.gen_data_model(rng, "d0", (n,), ["v", "w", "i", "c", "c2"], derived=rng.random() < 0.4, dtypes=dt)]
        if n >= 100:      # duplicates, as in real tables
            col = H.models[0].get("v")
            col[rng.randrange(n)::7] = col[0]
        H.with_dc = rng.random() < 0.8
    elif flavour == "cube":
        nd = rng.choice([2, 2, 3])
        shape = [rng.randint(2, 4) for _ in range(nd)]
        if rng.random() < 0.12:
            shape[rng.randrange(nd)] = 1          # length-1 axis
        shape = tuple(shape)
        H.size_class = "unit_axis" if 1 in shape else "small"
        coords = W.gen_coords(rng, nd) if rng.random() < 0.4 else None
        H.models = [W.gen_data_model(rng, "d0", shape, ["v", "w", "i", "f", "g", "b"], coords=coords,
                                     derived=rng.random() < 0.3, dtypes=dt)]
        H.with_dc = rng.random() < 0.8
    elif flavour == "joined":
        # d0 and d1 are joined on integer key columns: states over d1's columns select rows of d0 through the join
        n, m2 = rng.randint(4, 8), rng.randint(3, 7)
        a = W.gen_data_model(rng, "d0", (n,), ["v", "w", "i"], dtypes=dt)
        b = W.gen_data_model(rng, "d1", (m2,), ["p", "q", "k"], dtypes=dt)
        a.restrict, b.restrict = ["v", "w"], ["p", "q"]
        H.models = [a, b]
        H.joins = [(0, "i", 1, "k")]
    elif flavour == "linked":
        n = rng.randint(4, 7)
        m = n if rng.random() < 0.5 else rng.randint(3, 7)
        a = W.gen_data_model(rng, "d0", (n,), ["v", "w", "i", "c", "c2"], dtypes=dt)
        b = W.gen_data_model(rng, "d1", (m,), ["p", "q"], dtypes=dt)
        a.restrict, b.restrict = ["v", "w"], ["p", "q"]
        H.models = [a, b]
        H.links_pool = [((0, "w"), (1, "p"), None), ((0, "v"), (1, "q"), None), ((0, "w"), (1, "q"), None),
                        ((0, "v"), (1, "p"), None), ((0, "w"), (1, "p"), "x2"), ((0, "v"), (1, "q"), "x2"),
                        ((0, "w"), (1, "q"), "x2")]
        H.links_active = list(rng.choice([c for c in link_configs(H.links_pool) if len(c) >= 1]))
        H.cross_refs = {0: [["c", 1, "p"], ["c", 1, "q"]], 1: [["c", 0, "v"], ["c", 0, "w"]]}
    elif flavour == "aligned":
        # two or three datasets without coords whose pixel axes are linked one to one (same or permuted axis order), so
        # that Data.pixel_aligned_data is populated and slice-like states carry over to the other datasets
        nd = rng.choice([2, 3, 3])
        shape = tuple(rng.sample([2, 3, 4, 5], nd))          # distinct lengths: a wrong axis order is visible
        nds = rng.choice([2, 2, 3])
        H.models = []
        H.perms = []
        for k in range(nds):
            if k == 0:
                perm = list(range(nd))
            elif nd == 3 and rng.random() < 0.4:
                perm = rng.choice([[1, 2, 0], [2, 0, 1]])          # cyclic permutation
            else:
                perm = rng.choice([list(range(nd)), rng.sample(range(nd), nd)])
            H.perms.append(perm)
            m = W.gen_data_model(rng, "d%d" % k, tuple(shape[perm[j]] for j in range(nd)), ["v", "w", "i"])
            m.restrict = list(range(nd))                          # states refer to the pixel axes of their home dataset
            H.models.append(m)
        # axis j of dataset k is axis perm[j] of dataset 0
        H.links_pool = [((0, H.perms[k][j]), (k, j), None) for k in range(1, nds) for j in range(nd)]
        H.links_active = list(range(len(H.links_pool)))
        H.cross_refs = {k: [["p", o, a] for o in range(nds) if o != k for a in range(nd)] for k in range(nds)}
    else:
        raise ValueError(flavour)
    return H


def eval_targets(H, k):
    """Datasets on which state k is evaluated."""
    if H.flavour in ("linked", "aligned", "joined"):
        return list(range(len(H.models)))
    return [H.home[k]]


def can_add_link(H, k):
    if H.flavour == "aligned":
        return k not in H.links_active
    used = set()
    for j in H.links_active:
        used |= W.link_ends(H.links_pool[j])
    return k not in H.links_active and not (W.link_ends(H.links_pool[k]) & used)


def link_configs(pool):
    """All sets of at most two pool links in which every component takes part in at most one link (so that what a
    linked id derives from is never ambiguous)."""
    out = [[]] + [[k] for k in range(len(pool))]
    for a in range(len(pool)):
        for b in range(a + 1, len(pool)):
            if not (W.link_ends(pool[a]) & W.link_ends(pool[b])):
                out.append([a, b])
    return out


def derivable_ids(pool, config):
    ends = set()
    for k in config:
        ends |= W.link_ends(pool[k])
    return ends


def state_has(desc, kind):
    if desc[0] == kind:
        return True
    if desc[0] in W.BINOPS:
        return state_has(desc[1], kind) or state_has(desc[2], kind)
    if desc[0] == "not":
        return state_has(desc[1], kind)
    if desc[0] == "multior":
        return any(state_has(c, kind) for c in desc[1])
    if desc[0] == "multior_shared":
        return state_has(desc[1], kind)
    return False


def twin_of(H):
    rm = W.RefMap(H.live.datas)
    H.snap = [W.snapshot(s, rm) for s in H.live.states]
    return W.build_world(H.models, H.snap, H.links_pool, H.links_active, H.with_dc, registered=H.registered,
                         joins=H.joins)


def run_state_history(ctx, flavour, hid):
    try:
        _run_state_history(ctx, flavour, hid)
    finally:
        W.SCALE = 1.0


def _run_state_history(ctx, flavour, hid):
    rng = ctx.rng
    H = flavour_world(rng, flavour)
    H.ctx = ctx
    ns = rng.randint(2, 4)
    H.descs, H.home = [], []
    for k in range(ns):
        di = rng.randrange(len(H.models))
        depth = rng.choice([0, 0, 1, 1, 2, 2, 3])
        kinds = ("ineq", "range", "multirange", "roi") if flavour in ("linked", "joined") else None
        if flavour == "aligned":
            depth = rng.choice([0, 0, 0, 1, 1, 2])
            kinds = ("slice", "slice", "pixslice", "pixslice", "ineq", "range", "roi", "mask")
        H.descs.append(W.gen_state(rng, H.models, di, depth, kinds))
        H.home.append(di)
    H.registered = [k for k in range(ns) if rng.random() < 0.5]
    H.shared_group = None
    if H.registered and rng.random() < 0.25:
        H.shared_group = rng.choice(H.registered)
        H.registered = H.registered + [H.shared_group]      # a second group shares the state object
        ctx.count("class:state_object_shared_by_two_groups")
    H.live = W.build_world(H.models, H.descs, H.links_pool, H.links_active, H.with_dc, H.registered,
                           layout_rng=rng if H.layouts else None, joins=H.joins)
    H.probe = Probe(H.live.dc.hub) if H.with_dc else None
    H.mutlog = []
    H.touch = {}
    H.poisoned = set()
    H.undo, H.data_undo, H.last_mut, H.extra_comps = [], [], None, []
    ctx.count("histories:state:" + flavour)
    ctx.count("histories")
    ctx.count("class:scale=%g" % H.scale)
    ctx.count("class:dtype_variants" if H.dtypes else "class:dtype_default")
    ctx.count("class:layout_variants" if H.layouts else "class:layout_contiguous")
    ctx.count("class:size:" + getattr(H, "size_class", "small"))
    if max(len(list(W.walk(s))) for s in H.live.states) >= 7:
        ctx.count("class:state_with_7_or_more_nodes")

    # ---- initial reads (warm the caches)
    H.reads = []
    for k in range(ns):
        for di in eval_targets(H, k):
            for _ in range(rng.randint(1, 3)):
                H.reads.append(gen_read(rng, H, k, di, k in H.registered))
    for di in range(len(H.models)):
        for _ in range(2):
            H.reads.append(gen_read(rng, H, None, di, False))
    if H.shared_group is not None:
        for di in eval_targets(H, H.shared_group):
            H.reads.append({"k": "mask", "d": di, "s": H.shared_group, "via": "subset", "g2": True, "vk": "none",
                            "view": None, "last": None, "nreads": 0})
    try:
        twin = twin_of(H)
    except Exception as e:
        ctx.count("twin_build_failed:" + type(e).__name__)
        return
    verify(H, H.reads, twin, {"op": "none", "kind": "none"}, False)

    nsteps = rng.randint(4, 9)
    for step in range(nsteps):
        mut = choose_mutation(rng, H)
        if mut is None:
            ctx.count("no_applicable_mutation")
            continue
        ok = perform(H, mut)
        if ok and "then" in mut:       # second half of a pair of near-equal assignments
            nxt = dict(mut["then"], s=mut["s"], kind=mut["kind"])
            ok = perform(H, nxt)
        if not ok:
            break
        # a few new reads join the warm set
        if rng.random() < 0.5 and len(H.reads) < 16:
            k = rng.randrange(ns)
            if k not in H.poisoned:
                di = rng.choice(eval_targets(H, k))
                r = gen_read(rng, H, k, di, k in H.registered)
                H.reads.append(r)
                r["last"] = exec_read(H.live, r)
                r["nreads"] = 1
                ctx.count("reads_first_time")
    clear_all_memo()


def choose_mutation(rng, H):
    fl = H.flavour
    r = rng.random()
    alive = [k for k in range(len(H.live.states)) if k not in H.poisoned]
    if fl == "aligned" and r < 0.55:
        act, allk = list(H.links_active), list(range(len(H.links_pool)))
        opts = []
        if act:
            opts += ["links_clear_set", "links_remove_list", "links_clear_delayed", "link_remove", "link_remove"]
        if len(act) < len(allk):
            opts += ["link_add", "links_add_list", "links_set_all"]
            if not act:
                opts += ["links_add_list", "links_set_all"]
        op = rng.choice(opts)
        mut = {"op": op, "kind": "link_change", "no_links_left": op.startswith("links_clear") or op == "links_remove_list"
               or (op == "link_remove" and len(act) == 1)}
        if op == "link_remove":
            mut["k"] = rng.choice(act)
        if op == "link_add":
            mut["k"] = rng.choice([k for k in allk if k not in act])
        return mut
    if fl == "linked" and r < 0.17:
        # atomic replacement of the link set: the link manager sees only the final set, so a dataset's table of
        # externally derivable components is replaced in one go - possibly with the very same ids derivable through
        # different links (other source attribute, other function)
        cur = sorted(H.links_active)
        cands = [c for c in link_configs(H.links_pool) if sorted(c) != cur]
        same = [c for c in cands if c and derivable_ids(H.links_pool, c) == derivable_ids(H.links_pool, cur)]
        target = rng.choice(same) if (same and rng.random() < 0.7) else rng.choice(cands)
        return {"op": rng.choice(["link_set", "link_delayed", "link_delayed_all"]), "kind": "link_change",
                "target": list(target), "same_ids": bool(cur) and derivable_ids(H.links_pool, target) ==
                derivable_ids(H.links_pool, cur)}
    if fl == "linked" and r < 0.3:
        opts = []
        if H.links_active:
            opts += ["link_remove", "link_swap"]
        if any(can_add_link(H, k) for k in range(len(H.links_pool))):
            opts += ["link_add"]
        op = rng.choice(opts)
        if op == "link_remove":
            return {"op": op, "kind": "link_change", "k": rng.choice(H.links_active)}
        if op == "link_add":
            return {"op": op, "kind": "link_change",
                    "k": rng.choice([k for k in range(len(H.links_pool)) if can_add_link(H, k)])}
        k = rng.choice(H.links_active)
        cands = [j for j in range(len(H.links_pool)) if j != k and j not in H.links_active and
                 not (W.link_ends(H.links_pool[j]) & set(x for i in H.links_active if i != k
                                                         for x in W.link_ends(H.links_pool[i])))]
        if not cands:
            return {"op": "link_remove", "kind": "link_change", "k": k}
        return {"op": op, "kind": "link_change", "k": k, "j": rng.choice(cands)}
    if r < ({"linked": 0.6, "aligned": 0.75}.get(fl, 0.45)) or not alive:
        di = rng.randrange(len(H.models))
        m = H.models[di]
        uv_ok = m.coords is None and not m.derived
        if uv_ok and rng.random() < 0.4:
            flood = any(state_has(d, "flood") for d in (H.snap if hasattr(H, "snap") else H.descs))
            new_shape = (not flood) and rng.random() < 0.5
            if new_shape:
                shape = tuple(max(2, s + rng.choice([-1, 1, 2])) for s in m.shape)
            else:
                shape = m.shape
            return {"op": "update_values_from_data", "kind": "update_values_from_data", "d": di, "shape": list(shape),
                    "new_shape": new_shape, "extra": rng.random() < 0.3}
        if not uv_ok:
            H.ctx.count("excluded:update_values_from_data_on_data_with_coords_or_derived")
        names = [n for n in m.names("float", "int", "pos") if n in W.COMP_KINDS]
        if m.restrict is not None and any(isinstance(n, str) for n in m.restrict):
            names = [n for n in m.restrict if isinstance(n, str)]
            if fl == "joined":
                names = names + ["i" if di == 0 else "k"]       # the key columns
        chosen = rng.sample(names, rng.randint(1, min(2, len(names))))
        base = {"op": "update_components", "kind": "update_components", "d": di, "names": chosen,
                "key": rng.choice(["cid", "component"]), "dtype": H.dtypes and rng.random() < 0.5,
                "layout": H.layouts and rng.random() < 0.7}
        r2 = rng.random()
        wr0 = [n for (dd, n) in getattr(H, "writable", ()) if dd == di and n in names]
        if wr0 and rng.random() < 0.3:
            return dict(base, names=rng.sample(wr0, rng.randint(1, min(2, len(wr0)))), variant="in_place_same_object",
                        dtype=False, layout=False)
        if r2 < 0.10:       # replace the column under its existing ComponentID
            return dict(base, op="add_component_existing_cid", kind="add_component_existing_cid", names=chosen[:1])
        if r2 < 0.15 and m.derived:
            cands = [n for n in m.names("float", "int") if n in ("v", "w", "i")]
            return {"op": "add_component_link_existing_cid", "kind": "add_component_link_existing_cid", "d": di,
                    "spec": [rng.choice(cands), rng.choice([2, 3, -1, 0.5]), rng.choice(cands)]}
        if r2 < 0.22:       # fault: a later entry of the mapping has the wrong shape
            bad = rng.choice([n for n in names if n not in chosen] or chosen)
            return dict(base, kind="update_components_raised", variant=rng.choice(["bad_last", "bad_last", "bad_first"]),
                        bad=bad)
        if r2 < 0.25:
            return dict(base, names=[], variant="empty_mapping")
        if r2 < 0.31 and H.last_mut is not None and H.last_mut["op"] == "update_components" and H.last_mut["d"] == di:
            return dict(base, names=list(H.last_mut["names"]), variant="same_values_again")
        if r2 < 0.37 and any(u[0] == di for u in H.data_undo):
            return dict(base, names=[], variant="back_to_earlier_values")
        if r2 < 0.45:
            tgt = nudge_target(rng, H, di)
            if tgt is not None:
                return dict(base, names=[tgt[0]], variant="near_equal_values", nudge=tgt)
        if r2 < 0.52 and H.probe is not None and len(names) > 1:
            return dict(base, variant="reentrant_update", inner=[rng.choice([n for n in names if n not in chosen] or names)])
        if r2 < 0.60 and fl in ("table", "cube"):
            return {"op": "component_bookkeeping", "kind": "component_bookkeeping", "d": di,
                    "how": rng.choice(["reorder", "add", "add", "remove"])}
        removable = [k for k in H.registered if k != getattr(H, "shared_group", None)]
        if r2 < 0.64 and H.with_dc and removable and fl in ("table", "cube"):
            return {"op": "remove_subset_group", "kind": "remove_subset_group", "s": None, "k": rng.choice(removable)}
        if r2 < 0.68 and H.with_dc:
            return {"op": "dc_remove_readd", "kind": "dc_remove_readd", "d": di}
        if r2 < 0.82:
            # the array glue holds is fetched, edited in place and handed back as the SAME object.  Columns as first
            # added are read-only (Component.__init__); one that a previous update_components replaced is writeable
            wr = [n for (dd, n) in getattr(H, "writable", ()) if dd == di and n in names]
            if wr or rng.random() < 0.15:
                return dict(base, names=rng.sample(wr, rng.randint(1, min(2, len(wr)))) if wr else chosen,
                            variant="in_place_same_object", dtype=False, layout=False)
        if r2 < 0.86:
            return dict(base, variant="equal_copy_of_unchanged_values", dtype=False)
        return base
    r3 = rng.random()
    if r3 < 0.10 and H.undo:
        spec = dict(H.undo.pop(rng.randrange(len(H.undo))))
        if spec["s"] in alive:
            try:
                if type(W.node_at(H.live.states[spec["s"]], spec["path"])).__name__ == spec["node"]:
                    return spec
            except (IndexError, AttributeError):
                pass
    if r3 < 0.17 and H.last_mut is not None and H.last_mut["op"] == "setter" and H.last_mut.get("s") in alive \
            and H.last_mut.get("vkind") in ("num", "ref", "op", "pairs", "codes", "list"):
        return dict({k: v for k, v in H.last_mut.items() if k != "then"}, twice=True)
    k = rng.choice(alive)
    prefer = rng.choice([None, None, None, "move_to", "roi_edit", "roi_edit"])
    spec = W.gen_state_mutation(rng, H.live.states[k], H.models, H.home[k], prefer)
    if spec is None:
        return None
    spec["s"] = k
    spec["kind"] = spec["op"]
    return spec


def used_names(H, di):
    """Component labels of dataset di that a state, a read, a link, a join or the derived component refers to."""
    used = set()

    def visit(x):
        if isinstance(x, (list, tuple)):
            if len(x) == 3 and x[0] == "c" and x[1] == di and isinstance(x[2], str):
                used.add(x[2])
            for y in x:
                visit(y)
        elif isinstance(x, dict):
            for y in x.values():
                visit(y)

    visit(getattr(H, "snap", H.descs))
    for r in H.reads:
        visit(r.get("cid"))
    for spec in H.links_pool:
        for (dd, key) in spec[:2]:
            if dd == di and isinstance(key, str):
                used.add(key)
    for (da, na, db, nb) in H.joins:
        used.update([na] if da == di else [], [nb] if db == di else [])
    m = H.models[di]
    if m.derived:
        used.update(x for x in W.derived_spec(m) if isinstance(x, str))
    if m.restrict:
        used.update(x for x in m.restrict if isinstance(x, str))
    return used


def nudge_target(rng, H, di):
    """(column, threshold) of an inequality / range bound over a float column of dataset di, at any depth of any state."""
    found = []

    def visit(desc):
        k = desc[0]
        if k == "ineq":
            for a, b in ((desc[1], desc[3]), (desc[3], desc[1])):
                if a[0] == "c" and a[1] == di and b[0] == "num":
                    found.append((a[2], b[1]))
        elif k == "range" and desc[3][0] == "c" and desc[3][1] == di:
            found.append((desc[3][2], desc[rng.choice([1, 2])]))
        elif k in W.BINOPS:
            visit(desc[1])
            visit(desc[2])
        elif k in ("not", "multior_shared"):
            visit(desc[1])
        elif k == "multior":
            for c in desc[1]:
                visit(c)

    for sd in getattr(H, "snap", H.descs):
        visit(sd)
    m = H.models[di]
    found = [(n, t) for n, t in found if n in W.COMP_KINDS and m.kind(n) in ("float", "pos") and t != 0
             and np.isfinite(float(t))]
    return rng.choice(found) if found else None


def perform(H, mut):
    """Apply the mutation to the live world (and to the model), then verify all reads.  False = history abandoned."""
    ctx, rng, live = H.ctx, H.ctx.rng, H.live
    op = mut["op"]
    H.mutlog.append({k: v for k, v in mut.items() if k != "arrays"})
    ctx.event("mutation", H.mutlog[-1])
    ctx.count("mutations:" + mut["kind"])
    if op in ("update_components", "update_values_from_data", "add_component_existing_cid",
              "add_component_link_existing_cid"):
        di = mut["d"]
        m = H.models[di]
        d = live.datas[di]
        variant = mut.get("variant")
        inner_call = None
        expect_raise = False
        if variant:
            ctx.count("mutations:variant:" + variant)
        if op in ("update_components", "add_component_existing_cid"):
            new = {}
            same_obj = {}
            if variant == "same_values_again":
                new = {n: np.array(m.get(n)) for n in mut["names"]}
            elif variant == "back_to_earlier_values":
                idx = [i for i, u in enumerate(H.data_undo) if u[0] == di]
                new = {n: a for n, a in H.data_undo.pop(rng.choice(idx))[1].items()
                       if a.shape == m.shape and n in [c[0] for c in m.comps]}
                mut["names"] = sorted(new)
            elif variant == "equal_copy_of_unchanged_values":
                new = {n: np.array(m.get(n)) for n in mut["names"]}
            elif variant == "in_place_same_object":
                for n in mut["names"]:
                    cid = d.id[n]
                    values = d[cid] if rng.random() < 0.5 else d.get_component(cid).data
                    if not isinstance(values, np.ndarray) or not values.flags.writeable:
                        ctx.count("in_place_edit_impossible:read_only_array")
                        new[n] = W.gen_values(rng, W.COMP_KINDS[n], m.shape)
                        continue
                    how = rng.choice(["assign_all", "assign_all", "one_element", "one_element", "times_two"])
                    fresh = W.gen_values(rng, W.COMP_KINDS[n], m.shape)
                    if how == "assign_all":
                        values[...] = fresh.astype(values.dtype)
                    elif how == "one_element":
                        k = rng.randrange(values.size)
                        values[np.unravel_index(k, values.shape)] = fresh.flat[k].astype(values.dtype)
                    else:
                        values *= 2
                    ctx.count("in_place_edit:" + how)
                    new[n] = np.array(values)        # what the column holds now (the harness's own edit)
                    same_obj[n] = values
            elif variant == "near_equal_values":
                # two successive updates of one element to either side of a bound, allclose to each other
                name, t = mut["nudge"]
                arr = np.array(m.get(name))
                j = rng.randrange(arr.size)
                side = H.last_nudge_side = -getattr(H, "last_nudge_side", 1)
                arr.flat[j] = np.asarray(float(t) * (1 + side * 1e-9)).astype(arr.dtype)
                new = {name: arr}
                mut["then_data"] = (name, t, j)
            else:
                for n in mut["names"]:
                    a = W.gen_values(rng, W.COMP_KINDS[n], m.shape)
                    if mut.get("dtype"):
                        a = W.cast_variant(rng, m.kind(n), a)
                        ctx.count("class:update_with_other_dtype")
                    new[n] = a
            if new:
                H.data_undo.append((di, {n: np.array(m.get(n)) for n in new}))
                del H.data_undo[:-6]
            handed = {}
            for n, a in new.items():
                if n in same_obj:
                    handed[n] = same_obj[n]
                elif mut.get("layout"):
                    handed[n], how = W.layout_variant(rng, a)
                    ctx.count("class:update_layout:" + how)
                else:
                    handed[n] = np.array(a)
            if op == "add_component_existing_cid":
                name = mut["names"][0]
                m.set(name, new[name])
                call = lambda: d.add_component(handed[name], d.id[name])
            else:
                mapping = {}
                if variant == "bad_first":
                    mapping[d.id[mut["bad"]]] = np.zeros(tuple(x + 1 for x in m.shape))
                for n, a in handed.items():
                    cid = d.id[n]
                    mapping[cid if mut["key"] == "cid" else d.get_component(cid)] = a
                if variant == "bad_last":
                    mapping[d.id[mut["bad"]]] = np.zeros(tuple(x + 1 for x in m.shape))
                expect_raise = variant in ("bad_first", "bad_last")
                if not expect_raise:
                    for n, a in new.items():
                        m.set(n, a)
                if variant == "reentrant_update":
                    # a listener updates another column of the same dataset while the first change is being broadcast
                    inner = {}
                    for n in mut["inner"]:
                        a = W.gen_values(rng, W.COMP_KINDS[n], m.shape)
                        m.set(n, a)
                        inner[d.id[n]] = np.array(a)
                    inner_call = lambda: d.update_components(inner)
                call = lambda: d.update_components(mapping)
        elif op == "add_component_link_existing_cid":
            a, k, b = mut["spec"]
            m.derived = (a, k, b)
            call = lambda: d.add_component_link(d.id[a] * k + d.id[b], d.id["der"])
        else:
            names = [c[0] for c in m.comps]
            droppable = [n for n in names if n not in used_names(H, di) and m.kind(n) != "cat"]
            if droppable and not mut.get("keep_all") and rng.random() < 0.6:
                # the refreshed dataset lacks a column: DataRemoveComponentMessage / ComponentsChangedMessage are
                # delivered from inside the refresh, while the remaining columns still hold the old values
                gone = rng.choice(droppable)
                names = [n for n in names if n != gone]
                mut["dropped"] = gone
                ctx.count("class:update_values_from_data_drops_a_component")
            src = W.gen_data_model(rng, "d%d_r%d" % (di, len(H.mutlog)), tuple(mut["shape"]),
                                   [n for n in names if n in W.COMP_KINDS], dtypes=H.dtypes)
            for n in names:       # extra columns (added by component_bookkeeping) that something refers to stay
                if n not in W.COMP_KINDS and n in used_names(H, di):
                    src.comps.append([n, "float", W.gen_values(rng, "float", src.shape)])
            src.restrict = m.restrict
            if mut["extra"] and "q" not in names:
                src.comps.append(["q", "float", W.gen_values(rng, "float", src.shape)])
            H.models[di] = src
            H.extra_comps = [n for n in H.extra_comps if n in [c[0] for c in src.comps]]
            H.data_undo = [u for u in H.data_undo if u[0] != di]
            source = W.build_data(src, rng if H.layouts else None)
            call = lambda: d.update_values_from_data(source)
            if mut["new_shape"]:
                for r in H.reads:
                    if r["d"] == di and r.get("view") is not None:
                        r["dead"] = True
                ctx.count("reads_dropped_view_of_old_shape")
        if expect_raise:
            # fault sequence: the call must fail and must change nothing - no column replaced, no message sent - so
            # every read has to agree with a twin of the state before the call (the model is left as it was)
            seen = []
            if H.probe is not None:
                H.probe.mid = lambda msgname: seen.append(msgname)
            failed = True
            try:
                call()
                failed = False
                ctx.count("expected_failure_did_not_fail:update_components")
            except Exception as e:
                ctx.count("mutation_failed_as_intended:" + type(e).__name__)
            if H.probe is not None:
                H.probe.mid = None
            if not failed:          # the wrong-shaped entry was overwritten by a good one for the same column
                for n, a in new.items():
                    m.set(n, a)
            elif seen:
                ctx.violation({"kind": "message_from_failed_mutation", "mutation": mut["kind"], "message": seen[0]},
                              {"messages": seen, "history": describe_history(H)})
            try:
                twin = twin_of(H)
            except Exception as e:
                ctx.count("twin_build_failed:" + type(e).__name__)
                return False
            verify(H, H.reads, twin, mut, False)
            H.last_mut = None
            return True
        try:
            twin = twin_of(H)
        except Exception as e:
            ctx.count("twin_build_failed:" + type(e).__name__)
            return False
        if H.probe is not None and (inner_call is not None or rng.random() < 0.6):
            some = [r for r in H.reads if rng.random() < 0.6]

            def todo():
                if inner_call is not None:
                    inner_call()
                verify(H, some, twin, mut, True)
            H.probe.todo = todo
        if H.probe is not None and rng.random() < 0.7:
            inside = [r for r in H.reads if r["k"] in ("mask", "index_list") and not r.get("dead")]

            def mid(msgname):
                if msgname == "NumericalDataChangedMessage":
                    return
                ctx.count("listener_calls_inside_mutation:%s:%s" % (mut["kind"], msgname))
                for r in inside:
                    o = exec_read(live, r)
                    ctx.count("masks_read_inside_mutation:" + mut["kind"])
                    if o[0] == "exc":
                        ctx.count("raised_inside_mutation:" + o[1])
            H.probe.mid = mid
        try:
            call()
        except Exception as e:
            if H.probe is not None:
                H.probe.todo = H.probe.mid = None
            ctx.violation({"kind": "mutation_raised", "mutation": mut["kind"], "exception": type(e).__name__},
                          {"history": describe_history(H), "error": repr(e)[:300]})
            return False
        if H.probe is not None:
            H.probe.todo = H.probe.mid = None
        verify(H, H.reads, twin, mut, False)
        if not hasattr(H, "writable"):
            H.writable = set()
        if op == "update_components":
            for n, a in handed.items():
                (H.writable.add if a.flags.writeable else H.writable.discard)((di, n))
        elif op == "update_values_from_data":
            H.writable = set(x for x in H.writable if x[0] != di)
        H.last_mut = mut if op == "update_components" and not variant else None
        if variant == "near_equal_values" and not mut.get("second_half"):
            return perform(H, dict({k: v for k, v in mut.items() if k != "then_data"}, second_half=True))
        return True
    if op == "component_bookkeeping":
        di = mut["d"]
        m, d = H.models[di], live.datas[di]
        how = mut["how"]
        removable = [n for n in H.extra_comps if n not in used_names(H, di)]
        if how == "remove" and not removable:
            how = "add"
        ctx.count("mutations:component_bookkeeping:" + how)
        try:
            if how == "reorder":
                order = list(d.components)
                rng.shuffle(order)
                d.reorder_components(order)
            elif how == "add":
                name = "x%d" % len(H.mutlog)
                arr = W.gen_values(rng, "float", m.shape)
                # not always at the end: a new column may come before existing ones in the model the twin is built from
                m.comps.insert(rng.randrange(len(m.comps) + 1), [name, "float", arr])
                d.add_component(np.array(arr), name)
                H.extra_comps.append(name)
            else:
                name = rng.choice(removable)     # from the middle, not the end
                H.extra_comps.remove(name)
                m.comps = [c for c in m.comps if c[0] != name]
                d.remove_component(d.id[name])
        except Exception as e:
            ctx.violation({"kind": "mutation_raised", "mutation": mut["kind"], "how": how, "exception": type(e).__name__},
                          {"history": describe_history(H), "error": repr(e)[:300]})
            return False
        twin = twin_of(H)
        verify(H, H.reads, twin, mut, False)
        return True
    if op == "remove_subset_group":
        k = mut["k"]
        live.dc.remove_subset_group(live.groups.pop(k))
        H.registered = [x for x in H.registered if x != k]
        for key in [key for key in live.subsets if key[0] == k]:
            del live.subsets[key]
        for r in H.reads:       # the state lives on as a free-standing one
            if r.get("s") == k and (r.get("via") == "subset" or r["k"] in ("index_list", "subset_values")):
                r["dead"] = True
        twin = twin_of(H)
        verify(H, H.reads, twin, mut, False)
        return True
    if op == "dc_remove_readd":
        d = live.datas[mut["d"]]
        try:
            live.dc.remove(d)
            live.dc.append(d)
        except Exception as e:
            ctx.violation({"kind": "mutation_raised", "mutation": mut["kind"], "exception": type(e).__name__},
                          {"history": describe_history(H), "error": repr(e)[:300]})
            return False
        # what the collection reports now defines the twin: which links survived, which subset belongs to which group
        ext = list(live.dc.external_links)
        for j in list(live.links):
            if not any(live.links[j] is x for x in ext):
                del live.links[j]
        H.links_active = sorted(live.links)
        live.subsets, live.subsets2 = {}, {}
        for groups, subsets in ((live.groups, live.subsets), (live.groups2, live.subsets2)):
            for k, grp in groups.items():
                for sub in grp.subsets:
                    for i, dd in enumerate(live.datas):
                        if dd is sub.data:
                            subsets[(k, i)] = sub
        for r in H.reads:
            if (r.get("via") == "subset" or r["k"] in ("index_list", "subset_values")) and \
                    (r["s"], r["d"]) not in (live.subsets2 if r.get("g2") else live.subsets):
                r["dead"] = True
        twin = twin_of(H)
        verify(H, H.reads, twin, mut, False)
        return True
    if op in ("links_clear_set", "links_remove_list", "links_clear_delayed", "links_add_list", "links_set_all"):
        try:
            if op == "links_clear_set":
                live.dc.set_links([])
                live.links = {}
            elif op == "links_remove_list":
                live.dc.remove_link(list(live.links.values()))
                live.links = {}
            elif op == "links_clear_delayed":
                with live.dc.delay_link_manager_update():
                    for j in list(live.links):
                        live.dc.remove_link(live.links.pop(j))
            elif op == "links_add_list":
                new = {j: W.make_link(H.links_pool[j], live.datas) for j in range(len(H.links_pool))
                       if j not in live.links}
                live.dc.add_link(list(new.values()))
                live.links.update(new)
            else:
                live.links = {j: W.make_link(H.links_pool[j], live.datas) for j in range(len(H.links_pool))}
                live.dc.set_links(list(live.links.values()))
            H.links_active = sorted(live.links)
        except Exception as e:
            ctx.violation({"kind": "mutation_raised", "mutation": mut["kind"], "op": op, "exception": type(e).__name__},
                          {"history": describe_history(H), "error": repr(e)[:300]})
            return False
        twin = twin_of(H)
        verify(H, H.reads, twin, mut, False)
        return True
    if op in ("link_set", "link_delayed", "link_delayed_all"):
        target = list(mut["target"])
        try:
            if op == "link_set":
                new = {j: W.make_link(H.links_pool[j], live.datas) for j in target}
                live.dc.set_links(list(new.values()))
                live.links = new
            else:
                # link_delayed keeps the link objects that stay; link_delayed_all re-creates every link
                stay = [j for j in H.links_active if j in target] if op == "link_delayed" else []
                with live.dc.delay_link_manager_update():
                    for j in list(live.links):
                        if j not in stay:
                            live.dc.remove_link(live.links.pop(j))
                    for j in target:
                        if j not in stay:
                            live.links[j] = W.make_link(H.links_pool[j], live.datas)
                            live.dc.add_link(live.links[j])
            H.links_active = target
        except Exception as e:
            ctx.violation({"kind": "mutation_raised", "mutation": mut["kind"], "op": op, "exception": type(e).__name__},
                          {"history": describe_history(H), "error": repr(e)[:300]})
            return False
        ctx.count("mutations:link_change_atomic" + (":same_derivable_ids" if mut["same_ids"] else ""))
        twin = twin_of(H)
        verify(H, H.reads, twin, mut, False)
        return True
    if op in ("link_add", "link_remove", "link_swap"):
        try:
            if op in ("link_remove", "link_swap"):
                live.dc.remove_link(live.links.pop(mut["k"]))
                H.links_active = [x for x in H.links_active if x != mut["k"]]
            if op in ("link_add", "link_swap"):
                j = mut["k"] if op == "link_add" else mut["j"]
                live.links[j] = W.make_link(H.links_pool[j], live.datas)
                live.dc.add_link(live.links[j])
                H.links_active = H.links_active + [j]
        except Exception as e:
            ctx.violation({"kind": "mutation_raised", "mutation": mut["kind"], "exception": type(e).__name__},
                          {"history": describe_history(H), "error": repr(e)[:300]})
            return False
        twin = twin_of(H)
        verify(H, H.reads, twin, mut, False)
        return True
    # ---- mutation of a subset state through its public API
    k = mut["s"]
    for flag in ("nudge", "revert", "twice"):
        if mut.get(flag):
            ctx.count("mutations:setter:" + flag)
    try:
        undo = W.capture_undo(live.states[k], mut, W.RefMap(live.datas))
    except Exception:
        undo = None
    try:
        W.apply_state_mutation(live.states[k], mut, live.datas)
    except Exception as e:
        # e.g. CompositeSubsetState.move_to over children whose centers have different arity (state2 has already moved
        # when state1 refuses).  Fault sequence: whatever the failed call left behind is the state's current meaning
        # (read off its getters); later reads must agree with a twin built from that.
        ctx.count("state_mutation_raised:%s:%s" % (mut["op"], type(e).__name__))
        record_touch(H, mut)
        try:
            twin = twin_of(H)
        except Exception:
            poison(H, k)
            return True
        verify(H, H.reads, twin, mut, False)
        return True
    if undo is not None and not mut.get("revert"):
        H.undo.append(undo)
        del H.undo[:-8]
    H.last_mut = mut
    record_touch(H, mut)
    try:
        twin = twin_of(H)
    except Exception as e:
        ctx.count("twin_build_failed:" + type(e).__name__)
        return False
    verify(H, H.reads, twin, mut, False)
    return True


def poison(H, k):
    H.poisoned.add(k)
    for r in H.reads:
        if r.get("s") == k:
            r["dead"] = True


def mutated_family(H, mut, r):
    op = mut["op"]
    if "d" in mut and op not in STATE_OPS:
        return "same_data" if mut["d"] == r["d"] else "other_data"
    if op == "remove_subset_group":
        return "group"
    if op.startswith("link"):
        return "link"
    if op == "none":
        return "none"
    return W.family(mut["node"])


def view_class(r):
    vk = r.get("vk")
    if vk is None:
        return "n/a"
    return "unhashable" if vk in VIEWS_UNHASHABLE else vk


def agree(H, r, a, b):
    """Equality of two outcomes of one read.  Exact, except for statistics in histories where the live arrays have
    another memory layout than the twin's contiguous copies: numpy's summation order then differs, so the comparison is
    relative to the magnitude of the column (1e-9 for 8-byte, 1e-5 for narrower floats)."""
    if same_outcome(a, b):
        return True
    if r["k"] != "stat" or not getattr(H, "layouts", False) or a is None or b is None or a[0] != "ok" or b[0] != "ok":
        return False
    x, y = np.asarray(a[1], dtype=float), np.asarray(b[1], dtype=float)
    if x.shape != y.shape:
        return False
    try:
        col = np.asarray(H.models[r["cid"][1]].get(r["cid"][2]))
        rtol = 1e-9 if col.dtype.itemsize >= 8 else 1e-5
        fin = np.abs(col[np.isfinite(col)].astype(float)) if col.dtype.kind in "fiu" else np.array([1.0])
        atol = rtol * (fin.max() if fin.size else 1.0) * max(1, col.size)
    except (KeyError, IndexError, TypeError):
        rtol, atol = 1e-9, 0.0
    H.ctx.count("statistic_compared_with_relative_tolerance")
    return bool(np.allclose(x, y, rtol=rtol, atol=atol, equal_nan=True))


def fault_reads(H):
    """Fault sequence: calls that must fail on the live objects right before the valid reads; whatever a failed call
    leaves behind (flags, half-filled caches) must not matter."""
    ctx, rng = H.ctx, H.ctx.rng
    alive = [k for k in range(len(H.live.states)) if k not in H.poisoned]
    if not alive:
        return
    k = rng.choice(alive)
    st = H.live.states[k]
    d = H.live.datas[rng.choice(eval_targets(H, k))]
    some = d.main_components[0]
    for name, fn in (("too_many_indices", lambda: d.get_mask(st, view=(0,) * (d.ndim + 2))),
                     ("unknown_statistic", lambda: d.compute_statistic("bogus", some, subset_state=st)),
                     ("index_out_of_bounds", lambda: st.to_mask(d, (slice(None),) * (d.ndim - 1) + (d.shape[-1] + 5,))),
                     ("histogram_without_range", lambda: d.compute_histogram([some], range=None, bins=[2], subset_state=st)),
                     ("foreign_component", lambda: d.get_data(W.ComponentID("nowhere")))):
        if rng.random() < 0.5:
            continue
        try:
            fn()
            ctx.count("fault_read_did_not_fail:" + name)
        except Exception as e:
            ctx.count("fault_reads:%s:%s" % (name, type(e).__name__))


def verify(H, reads, twin, mut, during):
    ctx = H.ctx
    tag = mut["kind"] + (":during_broadcast" if during else "")
    if not during and mut["op"] != "none" and ctx.rng.random() < 0.3:
        fault_reads(H)
    for r in reads:
        if r.get("dead"):
            continue
        lo = exec_read(H.live, r)
        to = exec_read(twin, r)
        warm = r["nreads"] > 0
        changed = warm and not same_outcome(to, r["last"])
        sdesc = None if r.get("s") is None else H.snap[r["s"]]
        own = r.get("s") is not None and mut.get("s") == r["s"]
        fp = [mut["kind"], mut["op"], mut.get("same_ids"), mut.get("attr"), mut.get("how"), mut.get("node"), mut.get("depth"), r["k"], r.get("via"),
              view_class(r), None if sdesc is None else W.shape_sig(sdesc), during, H.flavour]
        nontrivial = warm and changed and to[0] == "ok"
        ctx.evaluation(fp, nontrivial)
        ctx.count("reads_compared:" + tag)
        ctx.count("reads_compared_kind:" + READ_FAMILY[r["k"]])
        if warm:
            ctx.count("post_mutation_rereads:" + tag)
        if nontrivial:
            ctx.count("post_mutation_rereads_truth_changed:" + tag)
            ctx.count("truth_changed_kind:" + READ_FAMILY[r["k"]])
            if mut.get("variant"):
                ctx.count("post_mutation_rereads_truth_changed:variant:" + mut["variant"])
            if mut.get("pressure", 0) > 4096:
                ctx.count("post_mutation_rereads_truth_changed:after_more_than_4096_memo_entries")
            if mut.get("no_links_left"):
                ctx.count("post_mutation_rereads_truth_changed:link_change_to_no_links_at_all")
            if mut.get("same_ids"):
                ctx.count("post_mutation_rereads_truth_changed:link_change_atomic_same_derivable_ids")
                ctx.count("truth_changed_atomic_same_ids_kind:" + READ_FAMILY[r["k"]])
            if ctx.rng.random() < 0.002:
                ctx.sample({"flavour": H.flavour, "mutation": {k: v for k, v in mut.items() if k != "value"},
                            "read": describe_read(r), "state": sdesc, "before": brief(r["last"]), "after_twin": brief(to),
                            "after_live": brief(lo)})
        if lo[0] == "exc" and to[0] == "exc" and lo[1] == to[1]:
            ctx.count("both_raised:%s:%s" % (r["k"], lo[1]))
        if not agree(H, r, lo, to):
            if mut["op"] == "none":
                # never-mutated world disagrees with its twin: the oracle itself is unreliable here
                raise RuntimeError("live and twin disagree before any mutation: %r" % (describe_read(r),))
            stale(H, r, twin, mut, during, lo, to)
        if not during:
            r["last"] = to
            r["nreads"] += 1
    if mut["op"] != "none":
        sweep_nodes(H, twin, mut, during)


def memo_observable():
    """True when the to_mask memo dictionaries can be looked at (diagnosis aid; a refactoring may remove them)."""
    stack = [W.SubsetState]
    while stack:
        cls = stack.pop()
        if hasattr(cls.__dict__.get("to_mask"), "__memoize_cache"):
            return True
        stack.extend(cls.__subclasses__())
    return False


def sweep_nodes(H, twin, mut, during):
    """Comparison of every node of every live state with the twin's node, so that a stale layer that is hidden at the
    root (e.g. under an `and` with an empty sibling) is attributed to the mutation that caused it and not to a later
    one that merely reveals it.  Every node is evaluated on the full mask; in addition every memo entry that belongs to
    the node (whatever view or calling convention created it) is compared with the twin's node for that view - or, when
    the memo dictionaries are not observable, the node is evaluated under all three calling conventions."""
    ctx = H.ctx
    tag = mut["kind"] + (":during_broadcast" if during else "")
    observable = memo_observable()
    for k, st in enumerate(H.live.states):
        if k in H.poisoned:
            continue
        for di in eval_targets(H, k):
            ld, td = H.live.datas[di], twin.datas[di]
            bad = None
            n = 0
            for (path, ln), (_, tn) in zip(W.walk(st), W.walk(twin.states[k])):
                to = outcome(lambda: tn.to_mask(td, view=None))
                n += 1
                for lo in node_outcomes(ln, ld, None, not observable):
                    if not same_outcome(lo, to):
                        bad = (lo, to)
                        break
                if bad:
                    break
            if bad is None and observable:
                try:
                    hidden = memo_stale_paths(st, twin.states[k], ld, td)
                except Exception:
                    hidden = set()
                if hidden:
                    ctx.count("stale_memo_entries_found_by_sweep_only")
                    bad = (("ok", np.array("stale memo entry")), ("ok", np.array("fresh")))
            ctx.evaluation(None, False, n=n)
            ctx.count("node_masks_compared:" + tag, n)
            if bad is not None:
                r = {"k": "mask", "via": "node_sweep", "d": di, "s": k, "view": None, "vk": "none", "last": None,
                     "nreads": 0, "synthetic": True}
                stale(H, r, twin, mut, during, bad[0], bad[1])
                if k in H.poisoned:
                    break


def node_outcomes(node, data, view, both):
    outs = [outcome(lambda: node.to_mask(data, view=view))]
    if both:   # the memo key depends on the calling convention
        outs.append(outcome(lambda: node.to_mask(data, view)))
        if view is None:
            outs.append(outcome(lambda: node.to_mask(data)))
    return outs


def memo_stale_paths(live_state, twin_state, live_data, twin_data):
    """Diagnosis only (never deciding): entries of the to_mask memo dictionaries that belong to a node of this state
    and differ from what the twin's node answers for the same view.  Finds stale entries keyed on views the harness
    did not choose itself (chunk views of compute_statistic)."""
    out = set()
    for (path, ln), (_, tn) in zip(W.walk(live_state), W.walk(twin_state)):
        fn = None
        for cls in type(ln).__mro__:
            fn = cls.__dict__.get("to_mask")
            if fn is not None:
                break
        memo = getattr(fn, "__memoize_cache", None)
        if not memo:
            continue
        for (args, kw), val in list(memo.items()):
            if len(args) >= 2 and args[0] is ln and args[1] is live_data:
                view = args[2] if len(args) > 2 else dict(kw).get("view")
                t = outcome(lambda: tn.to_mask(twin_data, view=view))
                if not same_outcome(("ok", np.array(val)), t):
                    out.add(path)
                    break
    return out


def culprit_nodes(live_state, twin_state, live_data, twin_data, view, others=(), want_all=False):
    """Classes of the minimal subtrees of the live state whose own mask differs from the twin's.  `others`: further
    (live dataset, twin dataset) pairs on which the nodes are compared on the full mask (a mask obtained through a key
    join is computed - and memoized - on the other dataset)."""
    stale_at = {}
    cls_at = {}
    pairs = [(live_data, twin_data, view)] + [(a, b, None) for a, b in others]
    memo_stale = set()
    for ld, td, _ in pairs:
        try:
            memo_stale |= memo_stale_paths(live_state, twin_state, ld, td)
        except Exception:
            pass
    for (path, ln), (_, tn) in zip(W.walk(live_state), W.walk(twin_state)):
        bad = path in memo_stale
        for ld, td, v in pairs:
            if bad:
                break
            t = node_outcomes(tn, td, v, False)[0]
            bad = any(not same_outcome(x, t) for x in node_outcomes(ln, ld, v, True))
        stale_at[path] = bad
        cls_at[path] = type(ln).__name__
    out = []
    for p, s in stale_at.items():
        if s and not any(stale_at[q] for q in stale_at if len(q) > len(p) and q[:len(p)] == p):
            out.append((p, cls_at[p]))
    if want_all:
        return out, set(p for p, s in stale_at.items() if s)
    return out


MOVABLE = ("AndState", "OrState", "XorState", "InvertState", "RangeSubsetState", "RoiSubsetState")


def can_change(mut, q, cls_q):
    """Can the state mutation `mut` (at node path p) have changed the mask of the node at path q (class cls_q)?
    Yes for the node itself and its ancestors; for descendants only when a subtree was replaced or when move_to is
    handed down to a node that implements it (memoized leaves do not move)."""
    p, q = tuple(mut["path"]), tuple(q)
    if len(q) <= len(p):
        return p[:len(q)] == q
    if q[:len(p)] != p:
        return False
    if mut.get("vkind") in ("state", "states"):
        return True
    return mut["op"] == "move_to" and cls_q in MOVABLE


STATE_OPS = ("setter", "move_to", "roi_edit")


def record_touch(H, mut):
    """Remember, per node of the mutated state, the last mutation that could have changed its mask."""
    k, p = mut["s"], tuple(mut["path"])
    t = H.touch.setdefault(k, {})
    if mut.get("vkind") in ("state", "states"):      # a subtree was replaced: its nodes are new objects
        for q in [q for q in t if len(q) > len(p) and q[:len(p)] == p]:
            del t[q]
    fam = W.family(mut["node"])
    for q, node in W.walk(H.live.states[k]):
        if can_change(mut, q, type(node).__name__):
            t[q] = (mut["kind"], fam)


def stale(H, r, twin, mut, during, lo, to):
    """Report a stale result.  Each minimal stale node is attributed to the current mutation when that mutation can
    have changed its mask (same state and related path; any data / link mutation); otherwise to the last earlier
    mutation that touched the node (its stale cache entry had stayed invisible until now)."""
    ctx = H.ctx
    base = {"kind": "stale", "read": READ_FAMILY[r["k"]], "during_broadcast": bool(during), "live": okind(lo),
            "twin": okind(to)}
    current = (mut["kind"], mutated_family(H, mut, r))
    if r.get("s") is not None:
        view = r.get("view") if r["k"] == "mask" else None
        others = [(H.live.datas[i], twin.datas[i]) for i in range(len(H.live.datas)) if i != r["d"]] \
            if getattr(H, "joins", None) else []
        try:
            cul = culprit_nodes(H.live.states[r["s"]], twin.states[r["s"]], H.live.datas[r["d"]], twin.datas[r["d"]],
                                view, others)
        except TypeError:   # unhashable/odd view passed by keyword and positionally: fall back to the full mask
            cul = culprit_nodes(H.live.states[r["s"]], twin.states[r["s"]], H.live.datas[r["d"]], twin.datas[r["d"]],
                                None, others)
        groups = {}
        for path, cls in cul:
            if mut["op"] in STATE_OPS:
                touches = mut["s"] == r["s"] and can_change(mut, path, cls)
            else:
                touches = True
            who = current
            if not touches:
                earlier = H.touch.get(r["s"], {}).get(tuple(path))
                if earlier is not None:
                    who = earlier
                    ctx.count("stale_node_attributed_to_earlier_mutation")
            groups.setdefault((who[0], who[1], W.family(cls)), []).append(tuple(path))
        if not groups:
            groups[(current[0], current[1], "none")] = []
    else:
        cul, groups = [], {(current[0], current[1], "no_state"): []}
    clear_all_memo()
    H.touch.clear()    # every memo entry is fresh again
    # the cause is judged per culprit node: a node that agrees with the twin once all to_mask memos are cleared was
    # stale because of a memo entry; one that still differs has a cache of its own (a read can have both kinds)
    still = None
    if r.get("s") is not None:
        try:
            rest, still = culprit_nodes(H.live.states[r["s"]], twin.states[r["s"]], H.live.datas[r["d"]],
                                        twin.datas[r["d"]], None,
                                        [(H.live.datas[i], twin.datas[i]) for i in range(len(H.live.datas))
                                         if i != r["d"]] if getattr(H, "joins", None) else [], want_all=True)
        except Exception:
            rest, still = [], None
    if r.get("synthetic"):
        healed = not rest
    else:
        healed = agree(H, r, exec_read(H.live, r), to)
    detail = {"read": describe_read(r), "live": brief(lo), "twin": brief(to), "before_mutation": brief(r["last"]),
              "culprit_nodes": [[list(p), c] for p, c in cul], "mutation": {k: v for k, v in mut.items()},
              "history": describe_history(H)}
    for (kind, mutated, fam), paths in groups.items():
        if paths and still is not None:
            causes = sorted(set("not_memo" if p in still else "to_mask_memo" for p in paths))
        else:
            causes = ["to_mask_memo" if healed else "not_memo"]
        for cause in causes:
            ctx.violation(dict(base, mutation=kind, mutated=mutated, culprit=fam, cause=cause), detail)
    ctx.count("stale_results")
    if not healed and r.get("s") is not None:
        poison(H, r["s"])
    elif not healed:
        r["dead"] = True


def describe_history(H):
    return {"flavour": H.flavour, "with_dc": H.with_dc, "models": [m.describe() for m in H.models],
            "initial_states": H.descs, "current_states": getattr(H, "snap", None), "registered": H.registered,
            "links_pool": H.links_pool, "links_active": H.links_active, "mutations": H.mutlog}


# ---------------------------------------------------------------- memo pressure
PRESSURE_N = [100, 100, 1000, 1000, 5000, 5000, 5000, 10000, 10000]


def pressure_desc(rng, mode, j, nd):
    """j-th of N distinct states of one memoized class."""
    thr = -6.0 + 0.0013 * j
    att = ["c", 0, "w"]
    if mode == "ineq":
        return ["ineq", att, "gt", ["num", thr]]
    if mode == "and":       # children are not memoized: only the composite memo fills up
        return ["and", ["range", thr, thr + 4.0, att], ["range", -9.0, 9.0, ["c", 0, "v"]]]
    if mode == "not":
        return ["not", ["range", thr, thr + 4.0, att]]
    if mode == "multior":
        return ["multior", [["range", thr, thr + 2.0, att], ["range", thr + 5.0, thr + 6.0, att]]]
    if mode == "category":
        return ["category", ["c", 0, "c"], [j % 4, (j // 4) % 4]]
    if mode == "element":
        return ["element", [j % nd, (j // nd) % nd], None]
    raise ValueError(mode)


def pressure_oracle(desc, m):
    """numpy evaluation of the states made by pressure_desc (independent of glue)."""
    k = desc[0]
    col = lambda ref: np.asarray(m.get(ref[2]))
    if k == "ineq":
        return col(desc[1]) > desc[3][1]
    if k == "range":
        x = col(desc[3])
        return (x >= desc[1]) & (x <= desc[2])
    if k == "and":
        return pressure_oracle(desc[1], m) & pressure_oracle(desc[2], m)
    if k == "not":
        return ~pressure_oracle(desc[1], m)
    if k == "multior":
        out = pressure_oracle(desc[1][0], m)
        for c in desc[1][1:]:
            out = out | pressure_oracle(c, m)
        return out
    raise ValueError(k)


def run_churn_history(ctx, H):
    """Identity vs equality: thousands of short-lived states are created, evaluated once and dropped, so that object
    addresses can be reused; every mask is compared with a numpy evaluation of the state's parameters on the values the
    harness supplied (a cache keyed on the address or hash of a dead state would serve a newcomer the wrong mask)."""
    import gc
    rng = ctx.rng
    n = rng.randint(4, 7)
    m = W.gen_data_model(rng, "d0", (n,), ["v", "w"])
    for c in m.comps:       # finite values only: the oracle is plain numpy
        c[2] = np.where(np.isfinite(c[2]), c[2], 0.25)
    H.models = [m]
    d = W.build_data(m)
    if rng.random() < 0.7:
        from glue.core import DataCollection
        DataCollection([d])
    M = rng.choice([300, 1000, 3000])
    mode = rng.choice(["ineq", "ineq", "and", "not", "multior"])
    ctx.count("histories:pressure")
    ctx.count("histories:churn")
    ctx.count("histories")
    keep = []
    for j in range(M):
        desc = pressure_desc(rng, mode, rng.randrange(8000), n)
        st = W.build_state(desc, [d])
        conv = j % 3
        got = outcome((lambda: d.get_mask(st)) if conv == 0 else (lambda: st.to_mask(d)) if conv == 1
                      else (lambda: st.to_mask(d, None)))
        want = ("ok", pressure_oracle(desc, m))
        ctx.evaluation(["churn", mode, conv], j > 0)
        ctx.count("short_lived_states_compared")
        if not same_outcome(got, want):
            clear_all_memo()
            healed = same_outcome(outcome(lambda: d.get_mask(st)), want)
            ctx.violation({"kind": "stale", "read": "mask", "mutation": "none_short_lived_state", "mutated": "none",
                           "culprit": W.family(st), "cause": "to_mask_memo" if healed else "not_memo",
                           "during_broadcast": False, "live": okind(got), "twin": "value"},
                          {"state": desc, "iteration": j, "live": brief(got), "expected": brief(want),
                           "model": m.describe()})
            ctx.count("stale_results")
            break
        if rng.random() < 0.02:
            keep.append(st)         # a few survive, most die
        del st
        if j % 97 == 0:
            gc.collect()
        if j % 500 == 499:      # values change now and then (the memos are cleared by glue): addresses get recycled
            name = rng.choice(["v", "w"])
            arr = np.round(np.array([rng.uniform(-5, 5) for _ in range(n)]), 3)
            m.set(name, arr)
            d.update_components({d.id[name]: np.array(arr)})
    clear_all_memo()


def run_pressure_history(ctx, hid):
    """N distinct memoized (state, data, view) combinations of one state class are evaluated with no change of values in
    between (the memo of that class holds N entries), then the values change: a sample of the combinations, read before,
    must equal the fresh twin.  Either N distinct states (thresholds) or one state under N distinct views."""
    rng = ctx.rng
    H = History()
    H.ctx, H.flavour = ctx, "pressure"
    H.links_pool, H.links_active, H.cross_refs, H.joins = [], [], {}, []
    H.undo, H.data_undo, H.last_mut, H.extra_comps = [], [], None, []
    H.dtypes, H.layouts, H.scale = False, rng.random() < 0.3, 1.0
    if rng.random() < 0.4:
        return run_churn_history(ctx, H)
    H.with_dc = rng.random() < 0.8
    N = rng.choice(PRESSURE_N)
    by_views = rng.random() < 0.35
    if by_views:
        shape = (4, 5, 3)
        names = ["v", "w", "i"]
        mode = rng.choice(["ineq", "and", "not", "multior"])
    else:
        shape = (rng.randint(3, 5),)
        names = ["v", "w", "i", "c", "c2"]
        mode = rng.choice(["ineq", "ineq", "and", "not", "multior", "category", "element"])
    H.models = [W.gen_data_model(rng, "d0", shape, names)]
    size = H.models[0].size
    ntrack = 10
    if by_views:
        H.descs = [pressure_desc(rng, mode, rng.randrange(4000), size)]
        views, seen = [], set()
        while len(views) < N:
            v = tuple(slice(rng.randrange(0, n), rng.randrange(0, n + 1), rng.choice([None, 1, 2, 3])) for n in shape)
            key = tuple((x.start, x.stop, x.step) for x in v)
            if key not in seen:
                seen.add(key)
                views.append(v)
        track = sorted(set([0, 1, N - 1, N - 2] + [rng.randrange(N) for _ in range(ntrack)]))
    else:
        track = sorted(set([0, 1, N - 1, N - 2] + [rng.randrange(N) for _ in range(ntrack)]))
        H.descs = [pressure_desc(rng, mode, j, size) for j in track]
    H.home = [0] * len(H.descs)
    H.registered = [k for k in range(len(H.descs)) if rng.random() < 0.3]
    H.live = W.build_world(H.models, H.descs, (), (), H.with_dc, H.registered)
    H.probe = Probe(H.live.dc.hub) if H.with_dc else None
    H.mutlog, H.touch, H.poisoned = [], {}, set()
    ctx.count("histories:pressure")
    ctx.count("histories:pressure:N=%d" % N)
    ctx.count("histories:pressure:" + ("views" if by_views else "states") + ":" + mode)
    ctx.count("histories")
    d = H.live.datas[0]

    # reads of the tracked combinations, tagged with their position in the fill order
    H.reads = []
    for pos, j in enumerate(track):
        if by_views:
            r = {"k": "mask", "d": 0, "s": 0, "via": rng.choice(["get_mask", "to_mask_pos"]), "vk": "slice_tuple_full",
                 "view": views[j], "last": None, "nreads": 0, "fill_pos": j}
            H.reads.append(r)
        else:
            r = gen_read(rng, H, pos, 0, pos in H.registered)
            r["fill_pos"] = j
            H.reads.append({"k": "mask", "d": 0, "s": pos, "via": "get_mask", "vk": "none", "view": None, "last": None,
                            "nreads": 0, "fill_pos": j})
            H.reads.append(r)
    if by_views:
        for _ in range(3):
            r = gen_read(rng, H, 0, 0, 0 in H.registered)
            r["fill_pos"] = -1
            H.reads.append(r)
    twin = twin_of(H)
    none = {"op": "none", "kind": "none"}
    # fill: the tracked combinations are evaluated at their own position among the N, so some entries are created
    # early and some after thousands of others
    tracked_at = {}
    for r in H.reads:
        tracked_at.setdefault(r["fill_pos"], []).append(r)
    verify(H, tracked_at.get(-1, []), twin, none, False)
    st0 = H.live.states[0]
    for j in range(N):
        if j in tracked_at:
            verify(H, tracked_at[j], twin, none, False)
        elif by_views:
            d.get_mask(st0, view=views[j])
        else:
            d.get_mask(W.build_state(pressure_desc(rng, mode, j, size), H.live.datas))
    ctx.count("pressure_fill_evaluations", N)

    for step in range(rng.randint(2, 3)):
        m = H.models[0]
        if rng.random() < 0.3 and not by_views:
            new_shape = rng.random() < 0.5 and mode not in ("element",)
            shp = (max(3, m.shape[0] + rng.choice([-1, 1, 2])),) if new_shape else m.shape
            mut = {"op": "update_values_from_data", "kind": "update_values_from_data", "d": 0, "shape": list(shp),
                   "new_shape": new_shape, "extra": False, "keep_all": True}
        else:
            mut = {"op": "update_components", "kind": "update_components", "d": 0,
                   "names": rng.sample(["v", "w"], rng.randint(1, 2)), "key": rng.choice(["cid", "component"])}
        mut["pressure"] = N
        if not perform(H, mut):
            break
    clear_all_memo()


# ---------------------------------------------------------------- cases
N_BLOCKS = {"quick": 288, "thorough": 60000}
PATTERN = ["table", "cube", "hist", "linked", "prof", "indexed", "aligned", "prof", "linked", "hist", "table", "cube",
           "hist", "prof", "pressure", "aligned", "pressure", "joined", "indexed", "joined", "pressure", "pressure"]
PER_BLOCK = {"table": 5, "cube": 5, "linked": 5, "aligned": 5, "joined": 4, "pressure": 1, "indexed": 6, "hist": 2, "prof": 2}


def cases(tier, seed):
    order = random.Random(20261001)   # fixed mix of families, independent of the number of shards
    for i in range(N_BLOCKS[tier]):
        yield [order.choice(PATTERN), i]


def run_case(ctx, case):
    fam, i = case
    for h in range(PER_BLOCK[fam]):
        if fam in ("table", "cube", "linked", "aligned", "joined"):
            run_state_history(ctx, fam, [i, h])
        elif fam == "pressure":
            run_pressure_history(ctx, [i, h])
        elif fam == "indexed":
            V.run_indexed_history(ctx, [i, h])
        elif fam == "hist":
            V.run_hist_history(ctx, [i, h])
        elif fam == "prof":
            V.run_prof_history(ctx, [i, h])
        else:
            raise ValueError(fam)


def finish(ctx):
    clear_all_memo()


MUTATION_KINDS = ["update_components", "update_values_from_data", "setter", "move_to", "roi_edit", "link_change",
                  "indices", "viewer_setting", "subset_replace"]


def floors(c, tier):
    out = []
    total = sum(v for k, v in c.items() if k.startswith("post_mutation_rereads:"))
    if total < 3000:
        out.append("fewer than 3000 post-mutation re-reads compared against a twin (%d)" % total)
    # re-reads of an object read before the mutation whose true answer changed, per mutation kind
    need = {"update_components": 150, "update_values_from_data": 30, "setter": 120, "move_to": 10, "roi_edit": 8,
            "link_change": 30, "link_change_atomic_same_derivable_ids": 10, "link_change_to_no_links_at_all": 5,
            "after_more_than_4096_memo_entries": 10,
            "update_components:during_broadcast": 30, "update_values_from_data:during_broadcast": 8,
            "indices": 25, "hist:update_components": 12, "hist:viewer_setting": 20, "hist:subset_replace": 4,
            "prof:update_components": 15, "prof:viewer_setting": 15, "prof:subset_replace": 4,
            # classes of the adversarial widening round
            "add_component_existing_cid": 4, "variant:near_equal_values": 4, "variant:in_place_same_object": 10,
            "variant:reentrant_update": 6}
    for k, n in need.items():
        got = c.get("post_mutation_rereads_truth_changed:" + k, 0)
        if got < n:
            out.append("mutation kind %s: only %d re-reads of a previously read object whose true answer changed "
                       "(floor %d)" % (k, got, n))
    kinds = {"mask": 250, "statistic": 100, "histogram": 80, "component_value": 30, "layer_histogram": 40,
             "layer_profile": 40, "indexed_value": 20, "indexed_mask": 3, "indexed_statistic": 12,
             "indexed_histogram": 12}
    for k, n in kinds.items():
        if c.get("truth_changed_kind:" + k, 0) < n:
            out.append("fewer than %d changed-truth re-reads of kind %s (%d)" % (n, k, c.get("truth_changed_kind:" + k, 0)))
    # a failed update_components must change nothing: what counts is how many reads were compared after one
    if c.get("post_mutation_rereads:update_components_raised", 0) < 40:
        out.append("fewer than 40 reads compared after an update_components call that failed (%d)"
                   % c.get("post_mutation_rereads:update_components_raised", 0))
    for fl in ("state:table", "state:cube", "state:linked", "state:aligned", "pressure", "indexed", "hist", "prof"):
        if c.get("histories:" + fl, 0) < 5:
            out.append("fewer than 5 histories of family %s" % fl)
    classes = {"histories:state:joined": 2, "histories:churn": 1, "short_lived_states_compared": 300,
               "class:scale=1e-10": 3, "class:scale=1e+12": 3, "class:dtype_variants": 10, "class:layout_variants": 10,
               "class:update_with_other_dtype": 10, "mutations:setter:nudge": 4, "mutations:setter:revert": 2,
               "mutations:variant:bad_last": 3, "mutations:component_bookkeeping": 3}
    for k, n in classes.items():
        if c.get(k, 0) < n:
            out.append("class counter %s is %d (floor %d)" % (k, c.get(k, 0), n))
    if c.get("listener_calls_inside_mutation:update_values_from_data:DataRemoveComponentMessage", 0) < 3:
        out.append("fewer than 3 listener calls on a DataRemoveComponentMessage delivered from inside update_values_from_data")
    if c.get("masks_read_inside_mutation:update_values_from_data", 0) < 100:
        out.append("fewer than 100 masks evaluated by the listener from inside update_values_from_data")
    if sum(v for k, v in c.items() if k.startswith("fault_reads:")) < 20:
        out.append("fewer than 20 deliberately failing reads were interleaved")
    bad = sum(v for k, v in c.items() if k.startswith("twin_build_failed"))
    if bad > 0.02 * max(1, c.get("histories", 0)):
        out.append("twin could not be built in %d histories" % bad)
    return out
