"""C13 - undo restores the previous session state and redo the undone one.

Shape: history + snapshot oracle.  After a set-up prefix (datasets, groups,
edit-subset choice, mode - made through the plain API) a *history* of do(cmd) /
undo / redo (plus the user changing mode / edit subset between commands) is run
through the real CommandStack (directly or through Application.do/undo/redo)
with the real command classes AddData, RemoveData, ApplySubsetState (all edit
modes, with/without override_mode, with/without an edit subset) and ApplyROI
(viewer-style apply function).  After every step a behavioural snapshot of the
session is taken through public attributes (lib_C06_world.snapshot): datasets,
groups in order, the selection of every member subset as a mask, which subsets
each dataset carries, the edit-subset choice, the mode.  The oracle is the
history itself: the snapshot after undo must equal the one recorded before the
matching do, the snapshot after redo the one recorded after it; a list model of
the stack (bounded by MAX_UNDO) predicts can_undo_redo(), the labels and when
undo/redo must raise IndexError.  A history stops at its first violation.
"""
import itertools
import re

from glue.core import DataCollection
from glue.core import command as gcmd
from glue.core.application_base import Application
from glue.core.hub import HubListener
from glue.core.message import Message
from glue.core.roi import RectangularROI, XRangeROI
from glue.core.session import Session
from glue.core.subset import roi_to_subset_state

from vf.common import exc_name
from vf.lib_C06_world import (MODES, STATE_VARIANTS, Names, build_state, diff_fields, fresh_data, is_in, mask_changes,
                              mask_of, multi_member_count, raised_below_harness, snapshot, MULTI_VARIANTS)

ID = "C13"
LEVEL = "exploration"
BUDGET_S = {"quick": 30.0, "thorough": 480.0}
AUTO_LABELS_UP_TO_RENUMBERING = True   # 'Subset N' / N-th colour of a group re-created by redo: compared up to renumbering
AUTO_LABEL = re.compile(r"^Subset \d+$")
DATASET_ORDER_IS_STATE = True    # RemoveData.undo re-appends at the end; set False to tolerate order-only differences
RULE = ("cases are (set-up, history) pairs: set-up = one of 5 session states (empty / data only / one edited group / two groups, "
        "one edited, AND mode / two groups both edited, OR mode); history = tokens over do(AddData|RemoveData|ApplySubsetState with "
        "10 states x {no override, replace, and, or, xor, andnot, new}|ApplyROI with 4 ROIs) / undo / redo / set mode / set edit "
        "subset; all histories up to a length bound over a 12-token alphabet are enumerated, random ones up to length 30, walk-shaped "
        "ones (every 2-/3-command prefix over 9 commands followed by undo..redo..undo patterns that walk the whole stack down, up and "
        "down again, plus random walks of 2-6 commands and 3-6 phases), and runs "
        "of more than MAX_UNDO commands followed by undo until the stack is empty. Every undo/redo is one comparison. A history is "
        "non-trivial when at least one compared undo/redo belonged to a command that changed the snapshot; distinct = distinct "
        "(set-up, history) fingerprints.")
ASSUMPTIONS = ["the snapshot (datasets, groups in order, member masks, subsets per dataset, edit subset, mode) is the session state the "
               "statement names; labels and styles are compared exactly for groups that survive as the same object (identity through "
               "kept references); a group re-created by redo must agree in everything except the number in its automatic label "
               "'Subset N' and the N-th default colour, which DataCollection hands out from a monotone, session-persistent counter "
               "(switch AUTO_LABELS_UP_TO_RENUMBERING)",
               "dataset order is part of 'the data collection' (switch DATASET_ORDER_IS_STATE); it is compared separately so that an "
               "order-only difference never hides or causes another signature",
               "an undo is compared when it starts from the state recorded after the do/redo (if that differs only in mode / edit "
               "subset because the user changed them, the other fields are still compared); a redo is compared only when it starts "
               "from exactly the state recorded before the do (redo re-executes under the current mode / edit subset), otherwise "
               "the command's recorded states are re-based like a fresh do; every skipped comparison is counted",
               "the documented bound of the undo history is glue.core.command.MAX_UNDO (50)",
               "undo/redo with nothing to undo/redo must raise IndexError (docstring) and change nothing"]
ANCHORS = ["glue.core.command:CommandStack.do", "glue.core.command:CommandStack.undo", "glue.core.command:CommandStack.redo",
           "glue.core.command:ApplySubsetState.do", "glue.core.command:ApplySubsetState.undo", "glue.core.command:ApplyROI.do",
           "glue.core.command:ApplyROI.undo", "glue.core.command:AddData.undo", "glue.core.command:RemoveData.undo",
           "glue.core.edit_subset_mode:EditSubsetMode._combine_data"]

MAX_UNDO = getattr(gcmd, "MAX_UNDO", 50)

ROIS = [("rect", "d0_x", "d0_w", [1.5, 4.5, 1.0, 4.0]), ("rect", "d1_x", "d1_w", [0.5, 3.5, 0.0, 3.0]),
        ("xrange", "d0_x", "d0_w", [2.5, 9.0]), ("rect", "d2_x", "d2_w", [0.5, 4.5, 0.5, 2.5]),
        # adversarial round: zero-area, zero-width, huge and tiny regions (falsy / extreme legal values, magnitude)
        ("rect", "d0_x", "d0_w", [2.0, 2.0, 2.5, 2.5]), ("xrange", "d1_x", "d1_w", [3.0, 3.0]),
        ("rect", "d0_x", "d0_w", [-1e12, 1e12, -1e12, 1e12]), ("xrange", "d0_x", "d0_w", [3.0 - 1e-10, 3.0 + 1e-10])]


class Stop(Exception):
    pass


# ---------------------------------------------------------------- second formulation: icontract invariant on the stack
_IC = {"installed": False, "evaluations": 0, "error": None}


def _undo_history_bounded(self):
    """The undo history never exceeds MAX_UNDO (private attribute: evidence, not deciding)."""
    try:
        n = len(self._command_stack)
    except AttributeError:
        return True
    _IC["evaluations"] += 1
    return n <= MAX_UNDO


def setup(ctx):
    if _IC["installed"]:
        return
    _IC["installed"] = True
    try:
        import icontract
        icontract.invariant(_undo_history_bounded, "undo history bounded by MAX_UNDO")(gcmd.CommandStack)
    except Exception as exc:
        _IC["error"] = repr(exc)
        ctx.count("icontract_unavailable")


def finish(ctx):
    ctx.count("icontract_invariant_evaluations", _IC["evaluations"])


# ---------------------------------------------------------------- world
SETUPS = {
    "empty": {"data": [], "groups": [], "edit": [], "mode": "replace"},
    "data_only": {"data": ["d0", "d1"], "groups": [], "edit": [], "mode": "replace"},
    "one_group_edited": {"data": ["d0", "d1"], "groups": [0], "edit": [0], "mode": "replace"},
    "two_groups_one_edited_and": {"data": ["d0", "d1", "d2"], "groups": [3, 1], "edit": [1], "mode": "and"},
    "two_groups_both_edited_or": {"data": ["d0", "d1"], "groups": [2, 9], "edit": [0, 1], "mode": "or"},
    "one_group_not_edited": {"data": ["d1", "d0"], "groups": [8], "edit": [], "mode": "xor"},
}


class World:
    def __init__(self, ctx, setup_name, use_app):
        self.ctx = ctx
        self.names = Names()
        self.pool = {}
        self.dc = DataCollection()
        if use_app:
            self.app = Application(data_collection=self.dc)
            self.session = self.app.session
        else:
            self.app = None
            self.session = Session(data_collection=self.dc)
        self.stack = self.session.command_stack
        self.mode = self.session.edit_subset_mode
        su = SETUPS[setup_name]
        for n in su["data"]:
            self.dc.append(self.data(n))
        for k, sv in enumerate(su["groups"]):
            self.dc.new_subset_group(label="g%d" % (k + 1), subset_state=build_state(STATE_VARIANTS[sv], self.cid))
        self.mode.mode = MODES[su["mode"]]
        self.mode.edit_subset = [self.dc.subset_groups[i] for i in su["edit"]]
        self.m_done, self.m_undone = [], []
        self.serial = 0
        self.join_serial = {}
        self.executed = []
        self.cur = self.snap()
        self.comparisons = 0
        self.changing_compared = 0
        self.flags = set()
        self.undo_run = 0
        self.order_deviated = False
        self.shared_states = {}
        self.n_fault = 0
        self.observer = None

    def observe(self):
        """Read-only re-entrancy: a callback on the stack and a hub listener that read the session through the public API
        while a command is being (un)done / a message is being broadcast.  Never a verdict (mid-update states)."""
        if self.observer is not None:
            return
        w = self

        def on_stack(*args):
            w.stack.can_undo_redo()
            (w.stack.undo_label, w.stack.redo_label)
            w.ctx.count("reads_in_stack_callback")
        self.stack.add_callback(on_stack)

        class Obs(HubListener):
            def notify(self, msg):
                sub = getattr(msg, "subset", None)
                if sub is not None and getattr(sub, "data", None) is not None and is_in(sub, sub.data.subsets):
                    mask_of(sub)
                for d in w.dc:
                    len(d.subsets)
                list(w.mode.edit_subset or [])
                w.ctx.count("reads_during_broadcast")
        self.observer = Obs()
        self.dc.hub.subscribe(self.observer, Message)
        self.flags.add("observer_reading_during_updates")

    def data(self, name):
        d = self.pool.get(name)
        if d is None:
            d = fresh_data(name)
            self.pool[name] = d
            self.names.add(d, name)
        return d

    def cid(self, label):
        for c in self.data(label.split("_")[0]).main_components:
            if c.label == label:
                return c
        raise KeyError(label)

    def snap(self):
        return snapshot(self.dc, self.names, self.mode)

    # ---- real stack access
    def r_do(self, cmd):
        return self.app.do(cmd) if self.app is not None else self.stack.do(cmd)

    def r_undo(self):
        return self.app.undo() if self.app is not None else self.stack.undo()

    def r_redo(self):
        return self.app.redo() if self.app is not None else self.stack.redo()

    def make_cmd(self, tok):
        op = tok[0]
        if op == "add":
            return gcmd.AddData(data=self.data(tok[1]))
        if op == "rem":
            return gcmd.RemoveData(data=self.data(tok[1]))
        if op == "apply":
            kw = {}
            if tok[2] is not None:
                kw["override_mode"] = MODES[tok[2]]
            return gcmd.ApplySubsetState(data_collection=self.dc, subset_state=build_state(STATE_VARIANTS[tok[1] % len(STATE_VARIANTS)], self.cid), **kw)
        if op == "apply_shared":
            # the same SubsetState object handed to several commands (ReplaceMode copies it, the combining modes do not)
            k = tok[1] % len(STATE_VARIANTS)
            if k not in self.shared_states:
                self.shared_states[k] = build_state(STATE_VARIANTS[k], self.cid)
            kw = {}
            if tok[2] is not None:
                kw["override_mode"] = MODES[tok[2]]
            self.flags.add("shared_state_object")
            return gcmd.ApplySubsetState(data_collection=self.dc, subset_state=self.shared_states[k], **kw)
        if op == "roi":
            kind, xl, yl, v = ROIS[tok[1] % len(ROIS)]
            roi = XRangeROI(v[0], v[1]) if kind == "xrange" else RectangularROI(xmin=v[0], xmax=v[1], ymin=v[2], ymax=v[3])
            x_att, y_att = self.cid(xl), self.cid(yl)
            mode, dc = self.mode, self.dc

            def apply_roi(r):     # what a viewer does with a drawn region
                mode.update(dc, roi_to_subset_state(r, x_att=x_att, y_att=y_att))
            return gcmd.ApplyROI(data_collection=self.dc, roi=roi, apply_func=apply_roi)
        raise ValueError(tok)

    # ---- one step
    def step(self, tok):
        self.serial += 1
        self.executed.append(tok)
        op = tok[0]
        ctx = self.ctx
        self.info = {"step": op, "cmd": None}
        before = self.cur
        try:
            if op in ("add", "rem") and (op == "add") == is_in(self.data(tok[1]), list(self.dc)):
                # AddData of a member / RemoveData of a non-member: do() is a no-op, so there is no "state before the
                # command" that differs from the one after it; outside the stated domain (see notes/C13.md), counted
                ctx.count("degenerate_command_not_generated_" + op)
                self.executed.pop()
                return
            if op == "delay":
                self.delay_block(tok[1], before)
                self.check_stack(op)
                return
            if op == "observe":
                self.observe()
                self.check_stack(op)
                return
            if op == "fault_do":
                self.fault_do(tok, before)
                self.check_stack(op)
                return
            if op in ("apply", "apply_shared", "roi") and len(self.dc) == 0:
                # in domain since 29d0f48 records states per group: the selection is observable through the group list,
                # the structure of the group states and, once a dataset is back, the masks
                ctx.count("selection_applied_to_empty_collection")
                self.flags.add("selection_on_empty_collection")
            if op in ("add", "rem", "apply", "apply_shared", "roi"):
                cmd = self.make_cmd(tok)
                self.info["cmd"] = type(cmd).__name__
                self.info["step"] = "do"
                self.r_do(cmd)
                after = self.snap()
                ent = {"cmd": type(cmd).__name__, "obj": cmd, "B": before, "A": after, "partial": False, "serial": self.serial,
                       "created_group": len(after[0]["groups"]) > len(before[0]["groups"]),
                       "changed": after[0] != before[0] or after[1]["dataset_order"] != before[1]["dataset_order"],
                       "name": tok[1] if op in ("add", "rem") else None}
                self.m_done.append(ent)
                self.m_done = self.m_done[-MAX_UNDO:]
                self.m_undone = []
                if after[0]["datasets_sorted"] != before[0]["datasets_sorted"]:
                    for n in set(after[0]["datasets_sorted"]) - set(before[0]["datasets_sorted"]):
                        self.join_serial[n] = self.serial
                self.cur = after
                self.undo_run = 0
                ctx.count("do_" + ent["cmd"])
                if ent["created_group"]:
                    ctx.count("do_that_created_a_group")
                if not ent["changed"]:
                    ctx.count("do_that_changed_nothing_observable")
                if len(self.m_done) == MAX_UNDO:
                    self.flags.add("stack_at_bound")
            elif op in ("undo", "redo"):
                src, dst = (self.m_done, self.m_undone) if op == "undo" else (self.m_undone, self.m_done)
                real = self.r_undo if op == "undo" else self.r_redo
                if not src:
                    try:
                        real()
                    except IndexError:
                        after = self.snap()
                        ctx.count("empty_stack_indexerror_as_documented")
                        if after[0] != before[0]:
                            self.fail("failed_" + op + "_changed_the_session", {"diff": "+".join(diff_fields(after[0], before[0]))}, {})
                        self.check_stack(op)
                        return
                    kind = "undo_beyond_model_history" if op == "undo" else "redo_possible_with_empty_redo_history"
                    self.fail(kind, {"stack_was_at_bound": "stack_at_bound" in self.flags,
                                     "new_command_since_last_undo": op == "redo" and bool(self.m_done) and self.undo_run == 0}, {})
                ent = src[-1]
                self.info["cmd"] = ent["cmd"]
                self.info["ent"] = ent
                if ent.get("failed"):
                    self.walk_over_failed(op, ent, real)
                    self.check_stack(op)
                    return
                real()
                src.pop()
                dst.append(ent)
                after = self.snap()
                self.cur = after
                if after[0]["datasets_sorted"] != before[0]["datasets_sorted"]:
                    for n in set(after[0]["datasets_sorted"]) - set(before[0]["datasets_sorted"]):
                        self.join_serial[n] = self.serial
                if op == "undo":
                    self.undo_run += 1
                    if self.undo_run >= 2:
                        self.flags.add("undo_depth_ge_2")
                else:
                    self.flags.add("redo_after_undo")
                self.compare(op, ent, before, after)
                if op == "redo":
                    ent["redone"] = ent.get("redone", 0) + 1
                    ent["serial"] = self.serial
                    ent["created_group"] = len(after[0]["groups"]) > len(before[0]["groups"])
                    if ent.pop("rebase", False):
                        # re-executed from a state other than the recorded one (the user changed mode / edit subset on the way):
                        # like a fresh do, this is the pair of states the next undo / redo of this command refers to
                        ent["B"], ent["A"] = before, after
                        ent["changed"] = after[0] != before[0] or after[1]["dataset_order"] != before[1]["dataset_order"]
            elif op == "set_mode":
                self.mode.mode = MODES[tok[1]]
                self.cur = self.snap()
                self.taint()
            elif op == "set_edit":
                groups = self.dc.subset_groups
                sel = []
                for gi in tok[1]:
                    if groups and not is_in(groups[gi % len(groups)], sel):
                        sel.append(groups[gi % len(groups)])
                self.mode.edit_subset = sel
                self.cur = self.snap()
                self.taint()
            else:
                raise ValueError(tok)
        except Stop:
            raise
        except Exception as exc:
            if not raised_below_harness(exc):
                raise
            if type(exc).__name__ == "ViolationError":
                self.fail("icontract_stack_bound_violated", {}, {"message": str(exc)[:200]})
            self.fail("exception", {"exc": exc_name(exc)}, {"message": repr(exc)[:300]})
        self.check_stack(op)

    # ---- several stack operations inside ONE hub.delay_callbacks() block
    def delay_block(self, subs, before):
        """do / undo / redo executed while the hub queues every message; states inside the block are not quiescent, so the
        oracle looks only at the state after the block closes: it must be the one recorded for the stack position the
        block ends in (before the do for a final undo, after it for a final redo), provided the block started from the
        state recorded for the position it started in."""
        ctx = self.ctx
        ops = []            # effective (op, entry) pairs in order
        touched = []
        if self.m_done:
            ref = self.m_done[-1]["A"]
        elif self.m_undone:
            ref = self.m_undone[-1]["B"]
        else:
            ref = before
        self.info["in_delay_block"] = True
        self.flags.add("delay_block")
        with self.dc.hub.delay_callbacks():
            for sub in subs:
                sop = sub[0]
                if sop in ("undo", "redo"):
                    src, dst = (self.m_done, self.m_undone) if sop == "undo" else (self.m_undone, self.m_done)
                    real = self.r_undo if sop == "undo" else self.r_redo
                    if not src:
                        try:
                            real()
                        except IndexError:
                            ctx.count("empty_stack_indexerror_as_documented")
                            continue
                        self.fail("undo_or_redo_possible_on_empty_model_stack", {"which": sop}, {})
                    ent = src[-1]
                    if ent.get("failed"):
                        continue
                    self.info["cmd"] = ent["cmd"]
                    real()
                    src.pop()
                    dst.append(ent)
                    if sop == "redo":
                        ent["redone"] = ent.get("redone", 0) + 1
                        ent["serial"] = self.serial
                    ops.append((sop, ent))
                    touched.append(ent)
                    ctx.count("delay_block_" + sop)
                elif sop in ("add", "rem", "apply", "roi"):
                    if sop in ("add", "rem") and (sop == "add") == is_in(self.data(sub[1]), list(self.dc)):
                        ctx.count("degenerate_command_not_generated_" + sop)
                        continue
                    cmd = self.make_cmd(sub)
                    self.info["cmd"] = type(cmd).__name__
                    self.r_do(cmd)
                    ent = {"cmd": type(cmd).__name__, "obj": cmd, "B": before if not ops else None, "A": None, "partial": False,
                           "serial": self.serial, "created_group": False, "changed": True,
                           "name": sub[1] if sop in ("add", "rem") else None}
                    self.m_done.append(ent)
                    self.m_done = self.m_done[-MAX_UNDO:]
                    self.m_undone = []
                    ops.append(("do", ent))
                    touched.append(ent)
                    ctx.count("delay_block_do")
        after = self.snap()
        self.cur = after
        self.undo_run = 0
        ctx.count("delay_blocks_run")
        ctx.count("delay_block_stack_operations", len(ops))
        for n in set(after[0]["datasets_sorted"]) - set(before[0]["datasets_sorted"]):
            self.join_serial[n] = self.serial
        if not ops:
            return
        last_op, last = ops[-1]
        if last_op == "do":
            last["A"] = after
            last["created_group"] = len(after[0]["groups"]) > len(before[0]["groups"]) and len(ops) == 1
            ctx.count("delay_block_ending_in_do_recorded")
            return
        self.info["step"] = last_op
        self.info["cmd"] = last["cmd"]
        self.info["ent"] = last
        # chain the recorded states through the operations of the block, with the same preconditions as outside a block
        expected, partial, ok = ref, False, ref is not None
        if ok:
            d0 = diff_fields(before[0], ref[0])
            if d0:
                partial = set(d0) <= {"edit_subset", "mode"}
                ok = partial
        for o, ent in ops:
            if not ok:
                break
            if o == "undo":
                if ent["A"] is None or ent["B"] is None:
                    ok = False
                    break
                d = diff_fields(expected[0], ent["A"][0])
                if d and not set(d) <= {"edit_subset", "mode"}:
                    ok = False
                    break
                partial = partial or bool(d)
                expected = ent["B"]
            elif o == "redo":
                if ent["A"] is None or ent["B"] is None or partial or diff_fields(expected[0], ent["B"][0]):
                    ok = False       # re-executed under another mode / edit subset or from an unrecorded state
                    break
                expected = ent["A"]
            else:
                ok = False           # a new command in the middle of the block has no recorded result
        if ok:
            self.compare(last_op, last, before, after, block={"want": expected, "ignore": ("edit_subset", "mode") if partial else ()})
            ctx.count("compared_after_delay_block")
            ctx.count("compared_after_delay_block_ending_in_" + last_op)
            if any(e["cmd"] in ("AddData", "RemoveData") for _, e in ops) and len(after[0]["groups"]) > 0:
                ctx.count("compared_after_delay_block_moving_datasets_with_groups_present")
        else:
            ctx.count("delay_block_not_compared_recorded_states_do_not_chain")
            if any(o != "undo" for o, _ in ops):
                for ent in touched:        # nothing quiescent is known about what these commands started from / produced
                    ent["A"] = ent["B"] = None

    # ---- fault sequences: a command whose do() raises, followed by valid commands
    def fault_do(self, tok, before):
        ctx = self.ctx
        self.n_fault += 1
        label = "failing command #%d" % self.n_fault       # unique label: lets the model see what the stack did with it
        if tok[1] % 2 == 0:
            def refuse(roi):
                raise ValueError("viewer could not apply the region")
            cmd = type("FailingApplyROI", (gcmd.ApplyROI,), {"label": label})(
                data_collection=self.dc, roi=RectangularROI(xmin=0, xmax=1, ymin=0, ymax=1), apply_func=refuse)
            expected = ValueError
        else:
            cmd = type("FailingAddData", (gcmd.AddData,), {"label": label})(data=object())
            expected = TypeError
        self.info["cmd"] = type(cmd).__name__
        self.info["step"] = "do"
        try:
            self.r_do(cmd)
            ctx.count("failing_do_did_not_raise")
        except expected:
            ctx.count("failing_do_raised")
        after = self.snap()
        self.cur = after
        if after[0] != before[0]:
            self.fail("failed_do_changed_the_session", {"diff": "+".join(diff_fields(after[0], before[0]))}, {})
        # the statement is silent on what the stack does with a command that failed; mirror what is observable
        cu, cr = self.stack.can_undo_redo()
        if cu and self.stack.undo_label == label:
            self.m_done.append({"cmd": type(cmd).__name__, "obj": cmd, "B": before, "A": after, "partial": False, "serial": self.serial,
                                "created_group": False, "changed": False, "name": None, "failed": True})
            self.m_done = self.m_done[-MAX_UNDO:]
            ctx.count("failed_command_kept_on_undo_history")
        else:
            ctx.count("failed_command_not_kept")
        if not cr:
            self.m_undone = []
        self.undo_run = 0
        self.flags.add("failing_command")

    def walk_over_failed(self, op, ent, real):
        """undo / redo reaches a command whose do() had failed: anything it does is tolerated (counted); the model follows
        what the labels show.  Later comparisons protect themselves through their start-state precondition."""
        ctx = self.ctx
        label = ent["obj"].label
        try:
            real()
            ctx.count("%s_of_failed_command_returned" % op)
        except Exception:
            ctx.count("%s_of_failed_command_raised" % op)
        for lst in (self.m_done, self.m_undone):
            if lst and lst[-1] is ent:
                lst.pop()
        if self.stack.undo_label == label:
            self.m_done.append(ent)
        elif self.stack.redo_label == label:
            self.m_undone.append(ent)
        else:
            ctx.count("failed_command_dropped_from_history")
        self.cur = self.snap()
        self.undo_run = 0

    def taint(self):
        self.flags.add("user_changed_mode_or_edit_subset_mid_history")

    def check_stack(self, op):
        cu, cr = self.stack.can_undo_redo()
        if (cu, cr) != (bool(self.m_done), bool(self.m_undone)):
            self.fail("can_undo_redo_differs_from_model", {"real": [cu, cr], "model": [bool(self.m_done), bool(self.m_undone)]},
                      {"model_sizes": [len(self.m_done), len(self.m_undone)]})
        want = (self.m_done[-1]["obj"].label if self.m_done else "", self.m_undone[-1]["obj"].label if self.m_undone else "")
        got = (self.stack.undo_label, self.stack.redo_label)
        if got != want:
            self.fail("undo_redo_label_differs_from_model", {}, {"got": got, "want": want})
        self.ctx.count("stack_model_comparisons")

    # ---- the oracle
    def compare(self, op, ent, before, after, block=None):
        ctx = self.ctx
        want = ent["B"] if op == "undo" else ent["A"]
        # precondition of the statement: the step starts from the state recorded after the do (undo) / before it (redo).
        # It can only fail because the user changed mode / edit subset on the way (every earlier step was compared).
        # block: for a delay block whose last operation is (op, ent), delay_block() has already chained the recorded states
        # through every operation of the block: {"want": expected state after the block, "ignore": fields left out}
        ignore = ()
        ent["partial"] = False
        if block is not None:
            want = block["want"]
            ignore = block["ignore"]
            ent["partial"] = bool(ignore)
        else:
            ref = ent["A"] if op == "undo" else ent["B"]
            if want is None or ref is None:
                # the command was (re)done in the middle of a delay block: no quiescent state was recorded for it
                ctx.count("not_compared_state_recorded_inside_delay_block")
                if op == "redo":
                    ent["rebase"] = True
                return
            start_diff = diff_fields(before[0], ref[0])
            if start_diff:
                if op == "redo":
                    # redo re-executes the command under the current mode / edit subset: nothing can be demanded; re-base
                    ctx.count("redo_not_compared_state_before_differs_from_recorded")
                    ent["rebase"] = True
                    return
                if set(start_diff) <= {"edit_subset", "mode"}:
                    ignore = ("edit_subset", "mode")
                    ent["partial"] = True
                    ctx.count("undo_compared_without_edit_subset_and_mode")
                else:
                    ctx.count("undo_not_compared_state_before_differs_from_recorded")
                    return
        self.comparisons += 1
        ctx.count("compared_" + op)
        ctx.count("compared_%s_%s" % (op, ent["cmd"]))
        if ent["changed"]:
            self.changing_compared += 1
        if ent["created_group"]:
            ctx.count("compared_%s_of_group_creating_command" % op)
        if op == "undo" and ent.get("redone"):
            # the command was un-done, re-done (after the commands below it were un-done and re-done) and is un-done again
            ctx.count("compared_undo_of_redone_command")
            if ent["cmd"] in ("ApplySubsetState", "ApplyROI"):
                ctx.count("compared_undo_of_redone_selection_command")
                self.flags.add("undo_of_redone_selection_command")
        diff = diff_fields(after[0], want[0], ignore)
        if diff:
            # one violation per differing field, each with the structural features of that field only, so that two
            # mechanisms acting in the same undo are reported (and listed) separately
            mc = mask_changes(after[0], want[0])
            n_want = len(want[0]["groups"])
            surplus = after[0]["groups"][n_want:]
            base = {"user_changed_mode_or_edit_subset_since": ent["partial"], "cmd_was_redone": bool(ent.get("redone"))}
            detail = {"expected": want[0], "observed": after[0], "mask_changes": mc[:6], "all_differing_fields": diff,
                      "do_changed_nothing_observable": not ent["changed"]}
            if "group_listing" in diff and "member_masks" in diff:
                diff = [f for f in diff if f != "group_listing"]      # the listing follows the members
            for f in diff:
                keys = dict(base, field=f)
                if f in ("group_count", "edit_subset"):
                    keys["cmd_created_group"] = ent["created_group"]
                if f == "group_count":
                    keys["group_count_delta"] = max(-2, min(2, len(after[0]["groups"]) - n_want))
                    if surplus:
                        keys["surplus_group_has_members"] = any(any(v) for g in surplus for v in g["members"].values())
                elif f == "member_masks":
                    keys["mask_change"] = "+".join(sorted(set(k for k, _, _ in mc))) or "dataset_set"
                    keys["dataset_rejoined_since_cmd"] = any(self.join_serial.get(dn, -1) > ent["serial"] for _, dn, _ in mc)
                elif f == "state_tree":
                    na = sum(multi_member_count(g.get("state_tree")) for g in after[0]["groups"][:n_want])
                    nw = sum(multi_member_count(g.get("state_tree")) for g in want[0]["groups"])
                    keys["multi_or_members_delta"] = max(-2, min(2, na - nw))
                    keys["collection_empty"] = len(after[0]["datasets_sorted"]) == 0
                elif f == "edit_subset":
                    keys["edit_points_at_surplus_group"] = any(isinstance(i, int) and i >= n_want for i in after[0]["edit"])
                elif f == "datasets":
                    keys["missing"] = bool(set(want[0]["datasets_sorted"]) - set(after[0]["datasets_sorted"]))
                    keys["extra"] = bool(set(after[0]["datasets_sorted"]) - set(want[0]["datasets_sorted"]))
                self.fail(op + "_mismatch", keys, detail, stop=False)
            raise Stop()
        # labels / styles: exact for groups that survived as the same object (identity through the kept objects); a group
        # re-created by redo must agree up to the renumbering of its automatic label / colour (see notes/C13.md)
        wl, al = want[1], after[1]
        for i, (ga, gb) in enumerate(zip(al["group_objs"], wl["group_objs"])):
            if ga is gb:
                ctx.count("surviving_group_label_and_style_compared")
                if al["labels"][i] != wl["labels"][i] or al["styles"][i] != wl["styles"][i]:
                    self.fail(op + "_changed_label_or_style_of_surviving_group", {}, {"expected": [wl["labels"][i], wl["styles"][i]],
                                                                                      "observed": [al["labels"][i], al["styles"][i]]})
                continue
            auto = AUTO_LABEL.match(str(wl["labels"][i])) and AUTO_LABEL.match(str(al["labels"][i]))
            same_label = al["labels"][i] == wl["labels"][i]
            same_colour = al["styles"][i][0] == wl["styles"][i][0]
            if al["styles"][i][1:] != wl["styles"][i][1:] or (not same_label and not auto):
                self.fail(op + "_mismatch", {"field": "label_or_style_of_recreated_group", "label_differs": not same_label,
                                             "both_labels_automatic": bool(auto)},
                          {"expected": [wl["labels"][i], wl["styles"][i]], "observed": [al["labels"][i], al["styles"][i]]})
            if same_label and same_colour:
                ctx.count("recreated_group_label_and_colour_equal")
            elif AUTO_LABELS_UP_TO_RENUMBERING:
                ctx.count("recreated_group_automatic_label_or_colour_renumbered")
            else:
                self.fail(op + "_mismatch", {"field": "automatic_label_or_colour_of_recreated_group"},
                          {"expected": [wl["labels"][i], wl["styles"][i][0]], "observed": [al["labels"][i], al["styles"][i][0]]}, stop=False)
        # dataset order, compared on its own and only if it was as recorded just before this step
        start = ent["A"] if op == "undo" else ent["B"]
        if block is not None:
            # several commands ran: an order difference cannot be attributed to one of them; only remember that it happened
            if al["dataset_order"] != wl["dataset_order"]:
                self.order_deviated = True
            ctx.count("dataset_order_not_compared_after_delay_block")
        elif start is None or self.order_deviated or before[1]["dataset_order"] != start[1]["dataset_order"]:
            ctx.count("dataset_order_not_compared_already_deviating")
        elif al["dataset_order"] != wl["dataset_order"]:
            self.order_deviated = True     # recorded orders are stale from here on; order is no longer compared in this history
            if DATASET_ORDER_IS_STATE:
                self.fail(op + "_mismatch", {"field": "dataset_order_only"}, {"expected": wl["dataset_order"], "observed": al["dataset_order"]},
                          stop=False)
            else:
                ctx.count("dataset_order_only_difference_tolerated")
        else:
            ctx.count("dataset_order_compared")

    def fail(self, kind, keys, detail, stop=True):
        sig = {"kind": kind, "step": self.info.get("step"), "cmd": self.info.get("cmd")}
        if self.info.get("in_delay_block"):
            sig["in_delay_block"] = True
        sig.update(keys)
        detail = dict(detail)
        detail["setup_and_history_so_far"] = list(self.executed)
        self.ctx.violation(sig, detail)
        if stop:
            raise Stop()


# ---------------------------------------------------------------- running
def run_history(ctx, setup_name, hist, kind, use_app):
    w = World(ctx, setup_name, use_app)
    try:
        for tok in hist:
            w.step(tok)
    except Stop:
        ctx.count("histories_stopped_at_first_violation")
    ctx.evaluation([setup_name, w.executed], w.changing_compared > 0, n=max(1, w.comparisons))
    ctx.count("histories_" + kind)
    ctx.count("histories_via_" + ("application" if use_app else "command_stack"))
    for f in w.flags:
        ctx.count("histories_with_" + f)
    if ctx.rng.random() < 0.0005:
        ctx.sample({"setup": setup_name, "history": hist, "comparisons": w.comparisons})
    return w


ALPHABET = [["add", "d2"], ["add", "d1"], ["rem", "d0"], ["rem", "d1"], ["apply", 4, None], ["apply", 1, "new"],
            ["apply", 2, "or"], ["roi", 0], ["undo"], ["redo"], ["set_edit", [0]], ["set_mode", "andnot"]]
REDUCED = [0, 2, 3, 4, 6, 7, 8, 9]
ENUM = {"quick": [("empty", 3, ALPHABET), ("data_only", 3, ALPHABET), ("one_group_edited", 3, ALPHABET),
                  ("two_groups_one_edited_and", 3, ALPHABET), ("one_group_edited", 4, [ALPHABET[i] for i in REDUCED]),
                  ("two_groups_both_edited_or", 4, [ALPHABET[i] for i in REDUCED])],
        "thorough": [(s, 4, ALPHABET) for s in SETUPS] + [("one_group_edited", 5, ALPHABET),
                                                         ("two_groups_one_edited_and", 6, [ALPHABET[i] for i in REDUCED])]}
N_RANDOM = {"quick": 1600, "thorough": 60000}
N_WALK = {"quick": 500, "thorough": 20000}
N_WIDE = {"quick": 500, "thorough": 20000}     # widened random class (adversarial round), see wide_history
# walk family: every 2- (3-) command prefix, then walk the whole stack down, up and down again
WALK_CMDS = [["add", "d2"], ["rem", "d1"], ["apply", 4, None], ["apply", 2, "or"], ["roi", 0], ["roi", 1], ["add", "e1"],
             ["rem", "d0"], ["apply", 1, "new"]]
WALK_P2 = ["uurru", "uurruurr", "uruurru"]
WALK_P3 = ["uuurrruuu", "uurruuurrru", "uuurruurrru"]
WALK_SETUPS = ["one_group_edited", "two_groups_one_edited_and", "two_groups_both_edited_or", "one_group_not_edited"]
WALK3 = {"quick": (2, 6, 2), "thorough": (4, 9, 3)}
# multi family: a MultiOrState becomes the state of the edit subset, further selections are combined with it, then walks
MULTI_SECOND = [[k, m] for k in (1, 4, 2, 10) for m in ("or", "and", "xor", "andnot")]
MULTI_PATTERNS = ["u", "uur", "uurru", "uuurr"]
# empty family: every dataset is removed through commands, selections are applied to the empty collection, then walks that
# end with the datasets back in the collection
EMPTY_SEL = [[k, m] for k in (1, 4, 2, 10) for m in (None, "replace", "new", "or")]
# delayed family: 2-6 stack operations inside ONE hub.delay_callbacks() block while a subset group exists
DELAY_CMDS = [["add", "d2"], ["rem", "d1"], ["apply", 4, None], ["roi", 0], ["apply", 1, "new"]]
DELAY_PRE = ["", "u", "uu"]
DELAY_BLOCKS = ["rur", "uru", "ur", "rr", "uur", "ruru", "rruu", "rurur", "ururur"]
DELAY_SETUPS = ["one_group_edited", "two_groups_one_edited_and"]      # (set-ups, commands, patterns) used for 3-command prefixes
N_BOUND = {"quick": 24, "thorough": 96}
BLOCK = 20
EXHAUSTIVE = {"quick": False, "thorough": False}


def _streams(tier, seed):
    """One stream of case ids per enumerated (start, length-bound, alphabet) entry - shortest histories first, the
    blocks of the longest length in a seeded shuffle - plus the streams of random blocks and of past-the-bound runs."""
    import random
    rng = random.Random(1000 + seed)
    out = []
    for ei, (setup_name, L, alpha) in enumerate(ENUM[tier]):
        st = []
        for length in range(1, L + 1):
            if length <= 1:
                st.append(["enum", ei, length, []])
            else:
                block = [["enum", ei, length, list(p)] for p in itertools.product(range(len(alpha)), repeat=length - 1)]
                if length == L:
                    rng.shuffle(block)
                st.extend(block)
        out.append(st)
    out.append([["rand", i] for i in range(0, N_RANDOM[tier], BLOCK)])
    out.append([["bound", i] for i in range(N_BOUND[tier])])
    out.append([["walk", i] for i in range(0, N_WALK[tier], BLOCK)])
    out.append([["multi", si, mv, a] for si in range(2) for mv in range(2) for a in range(len(MULTI_SECOND))])
    out.append([["emptysel", si, a] for si in range(2) for a in range(len(EMPTY_SEL))])
    out.append([["delayed", si, a] for si in range(len(DELAY_SETUPS)) for a in range(len(DELAY_CMDS))])
    out.append([["wide", i] for i in range(0, N_WIDE[tier], BLOCK)])
    out.append([["walk2", si, a] for si in range(len(WALK_SETUPS)) for a in range(len(WALK_CMDS))])
    ns, nc, _ = WALK3[tier]
    out.append([["walk3", si, a, b] for si in range(ns) for a in range(nc) for b in range(nc)])
    return out


def cases(tier, seed):
    """Streams are merged in proportion to their size, so a run that is cut by the per-shard time cap has seen
    the same fraction of every stream."""
    streams = [s for s in _streams(tier, seed) if s]
    pos = [0] * len(streams)
    total = sum(len(s) for s in streams)
    # small families that a verdict needs (floors) advance ten times faster, so that even a run that the machine load cuts
    # to a tenth of the workload has completed them
    speed = [10.0 if s[0][0] in ('bound', 'walk2', 'walk3', 'multi', 'emptysel', 'delayed') else 1.0 for s in streams]
    for _ in range(total):
        k = min((i for i in range(len(streams)) if pos[i] < len(streams[i])), key=lambda i: (pos[i] / len(streams[i]) / speed[i], i))
        yield streams[k][pos[k]]
        pos[k] += 1


def random_history(rng):
    n = rng.randint(3, 30 if rng.random() < 0.4 else 10)
    names = ["d0", "d1", "d2", "e1"]
    modes = [None, None, None, "replace", "and", "or", "xor", "andnot", "new"]
    hist = []
    for _ in range(n):
        r = rng.random()
        if hist and hist[-1][0] == "undo" and rng.random() < 0.35:
            hist.append(["redo"])
        elif r < 0.12:
            hist.append(["add", rng.choice(names)])
        elif r < 0.24:
            hist.append(["rem", rng.choice(names)])
        elif r < 0.44:
            hist.append(["apply", rng.randrange(len(STATE_VARIANTS)), rng.choice(modes)])
        elif r < 0.52:
            hist.append(["roi", rng.randrange(len(ROIS))])
        elif r < 0.78:
            hist.append(["undo"])
        elif r < 0.90:
            hist.append(["redo"])
        elif r < 0.95:
            hist.append(["set_edit", [rng.randrange(3) for _ in range(rng.randint(0, 2))]])
        else:
            hist.append(["set_mode", rng.choice(["replace", "and", "or", "xor", "andnot", "new"])])
    return hist


def walk_history(rng):
    """do k commands (AddData/RemoveData mixed with selections), then walk the stack: undo j<=k, redo i<=j, undo again ...;
    sometimes a new command in between.  Every undo/redo on the way is compared."""
    names = ["d0", "d1", "d2", "e1"]
    modes = [None, None, None, "replace", "and", "or", "xor", "andnot", "new"]

    def command():
        r = rng.random()
        if r < 0.25:
            return ["add", rng.choice(names)]
        if r < 0.45:
            return ["rem", rng.choice(names)]
        if r < 0.8:
            return ["apply", rng.randrange(len(STATE_VARIANTS)), rng.choice(modes)]
        return ["roi", rng.randrange(len(ROIS))]
    k = rng.randint(2, 6)
    hist = [command() for _ in range(k)]
    depth, undone = k, 0
    for phase in range(rng.randint(3, 6)):
        if phase % 2 == 0:
            j = rng.randint(1, max(1, depth)) if rng.random() < 0.5 else depth
            hist += [["undo"]] * j
            depth, undone = max(0, depth - j), undone + j
        else:
            i = rng.randint(1, max(1, undone)) if rng.random() < 0.5 else undone
            hist += [["redo"]] * i
            depth, undone = depth + i, max(0, undone - i)
            if rng.random() < 0.15:
                hist.append(command())
                depth, undone = depth + 1, 0
    return hist


def wide_history(rng):
    """random / walk-shaped history with: an observer reading during updates, the same state object in several commands,
    commands whose do() raises followed by valid ones, degenerate and extreme regions (through the longer ROIS table)."""
    base = walk_history(rng) if rng.random() < 0.5 else random_history(rng)
    modes = [None, "replace", "and", "or", "xor", "andnot", "new"]
    out = [["observe"]] if rng.random() < 0.6 else []
    for tok in base:
        r = rng.random()
        if tok[0] == "apply" and r < 0.5:
            out.append(["apply_shared", rng.choice([0, 1, 2, 4]), rng.choice(modes)])
        elif tok[0] in ("apply", "roi", "add", "rem") and r > 0.85:
            out.append(["fault_do", rng.randrange(2)])
            out.append(tok)
        else:
            out.append(tok)
    if rng.random() < 0.5:
        # wrap a run of 2-6 consecutive stack operations into one delay block
        stackops = ("undo", "redo", "add", "rem", "apply", "roi")
        starts = [i for i in range(len(out) - 1) if out[i][0] in stackops and out[i + 1][0] in stackops]
        if starts:
            i = rng.choice(starts)
            j = i
            while j < len(out) and out[j][0] in stackops and j - i < rng.randint(2, 6):
                j += 1
            if j - i >= 2:
                out = out[:i] + [["delay", out[i:j]]] + out[j:]
    return out


def bound_history(rng):
    """More than MAX_UNDO commands, then undo until nothing is left (plus two more), with a redo/undo pair on the way."""
    n = MAX_UNDO + rng.choice([-1, 0, 1, 1, 2, 3, 6])      # just below, at and above the bound
    hist = []
    last = None
    fresh = ["e2", "e1"]
    for i in range(n):
        r = rng.random()
        if r < 0.8:
            sv = rng.randrange(len(STATE_VARIANTS))
            if sv == last:
                sv = (sv + 1) % len(STATE_VARIANTS)
            last = sv
            hist.append(["apply", sv, rng.choice([None, "replace", "or", "xor"])])
        elif r < 0.9 and len(fresh) > 0:
            hist.append(["add", fresh.pop()])
        else:
            hist.append(["roi", rng.randrange(len(ROIS))])
    k = rng.randint(1, 5)
    hist += [["undo"]] * k + [["redo"]] * rng.randint(0, k)
    hist += [["undo"]] * (n + 3)
    return hist


def run_case(ctx, case):
    if case[0] == "enum":
        _, ei, length, prefix = case
        setup_name, L, alpha = ENUM[ctx.tier][ei]
        for tail in itertools.product(range(len(alpha)), repeat=length - len(prefix)):
            hist = [alpha[k] for k in list(prefix) + list(tail)]
            run_history(ctx, setup_name, hist, "enumerated", use_app=(sum(prefix) + sum(tail)) % 2 == 1)
    elif case[0] == "walk":
        for _ in range(BLOCK):
            setup_name = ctx.rng.choice(sorted(SETUPS) + WALK_SETUPS)
            run_history(ctx, setup_name, walk_history(ctx.rng), "walk_random", use_app=ctx.rng.random() < 0.5)
    elif case[0] == "wide":
        for _ in range(BLOCK):
            setup_name = ctx.rng.choice(sorted(SETUPS) + WALK_SETUPS)
            run_history(ctx, setup_name, wide_history(ctx.rng), "wide_random", use_app=ctx.rng.random() < 0.5)
    elif case[0] == "multi":
        _, si, mv, a = case
        setup_name = ["one_group_edited", "two_groups_both_edited_or"][si]
        first = ["apply", MULTI_VARIANTS[mv], "replace"]
        k, m = MULTI_SECOND[a]
        for third in [None] + MULTI_SECOND[::3]:
            cmds = [first, ["apply", k, m]] + ([["apply", third[0], third[1]]] if third else [])
            for pat in MULTI_PATTERNS:
                hist = cmds + [["undo"] if c == "u" else ["redo"] for c in pat]
                run_history(ctx, setup_name, hist, "multi_or_enumerated", use_app=(a + len(pat)) % 2 == 1)
    elif case[0] == "delayed":
        _, si, a = case
        ur = {"u": ["undo"], "r": ["redo"]}
        for b in [None, 0, 1, 2]:
            cmds = [DELAY_CMDS[a]] + ([DELAY_CMDS[b]] if b is not None else [])
            for pre in DELAY_PRE:
                for blk in DELAY_BLOCKS:
                    hist = cmds + [ur[c] for c in pre] + [["delay", [ur[c] for c in blk]]] + [["undo"], ["redo"]]
                    run_history(ctx, DELAY_SETUPS[si], hist, "delay_block_enumerated", use_app=(a + len(blk)) % 2 == 1)
            # new commands inside the block as well
            for blk in (["D", "u"], ["D", "u", "r"], ["u", "D"], ["D", "D", "u", "u", "r"]):
                sub = []
                k = 0
                for c in blk:
                    if c == "D":
                        sub.append(DELAY_CMDS[(a + 1 + k) % len(DELAY_CMDS)])
                        k += 1
                    else:
                        sub.append(ur[c])
                hist = cmds + [["delay", sub], ["undo"], ["undo"], ["redo"]]
                run_history(ctx, DELAY_SETUPS[si], hist, "delay_block_enumerated", use_app=a % 2 == 1)
    elif case[0] == "emptysel":
        _, si, a = case
        setup_name = ["one_group_edited", "data_only"][si]
        k, m = EMPTY_SEL[a]
        for second in [None] + EMPTY_SEL[1::3]:
            sel = [["apply", k, m]] + ([["apply", second[0], second[1]] if second[0] != 4 else ["roi", 0]] if second else [])
            n = len(sel)
            for walk in ("u" * n + "r" * n + "u" * (n + 2), "u" * (n + 1) + "r" * (n + 1) + "u" * (n + 2), "u" + "r" + "u" * (n + 2)):
                hist = [["rem", "d0"], ["rem", "d1"]] + sel + [["undo"] if c == "u" else ["redo"] for c in walk]
                run_history(ctx, setup_name, hist, "empty_collection_enumerated", use_app=(a + n) % 2 == 1)
    elif case[0] == "walk2":
        _, si, a = case
        for b in range(len(WALK_CMDS)):
            for pat in WALK_P2:
                hist = [WALK_CMDS[a], WALK_CMDS[b]] + [["undo"] if c == "u" else ["redo"] for c in pat]
                run_history(ctx, WALK_SETUPS[si], hist, "walk_enumerated", use_app=(a + b) % 2 == 1)
    elif case[0] == "walk3":
        _, si, a, b = case
        ns, nc, npat = WALK3[ctx.tier]
        for c3 in range(nc):
            for pat in WALK_P3[:npat]:
                hist = [WALK_CMDS[a], WALK_CMDS[b], WALK_CMDS[c3]] + [["undo"] if c == "u" else ["redo"] for c in pat]
                run_history(ctx, WALK_SETUPS[si], hist, "walk_enumerated", use_app=(a + b + c3) % 2 == 1)
    elif case[0] == "rand":
        for _ in range(BLOCK):
            setup_name = ctx.rng.choice(sorted(SETUPS))
            run_history(ctx, setup_name, random_history(ctx.rng), "random", use_app=ctx.rng.random() < 0.5)
    else:
        if MAX_UNDO > 200:
            ctx.count("bound_not_exercised_max_undo_too_large")
            ctx.evaluation(None, False)
            return
        setup_name = ctx.rng.choice(["one_group_edited", "two_groups_one_edited_and", "two_groups_both_edited_or"])
        w = run_history(ctx, setup_name, bound_history(ctx.rng), "past_the_bound", use_app=ctx.rng.random() < 0.5)
        if "stack_at_bound" in w.flags:
            ctx.count("histories_that_filled_the_undo_history")


def floors(counters, tier):
    out = []
    need = {"compared_undo": 1500, "compared_redo": 250, "compared_undo_AddData": 250, "compared_undo_RemoveData": 350,
            "compared_undo_ApplySubsetState": 700, "compared_undo_ApplyROI": 250, "compared_redo_ApplySubsetState": 100,
            "compared_undo_of_group_creating_command": 150, "histories_with_undo_depth_ge_2": 120,
            "histories_with_redo_after_undo": 200, "histories_that_filled_the_undo_history": 3, "histories_enumerated": 4000,
            "histories_random": 400, "stack_model_comparisons": 15000, "dataset_order_compared": 1500,
            "histories_walk_enumerated": 400, "histories_walk_random": 120, "compared_undo_of_redone_command": 500,
            "compared_undo_of_redone_selection_command": 200,
            # adversarial widening round
            "histories_wide_random": 120, "histories_with_observer_reading_during_updates": 60, "reads_during_broadcast": 500,
            "reads_in_stack_callback": 300, "histories_with_shared_state_object": 50, "histories_with_failing_command": 50,
            "failing_do_raised": 60,
            # third round: reference-holding states under combining modes; selections on an empty collection
            "histories_multi_or_enumerated": 300, "histories_empty_collection_enumerated": 150,
            "histories_with_selection_on_empty_collection": 300, "selection_applied_to_empty_collection": 400,
            # fourth round: stack operations inside one delay block
            "histories_delay_block_enumerated": 400, "delay_blocks_run": 500, "compared_after_delay_block": 300,
            "compared_after_delay_block_ending_in_redo": 80, "compared_after_delay_block_ending_in_undo": 80,
            "compared_after_delay_block_moving_datasets_with_groups_present": 60}
    # the thorough tier demands what the quick tier demands: on a machine loaded by other checks its time cap may leave it
    # little more work than quick
    for k, v in need.items():
        if counters.get(k, 0) < v:
            out.append("fewer than %d %s (%d)" % (v, k, counters.get(k, 0)))
    return out
