"""C06 - every dataset in a collection carries exactly one subset per subset group.

Shape: invariant at a quiescent point.  A *history* (JSON token list over
append / remove / re-append / extend / dc[label]=data / new group / remove
group / set state, label, style / merge / clear / AddData, RemoveData,
ApplySubsetState through the command stack / undo / redo / save+restore of the
application and continue on the restored collection) is executed one public call
at a time against the real DataCollection.  After every call returns (no delay
block open, no broadcast in flight: a quiescent point) the statement is
evaluated literally by `lib_C06_world.check_structure` using public attributes
only, and the membership of datasets and groups is compared with a set-based
model kept by the harness.  An icontract class invariant on DataCollection is a
second, independently written formulation that is also evaluated at the inner
quiescent points (every public DataCollection method entry/exit while the
harness is inside a step).  A history stops at its first violation.
"""
import gc
import itertools
import json
import os

from glue.core import Data, DataCollection
from glue.core import command as gcmd
from glue.core.application_base import Application
from glue.core.hub import Hub, HubListener
from glue.core.message import (DataCollectionAddMessage, DataCollectionDeleteMessage, SubsetCreateMessage,
                               SubsetDeleteMessage)
from glue.core.state import GlueSerializer, GlueUnSerializer

from vf.common import exc_name
from vf.lib_C06_world import (MODES, STATE_VARIANTS, STYLE_VARIANTS, Names, apply_style, build_state,
                              check_structure, fresh_data, is_in, raised_below_harness)

ID = "C06"
LEVEL = "exploration"
BUDGET_S = {"quick": 30.0, "thorough": 480.0}
RULE = ("cases are histories over {append, remove, re-append, extend, dc[label]=same data, append of a new dataset, new group, "
        "remove group, set group state/label/style, merge, clear, AddData/RemoveData/ApplySubsetState via the command stack, undo, "
        "redo, set edit subset / mode, save+restore and continue on the restored collection} on 3(+) datasets and up to 3 groups; "
        "all histories up to a length bound over a 20-token alphabet from two start states are enumerated, plus random histories "
        "up to length 40. The invariant is evaluated after every step. A history is non-trivial when at some quiescent point a "
        "dataset and a group coexisted and at least two steps changed the collection; distinct = distinct (start, history) fingerprints.")
ASSUMPTIONS = ["a quiescent point is the return of a top-level public call made by the harness (glue is single-threaded and the "
               "harness opens no delay block itself)",
               "the workload never creates ungrouped subsets, so 'and no others' is checked literally",
               "membership of datasets/groups is compared with a list-based model: append/remove/merge/clear/commands change the "
               "collection as documented; ApplySubsetState may create at most one group per do/redo",
               "a dataset taken out of the collection must carry no subset of a live group (reading of 'keep no live membership'); "
               "subsets that a removed group still lists but that are attached to no dataset are not flagged",
               "undo/redo on an empty stack raising IndexError is the documented behaviour"]
ANCHORS = ["glue.core.subset_group:SubsetGroup.register", "glue.core.subset_group:SubsetGroup._add_data",
           "glue.core.subset_group:SubsetGroup._remove_data", "glue.core.data_collection:DataCollection.new_subset_group",
           "glue.core.data_collection:DataCollection.remove_subset_group", "glue.core.data_collection:DataCollection.append",
           "glue.core.data_collection:DataCollection.remove", "glue.core.data_collection:DataCollection.merge",
           "glue.core.command:ApplySubsetState.undo", "glue.core.subset:Subset.delete"]


class Stop(Exception):
    """First violation of a history was reported; the history ends."""


# ---------------------------------------------------------------- second formulation: icontract invariant
_IC = {"armed": False, "delay_depth": 0, "broadcast_depth": 0, "evaluations": 0, "installed": False, "error": None}


def _one_subset_per_group(self):
    """Every dataset in the collection has exactly one subset per live group and no others."""
    if not _IC["armed"] or _IC["delay_depth"] > 0 or _IC["broadcast_depth"] > 0:
        return True
    _IC["evaluations"] += 1
    groups = self.subset_groups
    for d in self.data:
        mine = [getattr(s, "group", None) for s in d.subsets]
        if len(mine) != len(groups):
            return False
        for g in groups:
            if sum(1 for m in mine if m is g) != 1:
                return False
    return True


def install_icontract():
    if _IC["installed"]:
        return
    _IC["installed"] = True
    try:
        import contextlib
        import icontract

        orig_delay = Hub.delay_callbacks

        @contextlib.contextmanager
        def delay_callbacks(self):
            _IC["delay_depth"] += 1
            try:
                with orig_delay(self):
                    yield
            finally:
                _IC["delay_depth"] -= 1
        Hub.delay_callbacks = delay_callbacks
        orig_broadcast = Hub.broadcast

        def broadcast(self, message):
            _IC["broadcast_depth"] += 1
            try:
                return orig_broadcast(self, message)
            finally:
                _IC["broadcast_depth"] -= 1
        Hub.broadcast = broadcast
        icontract.invariant(_one_subset_per_group, "one subset per (dataset, group)")(DataCollection)
    except Exception as exc:   # evidence only; the quiescent-point check does not depend on it
        _IC["error"] = repr(exc)


def setup(ctx):
    install_icontract()
    if _IC["error"]:
        ctx.count("icontract_unavailable")


def finish(ctx):
    ctx.count("icontract_invariant_evaluations", _IC["evaluations"])


# ---------------------------------------------------------------- re-entrant hub listener (harness-owned)
class Reactor(HubListener):
    """Subscribed to the collection's hub.  While a change message is being delivered it (a) reads the collection
    through the public API (never a verdict: mid-broadcast states are not quiescent) and (b) fires at most one pending
    one-shot reaction that calls back into the collection."""

    def __init__(self, world):
        self.w = world
        self.pending = []        # reaction kinds waiting for their trigger message
        self.reading = False
        self.serial = world.serial
        hub = world.dc.hub
        hub.subscribe(self, DataCollectionAddMessage, self.on_add)
        hub.subscribe(self, DataCollectionDeleteMessage, self.on_del)
        hub.subscribe(self, SubsetCreateMessage, self.on_subset)
        hub.subscribe(self, SubsetDeleteMessage, self.on_subset)

    def read(self):
        if not self.reading:
            return
        n = 0
        dc = self.w.dc
        for d in dc:
            for sub in d.subsets:
                n += 1 if (sub.label, sub.subset_state, sub.style) else 1
        for g in dc.subset_groups:
            n += len(g.subsets)
        self.w.ctx.count("reads_during_broadcast")

    def on_subset(self, msg):
        self.read()

    def take(self, kinds):
        if self.w.fired is not None:        # at most one reaction per top-level step: one mechanism per signature
            return None
        if getattr(self.w, "_cur", {}).get("op") == "delay":
            # the message is being delivered by the flush of a delay block: other messages of the block are still queued, so a
            # handler that changes the collection now acts on objects whose own announcement is still pending - the same
            # family as acting on the subject of the message in flight (outside C06's quantifier, see notes/C06.md)
            if any(k in kinds for k in self.pending):
                self.w.ctx.count("reaction_not_fired_during_delay_block_flush")
            return None
        for k in self.pending:
            if k in kinds:
                self.pending.remove(k)
                return k
        return None

    def on_add(self, msg):
        self.read()
        w = self.w
        k = self.take(("new_group", "remove_other", "remove_group_other", "remove_same"))
        if k is None:
            return
        w.fired = k
        w.ctx.count("reaction_fired_" + k)
        name = w.names.of(msg.data)
        if k == "new_group":
            w.step(["new_group", 5], nested=True)
        elif k == "remove_other":
            others = [n for n in w.m_in if n != name]
            if others:
                w.step(["remove", others[0]], nested=True)
        elif k == "remove_group_other":
            w.step(["remove_group", 0], nested=True)
        elif k == "remove_same":
            # inverse operation on the dataset whose addition is being announced
            w.dc.remove(msg.data)

    def on_del(self, msg):
        self.read()
        w = self.w
        k = self.take(("append_other", "readd_same"))
        if k is None:
            return
        w.fired = k
        w.ctx.count("reaction_fired_" + k)
        if k == "append_other":
            w.step(["append_new"], nested=True)
        else:
            w.dc.append(msg.data)


# the last three re-enter with an operation on the very subject of the message in flight (or on a group that is among its
# recipients); see notes/C06.md - set REENTRANT_ON_SUBJECT = False to keep them out of the workload
REENTRANT_ON_SUBJECT = False   # decided: a handler that removes / re-adds the very object the in-flight message is about is outside C06's quantifier (histories of collection operations); kept out of the workload, not judged
REACTIONS = ["read", "new_group", "remove_other", "append_other", "remove_group_other", "remove_same", "readd_same"]
FAULTS = ["append_non_data", "merge_single", "merge_shape", "setitem_nonstring_key", "extend_none", "getitem_missing"]


# ---------------------------------------------------------------- the world
class World:
    def __init__(self, ctx, shared=None):
        self.ctx = ctx
        self.shared = shared if shared is not None else {"states": {}}
        self.reactor = None
        self.fired = None
        self.post_model = []
        self.wid = "main"
        self.names = Names()
        self.pool = {}
        self.cids = {}
        self.dc = DataCollection()
        self.app = Application(data_collection=self.dc)
        # model
        self.m_in = []            # names of datasets in the collection
        self.groups = []          # live group objects in creation order (model)
        self.removed_groups = []  # (group, len(subsets) at removal)
        self.removed_data = []    # dataset objects taken out of the collection
        self.m_done = []          # model of the command stack: dicts
        self.m_undone = []
        self.serial = 0           # step counter
        self.join_serial = {}     # dataset name -> serial of the step at which it last joined the collection
        self.group_serial = []    # (group, serial of the step that created it); objects kept alive, looked up by identity
        self.ever_removed = set()
        self.n_extra = 0
        self.n_merged = 0
        self.n_group = 0
        self.flags = set()
        self.changes = 0
        self.coexisted = False
        self.checks = 0

    def _new_pool_data(self, name):
        d = Data(label=name) if name.startswith("z") else fresh_data(name)      # z<k>: a dataset without components
        self.pool[name] = d
        self.names.add(d, name)
        for c in d.main_components:
            self.cids[c.label] = c
        return d

    def data(self, name):
        """Pool dataset by name; base and extra datasets are created on first use."""
        d = self.pool.get(name)
        if d is None:
            d = self._new_pool_data(name)
        return d

    def cid(self, label):
        """ComponentID object created under this label (merge may rename labels in place, so objects are remembered)."""
        if label not in self.cids:
            d = self.data(label.split("_")[0])
            if label not in self.cids:      # restored dataset whose components were renamed by an earlier merge
                return d.main_components[0]
        return self.cids[label]

    @property
    def mode(self):
        return self.app.session.edit_subset_mode

    @property
    def stack(self):
        return self.app.session.command_stack

    # ---- model bookkeeping
    def _m_append(self, name):
        if name not in self.m_in:
            self.m_in.append(name)
            self.changes += 1
            self.join_serial[name] = self.serial
            if name in self.ever_removed:
                self.flags.add("remove_then_reappend")
            d = self.pool[name]
            self.removed_data = [x for x in self.removed_data if x is not d]

    def _m_remove(self, name):
        if name in self.m_in:
            self.m_in.remove(name)
            self.changes += 1
            self.ever_removed.add(name)
            self.removed_data.append(self.pool[name])

    def live_group(self, gi):
        if not self.groups:
            return None
        return self.groups[gi % len(self.groups)]

    # ---- steps
    def stack_names(self):
        return set(e.get("name") for e in self.m_done + self.m_undone)

    def step(self, tok, nested=False):
        """Execute one token against real glue.  Returns (status, info) ; raises Stop after reporting a violation.
        nested=True: called from inside a delay block or from a re-entrant handler (the outer step owns the context)."""
        self.serial += 1
        op = tok[0]
        info = {"op": op, "cmd": None}
        if not nested:
            self._cur = info
            self.fired = None
            _IC["armed"] = True
        dc = self.dc
        may_create_group = False
        may_drop_groups = []
        try:
            if op == "delay":
                # several public calls inside one hub.delay_callbacks() block; the quiescent point is the end of the block
                info["block_start"] = self.serial
                self.flags.add("delay_block")
                with dc.hub.delay_callbacks():
                    for sub in tok[1]:
                        st, _ = self.step(sub, nested=True)
                        self.ctx.count("delay_block_steps_" + ("skipped" if st == "skipped" else sub[0]))
            elif op == "react":
                kind = REACTIONS[tok[1] % (len(REACTIONS) if REENTRANT_ON_SUBJECT else 4)]
                if self.reactor is None:
                    self.reactor = Reactor(self)
                if kind == "read":
                    self.reactor.reading = True
                else:
                    self.reactor.pending.append(kind)
                self.flags.add("reentrant_listener")
            elif op == "fault":
                kind = FAULTS[tok[1] % len(FAULTS)]
                expected = {"append_non_data": TypeError, "merge_single": ValueError, "merge_shape": ValueError,
                            "setitem_nonstring_key": TypeError, "extend_none": TypeError, "getitem_missing": ValueError}[kind]
                try:
                    if kind == "append_non_data":
                        dc.append(object())
                    elif kind == "merge_single":
                        dc.merge(self.data("d0"))
                    elif kind == "merge_shape":
                        dc.merge(self.data("d0"), self.data("d2"))
                    elif kind == "setitem_nonstring_key":
                        dc[3] = self.data("d1")
                    elif kind == "extend_none":
                        dc.extend(None)
                    elif kind == "getitem_missing":
                        dc["no such label"]
                    self.ctx.count("fault_call_did_not_raise")
                except expected:
                    self.ctx.count("fault_call_raised_as_documented")
                self.flags.add("fault_call")
            elif op == "append_empty":
                self.n_empty = getattr(self, "n_empty", 0) + 1
                name = "z%d" % self.n_empty
                dc.append(self.data(name))
                self._m_append(name)
                self.flags.add("empty_dataset")
            elif op == "fill_empty":
                name = "z%d" % getattr(self, "n_empty", 0)
                d = self.pool.get(name)
                if d is None or len(d.main_components) > 0:
                    return "skipped", info
                d.add_component([1.0, 2.0, 3.0, 4.0], name + "_x")
            elif op == "append_prereg":
                self.n_extra += 1
                name = "e%d" % self.n_extra
                d = self.data(name)
                d.register_to_hub(dc.hub)        # hub already set before the dataset ever joins
                dc.append(d)
                self._m_append(name)
                self.flags.add("preregistered_dataset")
            elif op == "extend_dup":
                d = self.data(tok[1])
                dc.extend([d, d])                # the same object twice
                self._m_append(tok[1])
            elif op == "extend_empty":
                dc.extend([])
                dc.append([])
            elif op == "setitem_replace":
                name = tok[1]
                if name not in self.m_in or name in self.stack_names() or name.startswith("m"):
                    return "skipped", info
                old = self.pool[name]
                self._m_remove(name)
                twin = self._new_pool_data(name)     # equal content, same label, distinct object
                dc[name] = twin
                self._m_append(name)
                self.removed_data = [x for x in self.removed_data if x is not twin]
                if not is_in(old, self.removed_data):
                    self.removed_data.append(old)
                self.flags.add("replaced_by_twin")
            elif op == "remove_group_again":
                if not self.removed_groups:
                    g = self.live_group(tok[1])
                    if g is None:
                        return "skipped", info
                    n = len(g.subsets)
                    dc.remove_subset_group(g)
                    self.groups = [x for x in self.groups if x is not g]
                    self.removed_groups.append((g, n))
                    self.changes += 1
                g, _ = self.removed_groups[tok[1] % len(self.removed_groups)]
                dc.remove_subset_group(g)            # the same removal a second time
                self.flags.add("remove_group_twice")
            elif op == "new_group_falsy":
                # falsy label / default state: the collection hands out the automatic label
                lab = [None, ""][tok[1] % 2]
                g = dc.new_subset_group(label=lab) if tok[1] % 4 < 2 else dc.new_subset_group(lab, None)
                self.groups.append(g)
                self.group_serial.append((g, self.serial))
                self.changes += 1
            elif op == "set_state_shared":
                g = self.live_group(tok[1])
                if g is None:
                    return "skipped", info
                k = tok[2] % len(STATE_VARIANTS)
                key = k if k in (1, 5, 6, 9) else (self.wid, k)     # attribute-free states are shared across collections too
                if key not in self.shared["states"]:
                    self.shared["states"][key] = build_state(STATE_VARIANTS[k], self.cid)
                g.subset_state = self.shared["states"][key]       # the same state object in several groups
                self.flags.add("shared_state_object")
            elif op == "forget":
                # drop every harness reference to removed datasets / groups and collect: addresses may be reused
                busy = self.stack_names()
                d = None
                for d in list(self.removed_data):
                    n = self.names.of(d)
                    if n in busy or n in self.m_in:
                        continue
                    self.removed_data = [x for x in self.removed_data if x is not d]
                    if self.pool.get(n) is d:
                        del self.pool[n]
                    self.names.drop(d)
                    for lbl in [l for l, c in self.cids.items() if c.parent is d]:
                        del self.cids[lbl]
                    self.ever_removed.discard(n)
                del d
                if not self.m_done and not self.m_undone:
                    dead = [g for g, _ in self.removed_groups]
                    self.removed_groups = []
                    self.group_serial = [(g, n) for g, n in self.group_serial if not is_in(g, dead)]
                    del dead
                gc.collect()
                self.flags.add("forget_and_collect")
            elif op == "append":
                dc.append(self.data(tok[1]))
                self._m_append(tok[1])
            elif op == "extend":
                dc.extend([self.data(n) for n in tok[1]])
                for n in tok[1]:
                    self._m_append(n)
            elif op == "append_new":
                self.n_extra += 1
                name = "e%d" % self.n_extra
                dc.append(self.data(name))
                self._m_append(name)
            elif op == "remove":
                dc.remove(self.data(tok[1]))
                self._m_remove(tok[1])
            elif op == "setitem_same":
                name = tok[1]
                if name not in self.m_in:
                    return "skipped", info
                dc[name] = self.data(name)      # removes the dataset with that label, then appends the given one
                self._m_remove(name)
                self._m_append(name)
            elif op == "clear":
                dc.clear()
                for n in list(self.m_in):
                    self._m_remove(n)
                self.flags.add("clear")
            elif op == "merge":
                a, b = tok[1], tok[2]
                if a not in self.m_in or b not in self.m_in or a == b or self.pool[a].shape != self.pool[b].shape:
                    return "skipped", info
                if set(map(id, self.pool[a].main_components)) & set(map(id, self.pool[b].main_components)):
                    self.ctx.count("merge_of_datasets_sharing_components_not_generated")
                    return "skipped", info
                self.n_merged += 1
                name = "m%d" % self.n_merged
                master = dc.merge(self.pool[a], self.pool[b], label=name)
                self.pool[name] = master
                self.names.add(master, name)
                self.m_in.append(name)
                self.join_serial[name] = self.serial
                self._m_remove(a)
                self._m_remove(b)
                self.flags.add("merge")
            elif op == "new_group":
                self.n_group += 1
                st = build_state(STATE_VARIANTS[tok[1] % len(STATE_VARIANTS)], self.cid)
                g = dc.new_subset_group(label="g%d" % self.n_group, subset_state=st)
                self.groups.append(g)
                self.group_serial.append((g, self.serial))
                self.changes += 1
            elif op == "remove_group":
                g = self.live_group(tok[1])
                if g is None:
                    return "skipped", info
                n = len(g.subsets)
                dc.remove_subset_group(g)
                self.groups = [x for x in self.groups if x is not g]
                self.removed_groups.append((g, n))
                self.changes += 1
                self.flags.add("remove_group")
            elif op == "set_state":
                g = self.live_group(tok[1])
                if g is None:
                    return "skipped", info
                g.subset_state = build_state(STATE_VARIANTS[tok[2] % len(STATE_VARIANTS)], self.cid)
            elif op == "set_label":
                g = self.live_group(tok[1])
                if g is None:
                    return "skipped", info
                g.label = "%s_v%d" % (g.label.split("_v")[0], tok[2])
            elif op == "set_style":
                g = self.live_group(tok[1])
                if g is None:
                    return "skipped", info
                apply_style(g, STYLE_VARIANTS[tok[2] % len(STYLE_VARIANTS)])
            elif op == "set_edit":
                sel = []
                for gi in tok[1]:
                    g = self.live_group(gi)
                    if g is not None and not is_in(g, sel):
                        sel.append(g)
                self.mode.edit_subset = sel
            elif op == "set_mode":
                self.mode.mode = MODES[tok[1]]
            elif op in ("cmd_add", "cmd_remove"):
                name = tok[1]
                cls = gcmd.AddData if op == "cmd_add" else gcmd.RemoveData
                info["cmd"] = cls.__name__
                self.app.do(cls(data=self.data(name)))
                self.m_done.append({"cmd": cls.__name__, "name": name, "serial": self.serial, "created_group": False})
                self.m_done = self.m_done[-gcmd.MAX_UNDO:]
                self.m_undone = []
                (self._m_append if op == "cmd_add" else self._m_remove)(name)
                self.flags.add("command")
            elif op == "cmd_apply":
                info["cmd"] = "ApplySubsetState"
                st = build_state(STATE_VARIANTS[tok[1] % len(STATE_VARIANTS)], self.cid)
                kw = {}
                if tok[2] is not None:
                    kw["override_mode"] = MODES[tok[2]]
                n_before = len(dc.subset_groups)
                may_create_group = True
                self.app.do(gcmd.ApplySubsetState(data_collection=dc, subset_state=st, **kw))
                created = len(dc.subset_groups) > n_before
                self.m_done.append({"cmd": "ApplySubsetState", "serial": self.serial, "created_group": created,
                                    "group": dc.subset_groups[-1] if created else None})
                self.m_done = self.m_done[-gcmd.MAX_UNDO:]
                self.m_undone = []
                self.flags.add("command")
                self.flags.add("apply")
            elif op in ("undo", "redo"):
                src, dst = (self.m_done, self.m_undone) if op == "undo" else (self.m_undone, self.m_done)
                if not src:
                    try:
                        (self.stack.undo if op == "undo" else self.stack.redo)()
                    except IndexError:
                        self.ctx.count("empty_stack_indexerror_as_documented")
                        return "skipped", info
                    self.fail("undo_or_redo_possible_on_empty_model_stack", {"which": op}, {})
                ent = src[-1]
                info["cmd"] = ent["cmd"]
                info["ent"] = ent
                n_before = len(dc.subset_groups)
                if ent["cmd"] == "ApplySubsetState":
                    may_create_group = (op == "redo")
                    if op == "undo" and ent["created_group"]:
                        # the group this command created (recorded at do / redo), wherever it now sits
                        g = ent.get("group")
                        may_drop_groups = [g] if g is not None and g in dc.subset_groups else list(dc.subset_groups)[-1:]
                (self.app.undo if op == "undo" else self.app.redo)()
                src.pop()
                dst.append(ent)
                if ent["cmd"] in ("AddData", "RemoveData"):
                    adds = (ent["cmd"] == "AddData") == (op == "redo")
                    (self._m_append if adds else self._m_remove)(ent["name"])
                elif op == "redo":
                    ent["created_group"] = len(dc.subset_groups) > n_before
                    ent["group"] = dc.subset_groups[-1] if ent["created_group"] else None
                    ent["serial"] = self.serial
                self.flags.add(op)
                if op == "redo":
                    self.flags.add("redo_after_undo")
            elif op == "restore":
                try:
                    self.restore(tok[1])
                except Stop:
                    raise
                except Exception as exc:
                    if not raised_below_harness(exc):
                        raise
                    # a session that refuses to save / load is a loud failure (C02 / C12 territory), not a state of the
                    # collection that C06 could judge: tallied, the history ends here
                    self.ctx.count("restore_failed_loudly_" + exc_name(exc))
                    self.flags.discard("restore")
                    raise Stop()
                self.reactor = None          # the restored collection has its own hub
                return "ok", info
            else:
                raise ValueError(tok)
        except Stop:
            raise
        except Exception as exc:
            _IC["armed"] = False
            if not raised_below_harness(exc):
                raise
            if type(exc).__name__ == "ViolationError":
                # the second formulation fired at an inner quiescent point (entry/exit of a public DataCollection
                # method); the literal check decides what is reported if it sees the state as well
                self.check(only_structure=True, extra={"icontract": str(exc)[:200]})
                self.fail("icontract_invariant_violated_inside_step", {}, {"message": str(exc)[:300]})
            import traceback
            self.fail("exception", {"exc": exc_name(exc)}, {"message": repr(exc)[:300], "traceback": traceback.format_exc()[-1500:]})
        finally:
            if not nested:
                _IC["armed"] = False
                if self.reactor is not None and op != "react":
                    self.reactor.pending = []       # a pending reaction gets exactly one top-level step to fire in
        if not nested and self.fired is not None:
            # a handler called back into the collection while this step was running: the order in which the membership
            # model was updated no longer mirrors glue's; membership is bookkeeping (the invariant is evaluated on the real
            # collection), so the model is re-synchronised from the public listing
            self.post_model = []
            real = [self.names.of(d) for d in dc]
            for n in self.m_in:
                if n not in real:
                    self.ever_removed.add(n)
                    if n in self.pool and not is_in(self.pool[n], self.removed_data):
                        self.removed_data.append(self.pool[n])
            for n in real:
                if n not in self.m_in:
                    self.join_serial[n] = self.serial
            self.removed_data = [x for x in self.removed_data if not is_in(x, list(dc))]
            self.m_in = real
            self.ctx.count("membership_model_resynchronised_after_reentrant_step")
        # adopt groups created by commands; note groups that a command was entitled to remove
        real_groups = list(dc.subset_groups)
        new = [g for g in real_groups if not is_in(g, self.groups)]
        if new:
            if may_create_group and len(new) == 1:
                self.groups.append(new[0])
                self.group_serial.append((new[0], self.serial))
                self.changes += 1
                info["created_group"] = True
                self.flags.add("command_created_group")
        for g in may_drop_groups:
            if not is_in(g, real_groups):
                self.groups = [x for x in self.groups if x is not g]
                self.removed_groups.append((g, len(g.subsets)))
        return "ok", info

    def pool_label(self, name):
        return name

    # ---- restore
    def restore(self, how):
        self.flags.add("restore")
        _IC["armed"] = False     # a collection under construction by the loader is not at a quiescent point
        work = os.environ.get("VERIF_WORK")
        if how == "file" and work:
            path = os.path.join(work, "c06_%d.glu" % os.getpid())
            try:
                self.app.save_session(path, include_data=True)
                app2 = Application.restore_session(path)
            finally:
                if os.path.exists(path):
                    os.remove(path)
        else:
            dump = GlueSerializer(self.app, include_data=True).dumps()
            if how in ("v3", "v2"):
                # the same record read through the loader chain of an older DataCollection protocol (no links in this
                # workload, so the record is also a valid v3 / v2 record); v2 ignores subset_group_count
                rec = json.loads(dump)
                for v in rec.values():
                    if isinstance(v, dict) and str(v.get("_type", "")).endswith("data_collection.DataCollection"):
                        v["_protocol"] = int(how[1])
                        self.ctx.count("restore_through_protocol_" + how)
                dump = json.dumps(rec)
            app2 = GlueUnSerializer.loads(dump).object("__main__")
        old_labels = [g.label for g in self.groups]
        order = [self.names.of(d) for d in self.dc]
        self.app = app2
        self.dc = app2.data_collection
        self.names = Names()
        pool = {}
        self.cids = {}
        for pos, d in enumerate(self.dc):
            # datasets are matched by position (two datasets may carry the same label after dc[label] = twin)
            name = order[pos] if len(order) == len(self.dc) and not order[pos].startswith("<") else d.label
            pool.setdefault(name, d)
            self.names.add(d, name)
            if not name.startswith("m"):
                for c in d.main_components:
                    self.cids[c.label] = c
        self.pool = pool      # datasets that were not in the saved collection are built anew on first use
        got = [d.label for d in self.dc]
        if sorted(got) != sorted(self.pool_label(n) for n in self.m_in):
            self.fail("restored_collection_has_other_datasets", {}, {"expected": self.m_in, "got": got})
        self.m_in = [self.names.of(d) for d in self.dc]
        rg = list(self.dc.subset_groups)
        if sorted(g.label for g in rg) != sorted(old_labels):
            self.fail("restored_collection_has_other_groups", {"count_differs": len(rg) != len(old_labels)},
                      {"expected": old_labels, "got": [g.label for g in rg]})
        self.groups = rg
        self.removed_groups = []
        self.removed_data = []
        self.ever_removed = set()
        self.m_done, self.m_undone = [], []
        self.changes += 1

    # ---- checking
    def fail(self, kind, keys, detail):
        info = getattr(self, "_cur", {"op": None, "cmd": None})
        sig = {"kind": kind, "step": info.get("op"), "cmd": info.get("cmd"), "after_restore": "restore" in self.flags}
        ent = info.get("ent")
        d = keys.pop("_dataset", None)
        g = keys.pop("_group", None)
        if ent is not None and ent["cmd"] == "ApplySubsetState":
            own = g is not None and g is ent.get("group")
            sig["concerns_group_created_by_cmd"] = own
            if d is not None and not own:
                # did the (dataset, group) pair come into being after the command ran?
                sig["pair_formed_since_cmd"] = (self.join_serial.get(self.names.of(d), -1) > ent["serial"] or
                                                (g is not None and max([n for x, n in self.group_serial if x is g] or [-1]) > ent["serial"]))
        elif d is not None:
            sig["dataset_was_removed_and_readded"] = self.names.of(d) in self.ever_removed
        if self.fired is not None:
            sig["reentrant_reaction"] = self.fired
            if g is not None and self.reactor is not None:
                sig["listener_subscribed_before_group"] = self.reactor.serial < max([n for x, n in self.group_serial if x is g] or [-1])
        if info.get("op") == "delay" and d is not None and g is not None:
            bs = info.get("block_start", 0)
            js = self.join_serial.get(self.names.of(d), -1)
            gs = max([n for x, n in self.group_serial if x is g] or [-1])
            sig["dataset_joined_then_group_created_in_this_block"] = bs < js < gs
        if self.wid != "main":
            sig["second_collection"] = True
        sig.update(keys)
        detail = dict(detail)
        detail["history_so_far"] = list(self.executed)
        detail["collection"] = [self.names.of(x) for x in self.dc]
        detail["subsets"] = {self.names.of(x): [getattr(s, "label", "?") for s in x.subsets] for x in self.dc}
        detail["groups"] = [(g.label, [self.names.of(s.data) for s in g.subsets]) for g in self.dc.subset_groups]
        self.ctx.violation(sig, detail)
        raise Stop()

    def check(self, only_structure=False, extra=None):
        self.checks += 1
        ctx = self.ctx
        dc = self.dc
        bad = check_structure(dc, self.names, self.removed_data, self.removed_groups)
        if bad:
            kind, keys, detail = bad[0]
            if extra:
                detail = dict(detail, **extra)
            if kind in ("missing_subset_of_group", "group_lists_wrong_number_of_subsets_for_dataset", "group_lists_detached_subset"):
                g = keys.get("_group")
                attached = sum(1 for d in dc for s in d.subsets if getattr(s, "group", None) is g)
                detail = dict(detail, group_members_attached=attached)
            detail = dict(detail)
            detail["all"] = [(k, {a: b for a, b in kk.items() if not a.startswith("_")}, dict(dd)) for k, kk, dd in bad[:8]]
            self.fail(kind, dict(keys), detail)
        if only_structure:
            return
        real_in = [self.names.of(d) for d in dc]
        if sorted(real_in) != sorted(self.m_in):
            self.fail("collection_membership_differs_from_model", {}, {"model": self.m_in, "real": real_in})
        rg = list(dc.subset_groups)
        if len(rg) != len(self.groups) or any(not is_in(g, rg) for g in self.groups):
            self.fail("live_groups_differ_from_model", {"real_minus_model": max(-2, min(2, len(rg) - len(self.groups)))},
                      {"model": [g.label for g in self.groups], "real": [g.label for g in rg]})
        cu, cr = self.stack.can_undo_redo()
        if (cu, cr) != (bool(self.m_done), bool(self.m_undone)):
            self.fail("command_stack_differs_from_model", {"can_undo": cu, "can_redo": cr}, {"model": [len(self.m_done), len(self.m_undone)]})
        if rg and len(dc) > 0:
            self.coexisted = True
        ctx.count("quiescent_point_checks")
        ctx.count("dataset_group_pairs_checked", len(rg) * len(real_in))


# ---------------------------------------------------------------- running a history
STARTS = {
    "empty": [],
    "two_data_one_group": [["extend", ["d0", "d1"]], ["new_group", 0]],
    "three_data_two_groups": [["extend", ["d0", "d1", "d2"]], ["new_group", 3], ["new_group", 1], ["set_edit", [1]]],
}


def run_history(ctx, start, hist, kind):
    shared = {"states": {}}
    w = World(ctx, shared)
    w.executed = []
    sib = None
    try:
        for tok in STARTS[start]:
            w.executed.append(tok)
            w.step(tok)
            w.check()
        w.changes = 0
        for tok in hist:
            w.executed.append(tok)
            if tok[0] == "sib":
                # the same kind of step on a second, independent collection that is alive at the same time
                if sib is None:
                    sib = World(ctx, shared)
                    sib.wid = "sib"
                    sib.executed = w.executed
                    w.flags.add("second_collection")
                status, info = sib.step(tok[1])
            else:
                status, info = w.step(tok)
            if status == "skipped":
                ctx.count("steps_skipped_not_applicable")
                continue
            ctx.count("steps_" + (tok[0] if tok[0] != "sib" else "sib_" + tok[1][0]))
            w.check()
            if sib is not None:
                sib.check()
    except Stop:
        ctx.count("histories_stopped_at_first_violation")
    nontrivial = w.coexisted and w.changes >= 2
    ctx.evaluation([start, hist], nontrivial, n=max(w.checks + (sib.checks if sib else 0), 1))
    ctx.count("histories_" + kind)
    for f in w.flags | (sib.flags if sib else set()):
        ctx.count("histories_with_" + f)
    if len(w.flags & {"remove_then_reappend", "restore"}) == 2:
        ctx.count("histories_with_reappend_and_restore")
    if ctx.rng.random() < 0.0004:
        ctx.sample({"start": start, "history": hist, "final_collection": w.m_in, "groups": len(w.groups)})


ALPHABET = [["append", "d0"], ["append", "d1"], ["append", "d2"], ["remove", "d0"], ["remove", "d1"],
            ["setitem_same", "d0"], ["new_group", 1], ["remove_group", 0], ["remove_group", 1], ["set_state", 0, 2],
            ["set_style", 0, 0], ["merge", "d0", "d1"], ["clear"], ["cmd_add", "d1"], ["cmd_remove", "d0"],
            ["cmd_apply", 4, None], ["cmd_apply", 5, "new"], ["undo"], ["redo"], ["restore", "string"]]
REDUCED = [0, 3, 5, 6, 7, 13, 14, 15, 17, 18, 19]
ENUM = {"quick": [("empty", 3, ALPHABET), ("two_data_one_group", 3, ALPHABET)],
        "thorough": [("empty", 4, ALPHABET), ("two_data_one_group", 4, ALPHABET),
                     ("two_data_one_group", 5, [ALPHABET[i] for i in REDUCED])]}
N_RANDOM = {"quick": 1800, "thorough": 50000}
N_WIDE = {"quick": 800, "thorough": 30000}      # widened random class (adversarial round), see wide_history
N_BULK = {"quick": 12, "thorough": 120}
# delay-block family: every pair / triple of these public calls inside one hub.delay_callbacks() block
DELAY_SUB = [["append", "d2"], ["remove", "d0"], ["new_group", 1], ["remove_group", 0], ["setitem_same", "d1"],
             ["append", "d0"], ["clear"], ["extend", ["d2", "d0"]]]
BLOCK = 20
EXHAUSTIVE = {"quick": False, "thorough": False}


def _streams(tier, seed):
    """One stream of case ids per enumerated (start, length-bound, alphabet) entry - shortest histories first, the
    blocks of the longest length in a seeded shuffle - plus the stream of random blocks."""
    import random
    rng = random.Random(1000 + seed)
    out = []
    for ei, (start, L, alpha) in enumerate(ENUM[tier]):
        st = []
        for length in range(1, L + 1):
            if length <= 1:
                st.append(["enum", ei, length, []])
            else:
                block = [["enum", ei, length, list(p)] for p in itertools.product(range(len(alpha)), repeat=length - 1)]
                if length == L:
                    rng.shuffle(block)
                st.extend(block)
        out.append(st)
    out.append([["rand", i] for i in range(0, N_RANDOM[tier], BLOCK)])
    out.append([["wide", i] for i in range(0, N_WIDE[tier], BLOCK)])
    out.append([["delay", si, a] for si in range(2) for a in range(len(DELAY_SUB))])
    out.append([["bulk", i] for i in range(N_BULK[tier])])
    return out


def cases(tier, seed):
    """Streams are merged in proportion to their size, so a run that is cut by the per-shard time cap has seen
    the same fraction of every stream."""
    streams = [s for s in _streams(tier, seed) if s]
    pos = [0] * len(streams)
    total = sum(len(s) for s in streams)
    # small families that a verdict needs (floors) advance ten times faster, so that even a run that the machine load cuts
    # to a tenth of the workload has completed them
    speed = [10.0 if s[0][0] in ('delay', 'bulk') else 1.0 for s in streams]
    for _ in range(total):
        k = min((i for i in range(len(streams)) if pos[i] < len(streams[i])), key=lambda i: (pos[i] / len(streams[i]) / speed[i], i))
        yield streams[k][pos[k]]
        pos[k] += 1


def random_history(rng):
    n = rng.randint(3, 40 if rng.random() < 0.35 else 12)
    names = ["d0", "d1", "d2"]
    hist = []
    modes = [None, None, "replace", "and", "or", "xor", "andnot", "new"]
    for _ in range(n):
        r = rng.random()
        if hist and hist[-1][0] == "undo" and rng.random() < 0.4:
            hist.append(["redo"])
        elif r < 0.16:
            hist.append(["append", rng.choice(names)])
        elif r < 0.27:
            hist.append(["remove", rng.choice(names)])
        elif r < 0.30:
            hist.append(["extend", rng.sample(names, rng.randint(1, 3))])
        elif r < 0.34:
            hist.append(["setitem_same", rng.choice(names)])
        elif r < 0.36:
            hist.append(["append_new"])
            names.append("e%d" % (sum(1 for t in hist if t[0] == "append_new")))
        elif r < 0.44:
            hist.append(["new_group", rng.randrange(len(STATE_VARIANTS))])
        elif r < 0.50:
            hist.append(["remove_group", rng.randrange(3)])
        elif r < 0.55:
            hist.append(["set_state", rng.randrange(3), rng.randrange(len(STATE_VARIANTS))])
        elif r < 0.58:
            hist.append(["set_label", rng.randrange(3), rng.randrange(4)])
        elif r < 0.61:
            hist.append(["set_style", rng.randrange(3), rng.randrange(len(STYLE_VARIANTS))])
        elif r < 0.65:
            a, b = rng.sample(names + ["m1"], 2)
            hist.append(["merge", a, b])
        elif r < 0.67:
            hist.append(["clear"])
        elif r < 0.73:
            hist.append(["cmd_add", rng.choice(names)])
        elif r < 0.78:
            hist.append(["cmd_remove", rng.choice(names)])
        elif r < 0.83:
            hist.append(["cmd_apply", rng.randrange(len(STATE_VARIANTS)), rng.choice(modes)])
        elif r < 0.90:
            hist.append(["undo"])
        elif r < 0.94:
            hist.append(["redo"])
        elif r < 0.96:
            hist.append(["set_edit", [rng.randrange(3) for _ in range(rng.randint(0, 2))]])
        elif r < 0.97:
            hist.append(["set_mode", rng.choice(["replace", "and", "or", "xor", "andnot", "new"])])
        else:
            hist.append(["restore", rng.choice(["string", "string", "file"])])
    return hist


def wide_history(rng):
    """Random history over the widened token set: delay blocks, re-entrant listener reactions, fault calls followed by
    valid calls, empty / pre-registered / twin datasets, the same object twice, falsy labels, a state object shared by
    several groups (and collections), a second live collection, removed objects dropped and collected, old-protocol
    restore paths, undo/redo walks.  Plain tokens of random_history are mixed in."""
    base = random_history(rng)[:rng.choice([8, 12, 16, 24])]
    names = ["d0", "d1", "d2"]
    out = []
    simple = [["append", "d0"], ["append", "d1"], ["append", "d2"], ["remove", "d0"], ["remove", "d1"], ["remove", "d2"],
              ["new_group", 1], ["new_group", 3], ["remove_group", 0], ["remove_group", 1], ["setitem_same", "d1"],
              ["clear"], ["extend", ["d2", "d0"]], ["set_state", 0, 4], ["append_new"]]
    for tok in base:
        r = rng.random()
        if r < 0.45:
            out.append(tok)
            continue
        r = rng.random()
        if r < 0.12:
            out.append(["delay", [rng.choice(simple) for _ in range(rng.randint(2, 4))]])
        elif r < 0.24:
            out.append(["react", rng.randrange(len(REACTIONS))])
            out.append(rng.choice(simple))
        elif r < 0.32:
            out.append(["fault", rng.randrange(len(FAULTS))])
        elif r < 0.38:
            out.append(["append_empty"])
        elif r < 0.42:
            out.append(["fill_empty"])
        elif r < 0.47:
            out.append(["append_prereg"])
        elif r < 0.52:
            out.append(["extend_dup", rng.choice(names)])
        elif r < 0.54:
            out.append(["extend_empty"])
        elif r < 0.59:
            out.append(["setitem_replace", rng.choice(names)])
        elif r < 0.66:
            out.append(["remove_group_again", rng.randrange(3)])
        elif r < 0.68:
            out.append(["new_group_falsy", rng.randrange(4)])
        elif r < 0.74:
            out.append(["set_state_shared", rng.randrange(3), rng.randrange(len(STATE_VARIANTS))])
        elif r < 0.84:
            sub = rng.choice(simple + [["set_state_shared", 0, rng.choice([1, 5, 6, 9])], ["restore", "string"],
                                       ["cmd_apply", 1, "new"], ["undo"]])
            out.append(["sib", sub])
        elif r < 0.87:
            out.append(["forget"])
        elif r < 0.94:
            out.append(["restore", rng.choice(["v3", "v2", "v3", "file"])])
        else:
            j = rng.randint(1, 3)
            out += [["undo"]] * j + [["redo"]] * rng.randint(1, j) + [["undo"]] * rng.randint(1, j)
    return out


def bulk_history(rng):
    """More groups than default colours and a dozen datasets; removals from the middle; restore; walk."""
    hist = [["new_group", rng.randrange(len(STATE_VARIANTS))] for _ in range(rng.randint(10, 14))]
    hist += [["append_new"] for _ in range(rng.randint(8, 12))] + [["extend", ["d0", "d1", "d2"]]]
    rng.shuffle(hist)
    tail = [["remove_group", rng.randrange(4, 9)], ["remove", "e3"], ["remove", "d1"], ["remove_group", rng.randrange(2, 6)],
            ["restore", rng.choice(["string", "v3"])], ["append", "e3"], ["new_group", 2], ["cmd_apply", 1, "new"], ["cmd_remove", "e5"],
            ["undo"], ["undo"], ["redo"], ["redo"], ["undo"], ["setitem_same", "e2"], ["remove_group", 0], ["append", "d1"],
            ["delay", [["append_new"], ["remove", "e1"], ["new_group", 6]]], ["clear"], ["append", "e4"], ["append", "d0"]]
    cut = rng.randint(6, len(tail))
    return hist + tail[:cut]


def run_case(ctx, case):
    if case[0] == "wide":
        for _ in range(BLOCK):
            start = ctx.rng.choice(["empty", "two_data_one_group", "three_data_two_groups", "three_data_two_groups"])
            run_history(ctx, start, wide_history(ctx.rng), "wide_random")
        return
    if case[0] == "delay":
        _, si, a = case
        start = ["two_data_one_group", "three_data_two_groups"][si]
        for b2 in range(len(DELAY_SUB)):
            run_history(ctx, start, [["delay", [DELAY_SUB[a], DELAY_SUB[b2]]], ["append", "d1"]], "delay_enumerated")
            for c3 in range(len(DELAY_SUB)):
                run_history(ctx, start, [["delay", [DELAY_SUB[a], DELAY_SUB[b2], DELAY_SUB[c3]]]], "delay_enumerated")
        return
    if case[0] == "bulk":
        run_history(ctx, "empty", bulk_history(ctx.rng), "bulk")
        return
    if case[0] == "enum":
        _, ei, length, prefix = case
        start, L, alpha = ENUM[ctx.tier][ei]
        for tail in itertools.product(range(len(alpha)), repeat=length - len(prefix)):
            hist = [alpha[k] for k in list(prefix) + list(tail)]
            run_history(ctx, start, hist, "enumerated")
    else:
        for _ in range(BLOCK):
            start = ctx.rng.choice(["empty", "two_data_one_group", "three_data_two_groups", "three_data_two_groups"])
            run_history(ctx, start, random_history(ctx.rng), "random")


def floors(counters, tier):
    out = []
    need = {"quiescent_point_checks": 15000, "dataset_group_pairs_checked": 30000, "histories_enumerated": 4000,
            "histories_random": 400, "histories_with_remove_then_reappend": 500, "histories_with_restore": 500,
            "histories_with_reappend_and_restore": 100, "histories_with_undo": 250, "histories_with_redo_after_undo": 50,
            "histories_with_merge": 200, "histories_with_remove_group": 500, "histories_with_command_created_group": 1000,
            "steps_clear": 500,
            # adversarial widening round: every added class must have been exercised
            "histories_wide_random": 160, "histories_delay_enumerated": 250, "histories_bulk": 3,
            "histories_with_delay_block": 300, "histories_with_reentrant_listener": 50, "reads_during_broadcast": 100,
            "histories_with_fault_call": 30, "fault_call_raised_as_documented": 30, "histories_with_empty_dataset": 30,
            "histories_with_preregistered_dataset": 20, "histories_with_replaced_by_twin": 12,
            "histories_with_remove_group_twice": 6, "histories_with_shared_state_object": 20,
            "histories_with_second_collection": 40, "histories_with_forget_and_collect": 15,
            "restore_through_protocol_v3": 8, "restore_through_protocol_v2": 3}
    # the thorough tier demands what the quick tier demands: on a machine loaded by other checks its time cap may leave it
    # little more work than quick
    for k, v in need.items():
        if counters.get(k, 0) < v:
            out.append("fewer than %d %s (%d)" % (v, k, counters.get(k, 0)))
    return out
