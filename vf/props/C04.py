"""C04 - a view of the result equals the result of the view.

Shape: cross product + differential oracle.  For a generated dataset every
attribute (stored float/int, categorical, derived by arithmetic and by a
function link, linked from another dataset, pixel, world) is read through
`data[cid, view]` and every selection kind (all elementary kinds of
lib_C01_states plus and/or/xor/not/MultiOr composites) is evaluated through
`Data.get_mask(state, view)` / `Subset.to_mask(view)` for views of every kind
of the supported domain; the oracle indexes the *full-size* result, obtained
from a separately built object without a view, with the same view using numpy.

IndexedData: values, pixel/world attributes, masks (full and viewed),
statistics and histograms of a dimension-reduced dataset are compared with
those of a *materialised* copy of the parent's slice (a plain Data built from
`parent[cid][slice]`), before and after `indices` is reassigned.
"""
import itertools
import traceback

import numpy as np

from glue.core import Data
from glue.core.data_derived import IndexedData
from glue.core.exceptions import IncompatibleAttribute
from glue.core.subset import (AndState, InvertState, MaskSubsetState, MultiOrState, OrState, SliceSubsetState, Subset,
                              XorState)

from vf import common
from vf import lib_C01_states as L

ID = "C04"
LEVEL = "exploration"
BUDGET_S = {"quick": 27.0, "thorough": 140.0}
RULE = ("a case block = one generated dataset (1-3 dims, axis lengths 1-5, coordinate kind none/identity/affine "
        "diagonal/coupled/full) x every attribute kind x every selection kind x one fresh view of each of the 10 view "
        "kinds (None, Ellipsis, bare slice, full / short tuples of positive-step slices, int+slice mixes, all-int, "
        "index arrays, boolean mask, empty-result slices) plus edge-aimed integer views for slice selections; "
        "IndexedData blocks = 2-3-d parent x random index tuple x (values, pixel, world, masks full and viewed, 5 "
        "statistics with and without selection and view, 1-d/2-d histograms with own and parent ids), indices "
        "reassigned twice; slice blocks enumerate (state slice x view slice) pairs on short axes. "
        "Widening round: columns of many dtypes / layouts / magnitudes incl. stride-0 and dask-backed ones, falsy / "
        "extreme selection parameters, views with negative integers / backward slices / negative and 2-d index arrays / "
        "numpy integers / non-C masks, zero-size and >= 100-row datasets, the same pixel-based selections evaluated on a "
        "pixel-aligned dataset with permuted axes, selections defined on a key-joined table, a tiny chunk limit for a "
        "quarter of the blocks, fault-then-valid reads, IndexedData with negative / numpy-integer indices, nested "
        "IndexedData, reassignment back to the first indices and reads from inside the change message. A comparison is "
        "non-trivial when the view is not None/Ellipsis and the expected result is non-empty and not constant; distinct "
        "= distinct (target, attribute or selection kind, view kind, shape, coords kind, view) fingerprints.")
ASSUMPTIONS = ["numpy basic/advanced indexing of the full-size array is the specification of a view",
               "the full-size result (no view) of a freshly built object is taken as correct (C01/C08/C09/C14/C15 are "
               "about its value)",
               "for IndexedData statistics and histograms the reference is glue's own compute_statistic / "
               "compute_histogram applied to a materialised plain Data holding the parent's slice (C10 is about their "
               "definition); float statistics are compared with rtol 1e-9",
               "views outside the stated domain (negative integers, negative steps, Ellipsis inside tuples, for "
               "IndexedData anything but None or a full-length tuple) are not generated"]
ANCHORS = ["glue.core.subset:RoiSubsetStateNd.to_mask", "glue.core.subset:SliceSubsetState.to_mask",
           "glue.core.subset:MaskSubsetState.to_mask", "glue.core.component:CoordinateComponent._calculate",
           "glue.core.data:BaseCartesianData.get_data", "glue.core.data:Data.get_data",
           "glue.core.data_derived:IndexedData._to_original_view", "glue.core.data_derived:IndexedData._translate_cid",
           "glue.core.data_derived:IndexedData.compute_histogram", "glue.core.component_link:ComponentLink.compute",
           "glue.utils.array:view_shape", "glue.utils.array:combine_slices"]

VIEW_KINDS = list(common.VIEW_KINDS)        # generator kinds
ATTR_KINDS = ["stored", "int", "categorical", "derived", "linked", "pixel", "world", "dask"]
COMPOSITE_KINDS = ["and", "or", "xor", "not", "multior"]
N_BLOCKS = {"quick": {"data": 300, "indexed": 200, "slices": 30, "order": 300, "members": 120}, "thorough": {"data": 4000, "indexed": 2500, "slices": 400, "order": 4000, "members": 1500}}


# ---------------------------------------------------------------- views
def classify_view(view, shape):
    """Structural class of a view (independent of the generator that made it)."""
    if view is None:
        return "none"
    if view is Ellipsis:
        return "ellipsis"
    if isinstance(view, np.ndarray):
        return "bool_mask" if view.dtype == bool else "index_array_bare"
    if isinstance(view, slice):
        return "bare_slice"
    if isinstance(view, (int, np.integer)):
        return "bare_int"
    items = list(view)
    if all(isinstance(v, np.ndarray) for v in items):
        if any(v.ndim > 1 for v in items):
            return "index_arrays_nd"
        if any(v.size and v.min() < 0 for v in items):
            return "neg_index_arrays"
        return "index_arrays"
    if all(isinstance(v, (slice, int, np.integer)) for v in items):
        if any(isinstance(v, slice) and v.step is not None and v.step < 0 for v in items):
            return "backward_slices"
        if any(not isinstance(v, slice) and v < 0 for v in items):
            return "neg_int_mix"
    if all(isinstance(v, (int, np.integer)) for v in items):
        return "all_int" if len(items) == len(shape) else "ints_short"
    if all(isinstance(v, slice) for v in items):
        return "slices_full" if len(items) == len(shape) else "slices_short"
    if all(isinstance(v, (slice, int, np.integer)) for v in items):
        return "int_slice_mix"
    if all(isinstance(v, (np.ndarray, int, np.integer)) for v in items):
        if any((v.size and v.min() < 0) if isinstance(v, np.ndarray) else v < 0 for v in items):
            return "neg_int_index_array_mix"
        return "int_index_array_mix"     # not generated for a plain Data; what IndexedData makes of an index-array view
    return "other"


VIEW_CLASSES = ["none", "ellipsis", "bare_slice", "slices_full", "slices_short", "int_slice_mix", "all_int",
                "index_arrays", "bool_mask"]
EXT_VIEW_CLASSES = ["index_arrays_nd"]
# Domain ruling: the statement lists the supported views (positive-step slices, integers, integer index arrays, masks);
# backward-slice views, negative integers and negative entries of index arrays are outside it and are not generated here
# (they stay in C01's schedules, where the oracle is a fresh twin under the same view).
OUT_OF_DOMAIN_VIEW_KINDS = ("neg_int_mix", "backward_slices", "neg_index_arrays")
C04_EXT_VIEW_KINDS = [k for k in L.EXT_VIEW_KINDS if k not in OUT_OF_DOMAIN_VIEW_KINDS]


def edge_view(rng, shape, slices):
    """int/slice mix whose integers sit on the boundaries of the given slices (aimed at scalar-in-slice tests)."""
    v = []
    for n, s in zip(shape, slices):
        beg, end, stp = s.indices(n)
        cands = [x for x in (beg, end - 1, end, beg - 1, beg + stp, 0, n - 1) if 0 <= x < n]
        if rng.random() < 0.6 and cands:
            v.append(rng.choice(cands))
        else:
            v.append(common.rand_slice(rng, n))
    return tuple(v)


def glue_frame(exc):
    tb = traceback.extract_tb(exc.__traceback__)
    for fr in reversed(tb):
        if "/glue/" in fr.filename:
            return fr.name
    return tb[-1].name if tb else "?"


def ndim_class(nd):
    return "1d" if nd == 1 else "nd"


# ---------------------------------------------------------------- outcome of one comparison
COMPUTED_KINDS = ("world", "derived", "linked")     # floating-point results of a computation: 1e-12 relative tolerance


def outcome(getter, full, view, tol=False):
    """Compare getter() with full[view].  Returns (None, info) when equal, else (dict describing the failure, info)."""
    exp = full if view is None else full[view]
    info = {"empty": int(np.size(exp)) == 0, "exp": exp, "result_ndim": min(np.ndim(exp), 2)}
    try:
        got = getter()
        g = np.asarray(got)          # a lazy (dask) answer is computed here
    except Exception as e:
        return {"kind": "exception", "exc": type(e).__name__, "where": glue_frame(e), "error": repr(e)[:200]}, info
    if g.shape != np.shape(exp):
        return {"kind": "shape_mismatch", "got_shape": list(g.shape), "expected_shape": list(np.shape(exp))}, info
    if np.asarray(exp).dtype == bool:
        try:
            same = bool(np.array_equal(g.astype(bool), exp))
        except Exception:
            same = False
    elif tol:
        same = common.same_array(g, exp, rtol=1e-12, atol=1e-12)
    else:
        same = common.same_array(g, exp)
    if not same:
        return {"kind": "value_mismatch", "got": g, "expected": exp}, info
    return None, info


def nontrivial(view, exp):
    if view is None or view is Ellipsis:
        return False
    e = np.asarray(exp)
    if e.size == 0:
        return False
    if e.size == 1:
        return True
    try:
        return not bool(np.all(e == e.ravel()[0]))
    except Exception:
        return True


def failure_keys(res):
    out = {"kind": res["kind"]}
    if res["kind"] == "exception":
        out["exc"], out["where"] = res["exc"], res["where"]
    return out


def leaf_variant(desc):
    """Structural variant of a leaf description that selects a different code path."""
    if desc["k"] == "roind":
        return "pretransform" if desc.get("pre", "none") != "none" else "no_pretransform"
    if desc["k"] in ("slice", "pixslice") and any(sl[2] is not None and sl[2] < 0 for sl in desc["slices"]):
        return "backward_slice"
    return desc.get("variant")


def has_lossy_copy(W, desc):
    st = L.build_leaf(W, desc)
    return type(st) is not L.SubsetState and type(st).copy is L.SubsetState.copy


# ---------------------------------------------------------------- values and masks on a plain Data
class DataBlock(object):
    """Comparisons on one plain dataset.  *_root methods return the signature of the root mechanism of a failure
    (None when the comparison agrees) without recording anything, so that failures observed through a wrapper (a
    selection over a failing attribute, a composite over a failing leaf, an IndexedData over a failing parent view) are
    reported under the signature of their cause plus a 'via' key."""

    def __init__(self, ctx, W, target=None):
        self.ctx, self.W = ctx, W
        self.T = W.d if target is None else target        # the dataset selections are evaluated on
        self.on = "d" if self.T is W.d else ("aligned_dataset" if self.T is W.p else "other")
        self.shape = tuple(self.T.shape)
        self.full_values = {}
        self.full_masks = {}
        self.values_cache = {}
        self.leaf_cache = {}

    def wdesc(self):
        return L.describe_world(self.W)

    def common_keys(self, view, info):
        out = {"view_kind": classify_view(view, self.shape), "empty_result": info["empty"],
               "data_ndim": ndim_class(self.W.nd), "result_ndim": info["result_ndim"]}
        if self.on != "d":
            out["evaluated_on"] = self.on
        return out

    # ---- attribute values
    def values_outcome(self, name, view, vkey):
        key = (name, vkey)
        if key not in self.values_cache:
            W = self.W
            cid = W.atts[name]
            if name not in self.full_values:
                self.full_values[name] = np.asarray(W.d[cid])
            full = self.full_values[name]
            if self.ctx.rng.random() < 0.5 or view is None:
                getter = lambda: W.d.get_data(cid, view=view)
            else:
                getter = lambda: W.d[cid, view]
            self.values_cache[key] = outcome(getter, full, view, tol=W.kinds[name] in COMPUTED_KINDS)
        return self.values_cache[key]

    def values_root(self, name, view, vkey):
        res, info = self.values_outcome(name, view, vkey)
        if res is None:
            return None, res, info
        akind = self.W.kinds[name]
        sig = {"target": "values", "attr_kind": akind}
        if akind == "derived":
            sig["derived_by"] = "function_link" if name == "der2" else "arithmetic"
        sig.update(self.common_keys(view, info))
        sig.update(failure_keys(res))
        return sig, res, info

    def check_values(self, name, view, vkey):
        ctx, W = self.ctx, self.W
        akind = W.kinds[name]
        vclass = classify_view(view, W.shape)
        sig, res, info = self.values_root(name, view, vkey)
        ctx.count("comparisons")
        ctx.count("values:%s x %s" % (akind, vclass))
        ctx.count("values_view:" + vclass)
        var = W.variants.get(name)
        if var:
            ctx.count("values_on_column:dtype:" + var["dtype"])
            ctx.count("values_on_column:layout:" + var["layout"])
        if info["empty"]:
            ctx.count("values_with_empty_result:%s" % akind)
        ctx.evaluation(["values", akind, vclass, list(W.shape), W.coords, common.describe_view(view)],
                       nontrivial(view, info["exp"]))
        if sig is not None:
            ctx.violation(sig, {"world": self.wdesc(), "attribute": name, "view": common.describe_view(view),
                                "failure": res})

    # ---- elementary selections
    def full_mask(self, key, make_state):
        if key not in self.full_masks:
            limit = L._CHUNK_LIMIT[0]
            L._CHUNK_LIMIT[0] = None          # the full-size reference always sees glue's real chunk constant
            try:
                full = np.array(np.asarray(self.T.get_mask(make_state())), dtype=bool)
                if full.shape != self.shape:
                    raise ValueError("full mask has shape %r" % (full.shape,))
                self.full_masks[key] = full
            except Exception as e:
                self.full_masks[key] = e
            finally:
                L._CHUNK_LIMIT[0] = limit
        return self.full_masks[key]

    def mask_outcome(self, make_state, full, view, joined=False):
        T, rng = self.T, self.ctx.rng
        st = make_state()
        via = rng.choice(["get_mask", "get_mask", "subset", "to_mask"])
        if joined and via == "to_mask":
            via = "get_mask"          # the key-join fallback lives in Data.get_mask
        if via == "get_mask":
            getter = lambda v=view: T.get_mask(st, view=v)
        elif via == "to_mask":
            getter = lambda v=view: st.to_mask(T, view=v)
        else:
            sub = Subset(T)
            sub.subset_state = st
            getter = lambda v=view: sub.to_mask(view=v)
        if rng.random() < 0.08:
            # fault sequence: the same object is first asked for a view numpy rejects, then for the valid one
            kind, bad = L.invalid_view(rng, self.shape)
            try:
                getter(bad)
                self.ctx.count("fault:%s:no_exception" % kind)
            except Exception as e:
                self.ctx.count("fault:%s:%s" % (kind, type(e).__name__))
            self.ctx.count("fault_then_valid_reads")
        res, info = outcome(getter, full, view)
        if res is not None:
            res["via"] = via
        return res, info

    def leaf_root(self, desc, view, vkey):
        """(signature or None, failure, info, comparable?) for one elementary selection under one view."""
        dkey = repr(sorted((k, repr(v)) for k, v in desc.items()))
        key = (dkey, vkey)
        if key in self.leaf_cache:
            return self.leaf_cache[key]
        W = self.W
        mk = lambda: L.build_leaf(W, desc)
        full = self.full_mask(dkey, mk)
        if isinstance(full, Exception):
            out = (None, None, None, False)
        else:
            res, info = self.mask_outcome(mk, full, view, joined=desc["k"].startswith("join_"))
            sig = None
            if res is not None:
                # does the failure come from reading an attribute's values under this view?
                for n in (L.leaf_attr_names(W, desc) if self.on == "d" else []):
                    vsig, vres, _ = self.values_root(n, view, vkey)
                    if vsig is not None:
                        sig = dict(vsig)
                        sig["via_selection"] = desc["k"]
                        break
                if sig is None:
                    sig = {"target": "mask", "state_kind": desc["k"]}
                    if leaf_variant(desc):
                        sig["state_variant"] = leaf_variant(desc)
                    if desc["k"].startswith("roi") and all(W.kinds.get(n) == "pixel" for n in desc.get("atts", ["-"])):
                        sig["roi_over_pixel_attributes_only"] = True      # takes RoiSubsetStateNd's pixel-space shortcut
                    sig.update(self.common_keys(view, info))
                    sig.update(failure_keys(res))
            out = (sig, res, info, True)
        self.leaf_cache[key] = out
        return out

    def check_leaf(self, desc, view, vkey):
        ctx, W = self.ctx, self.W
        k = desc["k"]
        vclass = classify_view(view, self.shape)
        sig, res, info, ok = self.leaf_root(desc, view, vkey)
        if not ok:
            ctx.count("excluded:full_mask_failed:%s" % k)
            return
        ctx.count("comparisons")
        if self.on == "d":
            ctx.count("masks:%s x %s" % (k, vclass))
            ctx.count("masks_view:" + vclass)
        else:
            ctx.count("masks_on_%s:%s" % (self.on, k))
            ctx.count("masks_on_%s:view:%s" % (self.on, vclass))
        if desc.get("variant"):
            ctx.count("masks_of_edge_variants")
            ctx.count("masks_of_edge_variant:%s:%s" % (k, desc["variant"]))
        if L._CHUNK_LIMIT[0] is not None and k in ("roind", "roi3d"):
            ctx.count("masks_of_chunked_selection_kinds_with_small_chunk_limit")
        if info["empty"]:
            ctx.count("masks_with_empty_result")
        ctx.evaluation(["mask", k, self.on, vclass, list(W.shape), W.coords, common.describe_view(view)],
                       nontrivial(view, info["exp"]))
        if sig is not None:
            ctx.violation(sig, {"world": self.wdesc(), "leaf": desc, "view": common.describe_view(view), "failure": res,
                                "evaluated_on": self.on, "chunk_limit": L._CHUNK_LIMIT[0]})

    def check_composite(self, ck, make_state, used, view, vkey):
        ctx, W = self.ctx, self.W
        vclass = classify_view(view, self.shape)
        ckey = ("composite", ck, repr(used))
        full = self.full_mask(ckey, make_state)
        if isinstance(full, Exception):
            ctx.count("excluded:full_mask_failed:%s" % ck)
            return
        res, info = self.mask_outcome(make_state, full, view)
        ctx.count("comparisons")
        ctx.count("masks:%s x %s" % (ck, vclass))
        ctx.evaluation(["mask", ck, [d["k"] for d in used], vclass, list(W.shape), W.coords, common.describe_view(view)],
                       nontrivial(view, info["exp"]))
        if res is None:
            return
        sig = None
        for desc in used:
            lsig, lres, _, ok = self.leaf_root(desc, view, vkey)
            if ok and lsig is not None:
                sig = dict(lsig)
                sig["via_composite"] = ck
                break
        if sig is None:
            sig = {"target": "mask", "state_kind": ck, "leaf_kinds": sorted(set(d["k"] for d in used)),
                   "first_leaf_kind": used[0]["k"]}
            sig.update(self.common_keys(view, info))
            sig.update(failure_keys(res))
        ctx.violation(sig, {"world": self.wdesc(), "composite": ck, "leaves": list(used),
                            "view": common.describe_view(view), "failure": res})


DATA_FLAVOURS = [None, None, None, None, "large", None, None, "zero_size", None, None, None, None]
ALIGNED_KINDS = ["slice", "pixslice", "mask", "roi2d_pix", "empty"]


def make_views(rng, shape):
    views = []
    if 0 in shape:
        for kind in ("none", "ellipsis", "slice_tuple_full", "slice_tuple_short", "empty_slice"):
            views.append(common.make_view(rng, shape, kind))
        views.append(np.zeros(shape, dtype=bool))
        return views
    for kind in VIEW_KINDS:
        views.append(common.make_view(rng, shape, kind))
        if kind in ("slice_tuple_full", "int_slice_mix", "index_arrays", "bool_mask") and rng.random() < 0.3:
            views.append(common.make_view(rng, shape, kind))
    for kind in rng.sample(C04_EXT_VIEW_KINDS, 4):
        views.append(L.make_view_ext(rng, shape, kind))
    return views


def run_data_block(ctx, rng, tier, index=0):
    flavour = DATA_FLAVOURS[index % len(DATA_FLAVOURS)]
    max_len = 5 if tier == "quick" else rng.choice([5, 5, 8])
    shape = None
    if flavour == "large":
        shape = (rng.randint(100, 220),)          # enough rows (with duplicates) to leave numpy's small-array paths
    elif flavour == "zero_size":
        shape = rng.choice([(0,), (0, 3), (2, 0), (2, 0, 3)])
    W = L.make_world(rng, shape=shape, max_len=max_len)
    # the chunk constant of the chunked selection code paths is internal: a quarter of the blocks read views with tiny
    # chunks while the full-size reference is always computed with the real constant
    L.set_chunk_limit(rng.choice([1, 2, 5]) if rng.random() < 0.25 else None)
    B = DataBlock(ctx, W)
    ctx.count("data_blocks")
    ctx.count("data_blocks:ndim:%d" % W.nd)
    ctx.count("data_blocks:coords:%s" % W.coords)
    if flavour:
        ctx.count("data_blocks:" + flavour)
    if L._CHUNK_LIMIT[0] is not None:
        ctx.count("data_blocks:with_small_chunk_limit")
    views = make_views(rng, W.shape)
    if flavour == "large":
        views = views[:1] + rng.sample(views[1:], 8)
    # ---- attribute values
    for name in W.atts:
        for vi, view in enumerate(views):
            B.check_values(name, view, vi)
    # ---- elementary selections
    kinds = L.leaf_kinds(W)
    descs = {}
    for k in kinds:
        desc = L.rand_leaf(rng, W, k)
        descs[k] = desc
        for vi, view in enumerate(views):
            B.check_leaf(desc, view, vi)
        if k in ("slice", "pixslice") and 0 not in W.shape:
            if desc.get("ref") == "g":
                continue
            sl = [slice(*s) for s in desc["slices"]] + [slice(None)] * (W.nd - len(desc["slices"]))
            for j in range(3):
                views.append(edge_view(rng, W.shape, sl))
                B.check_leaf(desc, views[-1], len(views) - 1)
    # ---- selections defined on the table joined by key (1-d datasets)
    if W.t is not None:
        for _ in range(2):
            desc = L.join_leaf(rng, W)
            for vi, view in enumerate(views):
                B.check_leaf(desc, view, vi)
    # ---- composites over two/three random leaves
    for ck in COMPOSITE_KINDS:
        used = [descs[rng.choice(kinds)] for _ in range({"not": 1, "multior": 3}.get(ck, 2))]
        if any(has_lossy_copy(W, x) for x in used) and ck != "multior":
            ctx.count("excluded:composite_over_leaf_class_without_copy")     # C01's finding, not a view matter
            continue

        def mk(ck=ck, used=used):
            parts = [L.build_leaf(W, x) for x in used]
            if ck == "and":
                return AndState(*parts)
            if ck == "or":
                return OrState(*parts)
            if ck == "xor":
                return XorState(*parts)
            if ck == "not":
                return InvertState(parts[0])
            return MultiOrState(parts)
        for vi, view in enumerate(views):
            B.check_composite(ck, mk, used, view, vi)
    # ---- the same pixel-based selections evaluated on the pixel-aligned dataset with permuted axes
    if 0 not in W.shape:
        Bp = DataBlock(ctx, W, W.p)
        pviews = make_views(rng, Bp.shape)
        for k in ALIGNED_KINDS:
            desc = L.rand_leaf(rng, W, k)
            if k == "roi2d_pix" and not all(W.kinds[n] == "pixel" for n in desc["atts"]):
                continue
            for vi, view in enumerate(pviews):
                Bp.check_leaf(desc, view, ("p", vi))
    L.set_chunk_limit(None)
    if ctx.rng.random() < 0.01:
        ctx.sample({"world": B.wdesc(), "views": [common.describe_view(v) for v in views[:12]]})


# ---------------------------------------------------------------- exhaustive-ish slice blocks
def all_slices(n, max_step=3):
    out = []
    for a in [None] + list(range(n + 1)):
        for b in [None] + list(range(n + 1)):
            for st in [None] + list(range(1, max_step + 1)):
                out.append(slice(a, b, st))
    return out


def run_slice_block(ctx, rng, tier, index):
    """(state slice x view slice / int) pairs for the slice-based selection kinds on short axes."""
    nd = 1 if index % 3 else 2
    shape = tuple(rng.randint(1, 4 if tier == "quick" else 5) for _ in range(nd))
    W = L.make_world(rng, shape=shape, coords="none")
    B = DataBlock(ctx, W)
    ctx.count("slice_blocks")
    per_axis = [all_slices(n) for n in shape]
    npairs = 140 if tier == "quick" else 400
    for j in range(npairs):
        sls = [rng.choice(per_axis[i]) for i in range(nd)]
        triples = [[s.start, s.stop, s.step] for s in sls]
        kind = rng.choice(["slice", "pixslice"])
        desc = {"k": kind, "slices": triples}
        r = rng.random()
        if r < 0.45:
            view = tuple(rng.choice(per_axis[i]) for i in range(nd))
        elif r < 0.8:
            view = edge_view(rng, shape, sls)
        elif r < 0.9 and nd == 1:
            view = rng.choice(per_axis[0])
        else:
            view = tuple(rng.choice(per_axis[i]) for i in range(rng.randint(1, nd)))
        B.check_leaf(desc, view, ("s", j))
        ctx.count("slice_pairs")


# ---------------------------------------------------------------- IndexedData
STATS = ["mean", "median", "minimum", "maximum", "sum"]


def rand_indices(rng, shape):
    nd = len(shape)
    keep = [rng.random() < 0.6 for _ in range(nd)]
    if not any(keep):
        keep[rng.randrange(nd)] = True
    if all(keep):
        keep[rng.randrange(nd)] = False
    return tuple(None if k else rng.randrange(s) for k, s in zip(keep, shape))


def style_indices(rng, idx, shape, style):
    """The same index tuple written with negative integers (counted from the end) or numpy integers."""
    out = []
    for i, n in zip(idx, shape):
        if i is None:
            out.append(None)
        elif style == "negative":
            out.append(i - n if rng.random() < 0.7 else i)
        elif style == "numpy_int":
            out.append(np.int64(i))
        else:
            out.append(i)
    return tuple(out)


def indexed_view(rng, shape):
    """None or a full-length tuple (the form `_to_original_view` translates), and - because the statement's view domain
    ("tuples of positive-step slices possibly shorter than ndim", bare slices, Ellipsis) is stated for every dataset -
    the shorter forms too (known finding C04-indexed-view-not-full-length)."""
    kind = rng.choice(["none", "slice_tuple_full", "slice_tuple_full", "int_slice_mix", "all_int", "index_arrays",
                       "ext", "slice_tuple_short", "bare_slice", "ellipsis"])
    if kind == "ext":
        return L.make_view_ext(rng, shape, rng.choice(["np_int_mix", "np_all_int", "index_arrays_same_ndim"]))
    if kind == "int_slice_mix" and len(shape) == 1:
        kind = "all_int"
    return common.make_view(rng, shape, kind)


class IndexedReader(object):
    """Reads the indexed dataset's values from inside the message announcing that its indices changed."""

    def __init__(self, hub, ix):
        from glue.core.hub import HubListener
        from glue.core.message import NumericalDataChangedMessage

        class _Listener(HubListener):
            pass
        self.ix, self.seen = ix, []
        self.listener = _Listener()
        hub.subscribe(self.listener, NumericalDataChangedMessage, handler=self.on_change)

    def on_change(self, msg):
        if msg.data is self.ix:
            try:
                cid = self.ix.main_components[0]
                self.seen.append((tuple(self.ix.indices), np.array(self.ix.get_data(cid))))
            except Exception as e:
                self.seen.append((None, e))


def to_parent_view(idx, view):
    """Harness-side translation of a view of the indexed dataset into a view of its parent."""
    if view is not None:
        keep = sum(1 for i in idx if i is None)
        view = view if isinstance(view, tuple) else (view,)
        if any(v is Ellipsis for v in view):
            k = [n for n, v in enumerate(view) if v is Ellipsis][0]
            view = view[:k] + (slice(None),) * (keep - (len(view) - 1)) + view[k + 1:]
        view = tuple(view) + (slice(None),) * (keep - len(view))
    out, j = [], 0
    for i in idx:
        if i is None:
            out.append(slice(None) if view is None else view[j])
            j += 1
        else:
            out.append(i)
    return tuple(out)


class IndexedBlock(object):
    def __init__(self, ctx, rng, W):
        self.ctx, self.rng, self.W = ctx, rng, W
        self.B = DataBlock(ctx, W)        # the parent, for diagnosis
        self.nview = 0

    def report(self, what, res, info, extra_sig, detail, root=None):
        if root is not None:
            sig = dict(root)
            sig["via_indexed"] = what
        else:
            sig = {"target": "indexed:" + what}
            sig.update(failure_keys(res))
            sig.update(extra_sig)
        d = {"world": L.describe_world(self.W), "failure": res}
        d.update(detail)
        self.ctx.violation(sig, d)

    def compare(self, what, getter, full, view, extra_sig, detail, fp, tol=False, root_fn=None):
        ctx = self.ctx
        res, info = outcome(getter, full, view, tol=tol)
        ctx.count("comparisons")
        ctx.count("indexed:%s" % what)
        vclass = classify_view(view, np.shape(full))
        ctx.count("indexed_view:%s" % vclass)
        ctx.evaluation(["indexed", what, vclass, fp, common.describe_view(view)], nontrivial(view, info["exp"]) or
                       (view is None and np.size(info["exp"]) > 1))
        if res is not None:
            s = dict(extra_sig)
            s.update({"view_kind": vclass, "empty_result": info["empty"], "result_ndim": info["result_ndim"]})
            root = root_fn() if root_fn is not None else None
            self.report(what, res, info, s, dict(detail, view=common.describe_view(view)), root=root)

    def scalar_compare(self, what, getter, ref_getter, extra_sig, detail, fp, rtol=1e-9, root_fn=None):
        """Statistics / histograms: glue on the IndexedData vs glue on the materialised slice."""
        ctx = self.ctx
        try:
            exp = ref_getter()
        except Exception as e:
            ctx.count("excluded:reference_failed:%s:%s" % (what, type(e).__name__))
            return
        ctx.count("comparisons")
        ctx.count("indexed:%s" % what)
        ctx.evaluation(["indexed", what, fp, sorted((k, repr(v)) for k, v in extra_sig.items())], True)
        try:
            got = getter()
            g, e_ = np.asarray(got), np.asarray(exp)
            if g.shape != e_.shape:
                res = {"kind": "shape_mismatch", "got_shape": list(g.shape), "expected_shape": list(e_.shape)}
            elif not common.same_array(g, e_, rtol=rtol, atol=1e-12):
                res = {"kind": "value_mismatch", "got": g, "expected": e_}
            else:
                return
        except Exception as e:
            res = {"kind": "exception", "exc": type(e).__name__, "where": glue_frame(e), "error": repr(e)[:200]}
        root = root_fn() if root_fn is not None else None
        self.report(what, res, None, extra_sig, detail, root=root)

    def run(self):
        ctx, rng, W = self.ctx, self.rng, self.W
        d = W.d
        idx = rand_indices(rng, W.shape)
        style = rng.choice(["plain", "plain", "negative", "numpy_int"])
        if style == "negative":
            # domain ruling: the tree hands a negative index on to the parent's view, where slice-based selections do not
            # treat it like numpy; negative integers are outside C04's view domain, so such index tuples are not driven
            ctx.count("out_of_domain:negative_indexed_data_indices_not_driven")
            style = "plain"
        idx = style_indices(rng, idx, W.shape, style)
        ctx.count("indexed_blocks:index_style:" + style)
        try:
            ix = IndexedData(d, idx)
        except Exception as e:
            ctx.violation({"target": "indexed:constructor", "kind": "exception", "exc": type(e).__name__,
                           "where": glue_frame(e), "coords": "present" if d.coords is not None else "none"},
                          {"world": L.describe_world(W), "indices": list(idx), "error": repr(e)[:300]})
            return
        ctx.count("indexed_blocks")
        ctx.count("indexed_blocks:parent_ndim:%d" % W.nd)
        ctx.count("indexed_blocks:kept_dims:%d" % sum(1 for i in idx if i is None))
        fp = [list(W.shape), W.coords, [i is None for i in idx], style]
        reader = None
        if rng.random() < 0.5:
            try:
                W.dc.append(ix)
                reader = IndexedReader(W.dc.hub, ix)
            except Exception as e:
                ctx.violation({"target": "indexed:append_to_collection", "kind": "exception", "exc": type(e).__name__,
                               "where": glue_frame(e)}, {"world": L.describe_world(W), "error": repr(e)[:300]})
        first = idx
        for rep in range(4):
            if rep > 0:
                # rounds 1, 2: new random indices; round 3: back to the first ones (down and up again)
                new = first if rep == 3 else style_indices(rng, tuple(None if i is None else rng.randrange(s) for i, s in
                                                                      zip(idx, W.shape)),
                                                           W.shape, rng.choice([style, style, "plain"]))
                types = sorted(set(type(i).__name__ for i in idx if i is not None) |
                               set(type(i).__name__ for i in new if i is not None))
                try:
                    ix.indices = new
                except Exception as e:
                    ctx.violation({"target": "indexed:reassign", "kind": "exception", "exc": type(e).__name__,
                                   "where": glue_frame(e), "index_types": types},
                                  {"world": L.describe_world(W), "before": repr(idx), "after": repr(new),
                                   "error": repr(e)[:300]})
                    return
                idx = new
                ctx.count("indexed_indices_reassigned")
                if rep == 3:
                    ctx.count("indexed_indices_reassigned_back_to_the_first")
                if reader is not None:
                    sl = tuple(slice(None) if i is None else i for i in idx)
                    seen, reader.seen = reader.seen, []
                    for at, val in seen:
                        ctx.count("comparisons")
                        ctx.count("indexed:read_inside_change_message")
                        exp = np.asarray(d[d.main_components[0]])[sl]
                        if isinstance(val, Exception) or val.shape != exp.shape or not common.same_array(val, exp):
                            ctx.violation({"target": "indexed:read_inside_change_message",
                                           "kind": "exception" if isinstance(val, Exception) else "value_mismatch"},
                                          {"world": L.describe_world(W), "indices": repr(idx), "got": repr(val)[:300],
                                           "expected": exp})
            self.read_all(ix, idx, fp, rep)
            if rep == 1 and len(ix.shape) == 2 and rng.random() < 0.5:
                self.nested(ix, idx, fp)

    def nested(self, ix, idx, fp):
        """An IndexedData of an IndexedData (a non-Data parent): values and masks against the grand-parent's slice."""
        ctx, rng, W = self.ctx, self.rng, self.W
        d = W.d
        sl = tuple(slice(None) if i is None else i for i in idx)
        idx2 = rand_indices(rng, ix.shape)
        try:
            ix2 = IndexedData(ix, idx2)
        except Exception as e:
            ctx.violation({"target": "indexed:nested_constructor", "kind": "exception", "exc": type(e).__name__,
                           "where": glue_frame(e), "coords": "present" if d.coords is not None else "none"},
                          {"world": L.describe_world(W), "indices": repr(idx), "indices2": repr(idx2), "error": repr(e)[:300]})
            return
        ctx.count("indexed_blocks:nested")
        sl2 = tuple(slice(None) if i is None else i for i in idx2)
        shape2 = tuple(n for n, i in zip(ix.shape, idx2) if i is None)
        views = [None, common.make_view(rng, shape2, rng.choice(["slice_tuple_full", "all_int"]))]
        base = {"nested": True}
        for ci, cp in list(zip(list(ix2.main_components), list(d.main_components)))[:6]:
            full = np.asarray(d[cp])[sl][sl2]
            akind = W.kinds.get(cp.label, "stored")
            for view in views:
                pv = to_parent_view(idx, to_parent_view(idx2, view))
                self.compare("nested_values", lambda ci=ci, view=view: ix2.get_data(ci, view=view), full, view,
                             dict(base, attr_kind=akind), {"indices": repr(idx), "indices2": repr(idx2),
                                                           "attribute": cp.label}, fp, tol=akind in COMPUTED_KINDS,
                             root_fn=lambda name=cp.label, pv=pv: self.B.values_root(name, pv, self.vkey())[0]
                             if name in W.atts else None)
        for k in ("range", "slice", "mask"):
            desc = L.rand_leaf(rng, W, k)
            try:
                fullmask = np.array(d.get_mask(L.build_leaf(W, desc)), dtype=bool)[sl][sl2]
            except Exception:
                continue
            for view in views:
                st = L.build_leaf(W, desc)
                pv = to_parent_view(idx, to_parent_view(idx2, view))
                self.compare("nested_mask", lambda st=st, view=view: ix2.get_mask(st, view=view), fullmask, view,
                             dict(base, state_kind=k, state_variant=leaf_variant(desc)),
                             {"indices": repr(idx), "indices2": repr(idx2), "leaf": desc}, fp,
                             root_fn=lambda desc=desc, pv=pv: self.B.leaf_root(desc, pv, self.vkey())[0])

    def vkey(self):
        self.nview += 1
        return ("ix", self.nview)

    def read_all(self, ix, idx, fp, rep):
        ctx, rng, W, B = self.ctx, self.rng, self.W, self.B
        d = W.d
        sl = tuple(slice(None) if i is None else i for i in idx)
        kept = [k for k, i in enumerate(idx) if i is None]
        base = {"after_reassign": rep > 0}
        det = {"indices": list(idx)}
        shape = tuple(W.shape[k] for k in kept)
        if tuple(ix.shape) != shape:
            ctx.violation({"target": "indexed:shape", "kind": "shape_mismatch", "after_reassign": rep > 0},
                          dict(det, got=list(ix.shape), expected=list(shape)))
            return
        views = [(None, self.vkey())] + [(indexed_view(rng, shape), self.vkey()) for _ in range(3)]
        # ---- values: main components (own ids), pixel, world
        own = list(ix.main_components)
        par = list(d.main_components)
        mat = {}
        for ci, cp in zip(own, par):
            full = np.asarray(d[cp])[sl]
            mat[cp.label] = full
            name = cp.label
            akind = W.kinds.get(name, "stored")
            for view, vk in views:
                self.compare("values", lambda ci=ci, view=view: ix.get_data(ci, view=view), full, view,
                             dict(base, attr_kind=akind), dict(det, attribute=name), fp, tol=akind in COMPUTED_KINDS,
                             root_fn=lambda name=name, view=view, vk=vk: B.values_root(name, to_parent_view(idx, view), vk)[0])
        for pi, pc in enumerate(ix.pixel_component_ids):
            name = "px%d" % kept[pi]
            full = np.asarray(d[W.atts[name]])[sl]
            for view, vk in views:
                self.compare("values", lambda pc=pc, view=view: ix.get_data(pc, view=view), full, view,
                             dict(base, attr_kind="pixel"), dict(det, attribute=name), fp,
                             root_fn=lambda name=name, view=view, vk=vk: B.values_root(name, to_parent_view(idx, view), vk)[0])
        if d.coords is not None:
            try:
                wids = list(ix.world_component_ids)
            except Exception as e:
                ctx.violation({"target": "indexed:world_ids", "kind": "exception", "exc": type(e).__name__,
                               "where": glue_frame(e)}, dict(det, error=repr(e)[:300]))
                wids = []
            # the reference is "the corresponding slice of its parent": the parent's world attribute of the kept axis
            for wi, wc in enumerate(wids):
                name = "wd%d" % kept[wi]
                full = np.asarray(d[W.atts[name]])[sl]
                for view, vk in views[:3]:
                    self.compare("values", lambda wc=wc, view=view: ix.get_data(wc, view=view), full, view,
                                 dict(base, attr_kind="world"), dict(det, attribute=name), fp, tol=True,
                                 root_fn=lambda name=name, view=view, vk=vk: B.values_root(name, to_parent_view(idx, view), vk)[0])
        # ---- masks
        kinds = [k for k in L.leaf_kinds(W)]
        chosen = rng.sample(kinds, min(5, len(kinds))) + ["slice", "mask"]
        states = []
        for k in chosen:
            desc = L.rand_leaf(rng, W, k)
            try:
                fullmask = np.array(d.get_mask(L.build_leaf(W, desc)), dtype=bool)
            except Exception as e:
                ctx.count("excluded:full_mask_failed:%s:%s" % (k, type(e).__name__))
                continue
            states.append((k, desc, fullmask))
            for view, vk in views:
                st = L.build_leaf(W, desc)
                self.compare("mask", lambda st=st, view=view: ix.get_mask(st, view=view), fullmask[sl], view,
                             dict(base, state_kind=k), dict(det, leaf=desc), fp,
                             root_fn=lambda desc=desc, view=view, vk=vk: B.leaf_root(desc, to_parent_view(idx, view), vk)[0])
        # ---- statistics and histograms against the materialised slice
        if not shape or int(np.prod(shape)) == 0:
            return
        num = [(ci, cp) for ci, cp in zip(own, par) if W.kinds.get(cp.label) in ("stored", "int", "derived")]
        m = Data(label="materialised")
        for ci, cp in num:
            m.add_component(np.array(mat[cp.label]), cp.label)
        for (ci, cp) in rng.sample(num, min(2, len(num))):
            for stat in rng.sample(STATS, 3):
                view, vk = rng.choice(views)
                choice = rng.choice([None] + states) if states else None
                kw_i, kw_m = {}, {}
                extra = dict(base, statistic=stat, with_selection=choice is not None)
                root_fn = None
                if view is not None:
                    vclass = classify_view(view, shape)
                    if vclass == "index_arrays":
                        continue
                    if np.size(np.empty(shape)[view]) == 0:
                        ctx.count("excluded:statistic_of_an_empty_view")      # the statistic of no values is C10's matter
                        continue
                    kw_i["view"], kw_m["view"] = view, view
                    extra["view_kind"] = vclass
                else:
                    extra["view_kind"] = "none"
                if choice is not None:
                    k, desc, fullmask = choice
                    kw_i["subset_state"] = L.build_leaf(W, desc)
                    kw_m["subset_state"] = MaskSubsetState(fullmask[sl], m.pixel_component_ids)
                    extra["state_kind"] = k
                    root_fn = lambda desc=desc, view=view, vk=vk: B.leaf_root(desc, to_parent_view(idx, view), vk)[0]
                id_owner = rng.choice(["own", "parent"])
                extra["cid_owner"] = id_owner
                cid = ci if id_owner == "own" else cp
                self.scalar_compare("statistic", lambda: ix.compute_statistic(stat, cid, **kw_i),
                                    lambda: m.compute_statistic(stat, m.id[cp.label], **kw_m), extra,
                                    dict(det, attribute=cp.label, view=common.describe_view(view)), fp, root_fn=root_fn)
        for _ in range(3):
            ndh = rng.choice([1, 1, 2])
            if len(num) < ndh:
                continue
            cols = rng.sample(num, ndh)
            rngs, bins = [], []
            for ci, cp in cols:
                a = mat[cp.label].astype(float)
                a = a[np.isfinite(a)]
                lo, hi = (float(a.min()), float(a.max())) if a.size else (0.0, 1.0)
                if hi <= lo:
                    hi = lo + 1.0
                rngs.append((lo - rng.choice([0.0, 0.5]), hi + rng.choice([0.0, 0.5])))
                bins.append(rng.randint(1, 5))
            choice = rng.choice([None] + states) if states else None
            if choice is not None and "dk" in L.leaf_attr_names(W, choice[1]):
                # Data.compute_histogram indexes a numpy column with the lazy (dask) mask of such a selection and gets
                # a wrong histogram or IndexError on any dataset, indexed or not: C10's matter (see notes), not a view's
                ctx.count("excluded:histogram_selection_with_lazy_mask")
                choice = None
            if choice is not None and choice[1].get("variant") == "scalar_result":
                # a parsed expression with a scalar result answers with a float mask, which IndexedData and-combines:
                # C01's finding (C01-parsed-scalar-expression-float-mask), not a view matter
                ctx.count("excluded:histogram_selection_with_non_boolean_mask")
                choice = None
            if choice is not None and has_lossy_copy(W, choice[1]):
                # IndexedData and-combines the selection with its own slice selection: C01's copy() finding
                ctx.count("excluded:histogram_selection_of_leaf_class_without_copy")
                choice = None
            id_owner = rng.choice(["own", "parent"])
            extra = {"hist_ndim": ndh, "with_selection": choice is not None, "cid_owner": id_owner}
            kw_i, kw_m = {}, {}
            if choice is not None:
                k, desc, fullmask = choice
                kw_i["subset_state"] = L.build_leaf(W, desc)
                kw_m["subset_state"] = MaskSubsetState(fullmask[sl], m.pixel_component_ids)
            cids_i = [ci if id_owner == "own" else cp for ci, cp in cols]
            cids_m = [m.id[cp.label] for ci, cp in cols]
            self.scalar_compare("histogram",
                                lambda: ix.compute_histogram(cids_i, range=list(rngs), bins=list(bins), **kw_i),
                                lambda: m.compute_histogram(cids_m, range=list(rngs), bins=list(bins), **kw_m),
                                extra, dict(det, attributes=[cp.label for _, cp in cols], range=rngs, bins=bins,
                                            selection=choice[1] if choice else None), fp)


def run_indexed_block(ctx, rng, tier):
    nd = rng.choice([2, 3, 3])
    shape = tuple(rng.randint(1, 4 if tier == "quick" else 6) for _ in range(nd))
    coords = rng.choice(["none", "none", "identity", "diagonal"])
    W = L.make_world(rng, shape=shape, coords=coords)
    IndexedBlock(ctx, rng, W).run()


# ---------------------------------------------------------------- view first, full result afterwards
import random as _random


def run_order_block(ctx, rng, tier):
    """Reverse order of operations on fresh objects: values, codes, masks and statistics are requested under a view
    BEFORE anything has read the full array of the dataset; the full result is read afterwards and full[view] must
    equal what the view returned earlier.  Leaf descriptions and views are prepared on a twin world built from the
    same seed, so nothing has touched the dataset under observation."""
    seed = rng.getrandbits(48)
    shape = rng.choice([(rng.randint(3, 9),), (rng.randint(3, 9),), (rng.randint(2, 4), rng.randint(2, 4))])
    W0 = L.make_world(_random.Random(seed), shape=shape)          # scratch twin: may be read freely
    kinds = [k for k in ("category", "catroi", "ineq_cat", "cat2d", "catmulti", "ineq", "range", "roi2d", "mask_attr",
                         "ineq2", "element") if k in L.leaf_kinds(W0)]
    descs = [L.rand_leaf(rng, W0, k) for k in rng.sample(kinds, min(5, len(kinds)))]
    views = []
    for kind in ("bare_slice", "slice_tuple_full", "int_slice_mix", "index_arrays", "bool_mask", "all_int"):
        if kind == "bare_slice" and len(shape) > 1:
            kind = "slice_tuple_short"
        v = common.make_view(rng, shape, kind)
        views.append(v)
    # short views that are likely not to contain every category
    views.append(tuple(slice(a, a + rng.randint(1, 2)) for a in (rng.randrange(n) for n in shape)))
    views.append(tuple(np.array([rng.randrange(n)] * 2) for n in shape))
    view = rng.choice(views)
    W = L.make_world(_random.Random(seed), shape=shape)           # the fresh dataset under observation
    d = W.d
    B = DataBlock(ctx, W)
    vclass = classify_view(view, W.shape)
    ctx.count("order_blocks")
    ctx.count("order_blocks:view:" + vclass)
    wit = {"world": L.describe_world(W), "view": common.describe_view(view)}
    names = [n for n in W.atts if W.kinds[n] in ("categorical", "stored", "int", "derived", "world", "linked", "dask")]
    rng.shuffle(names)
    names = [n for n in names if W.kinds[n] == "categorical"] + [n for n in names if W.kinds[n] != "categorical"][:5]
    first = {}
    # ---- everything under the view first
    for n in names:
        try:
            got = d[W.atts[n], view]
            first[("values", n)] = ("ok", np.array(np.asarray(got)), np.array(got.codes) if hasattr(got, "codes") and
                                    np.ndim(got) > 0 else None)
        except Exception as e:
            first[("values", n)] = ("exc", e, None)
    for i, desc in enumerate(descs):
        try:
            first[("mask", i)] = ("ok", np.array(np.asarray(d.get_mask(L.build_leaf(W, desc), view=view))), None)
        except Exception as e:
            first[("mask", i)] = ("exc", e, None)
    stats = []
    nonempty = np.size(np.empty(W.shape)[view]) > 0
    if nonempty and vclass not in ("index_arrays", "bool_mask"):
        for n in [x for x in names if W.kinds[x] in ("categorical", "stored", "int")][:4]:
            stat = rng.choice(["minimum", "maximum", "sum", "mean"])
            try:
                first[("stat", n, stat)] = ("ok", d.compute_statistic(stat, W.atts[n], view=view), None)
            except Exception as e:
                first[("stat", n, stat)] = ("exc", e, None)
            stats.append((n, stat))
    # ---- now the full results
    for n in names:
        st, got, codes = first[("values", n)]
        akind = W.kinds[n]
        full = d[W.atts[n]]
        exp = np.asarray(full)[view]
        ctx.count("comparisons")
        ctx.count("view_before_full:values:" + akind)
        if akind == "categorical":
            present = set(np.asarray(exp).ravel().tolist())
            if len(present) < len(set(np.asarray(full).ravel().tolist())):
                ctx.count("view_before_full:categorical_view_missing_a_category")
        ctx.evaluation(["view_before_full", "values", akind, vclass, list(W.shape), common.describe_view(view)],
                       nontrivial(view, exp))
        sig = None
        if st == "exc":
            sig = {"kind": "exception", "exc": type(got).__name__, "where": glue_frame(got)}
        elif got.shape != np.shape(exp) or not common.same_array(got, exp, rtol=1e-12 if akind in COMPUTED_KINDS else 0.0,
                                                                 atol=1e-12 if akind in COMPUTED_KINDS else 0.0):
            sig = {"kind": "value_mismatch", "what": "values"}
        elif codes is not None and hasattr(full, "codes"):
            ecodes = np.asarray(full.codes)[view]
            ctx.count("view_before_full:codes")
            if codes.shape != ecodes.shape or not common.same_array(codes, ecodes):
                sig = {"kind": "value_mismatch", "what": "codes"}
                wit = dict(wit, got_codes=codes, expected_codes=ecodes)
        if sig is not None:
            root = B.values_root(n, view, ("o", n))[0]
            if root is not None:
                sig = dict(root, via_order="view_before_full")
            else:
                sig.update({"target": "view_before_full:values", "attr_kind": akind, "view_kind": vclass})
            ctx.violation(sig, dict(wit, attribute=n, got=repr(got)[:300], expected=exp))
    for i, desc in enumerate(descs):
        st, got, _ = first[("mask", i)]
        try:
            full = np.array(np.asarray(d.get_mask(L.build_leaf(W, desc))), dtype=bool)
        except Exception:
            ctx.count("excluded:full_mask_failed:%s" % desc["k"])
            continue
        exp = full[view]
        ctx.count("comparisons")
        ctx.count("view_before_full:mask:" + desc["k"])
        ctx.evaluation(["view_before_full", "mask", desc["k"], vclass, list(W.shape), common.describe_view(view)],
                       nontrivial(view, exp))
        sig = None
        if st == "exc":
            sig = {"kind": "exception", "exc": type(got).__name__, "where": glue_frame(got)}
        elif got.shape != exp.shape or not np.array_equal(got.astype(bool), exp):
            sig = {"kind": "value_mismatch"}
        if sig is not None:
            root = B.leaf_root(desc, view, ("o", i))[0]
            if root is not None:
                sig = dict(root, via_order="view_before_full")
            else:
                sig.update({"target": "view_before_full:mask", "state_kind": desc["k"], "view_kind": vclass})
                if leaf_variant(desc):
                    sig["state_variant"] = leaf_variant(desc)
            ctx.violation(sig, dict(wit, leaf=desc, got=repr(got)[:300], expected=exp))
    for n, stat in stats:
        st, got, _ = first[("stat", n, stat)]
        full = d[W.atts[n]]
        vals = np.asarray(full.codes if hasattr(full, "codes") else full)[view]
        vals = np.array(vals) if np.ndim(vals) else np.array([vals])       # same dtype as the component (float32 sums)
        m = Data(label="materialised", x=vals)
        try:
            exp = m.compute_statistic(stat, m.id["x"])
        except Exception:
            ctx.count("excluded:reference_failed:statistic")
            continue
        ctx.count("comparisons")
        ctx.count("view_before_full:statistic:" + W.kinds[n])
        ctx.evaluation(["view_before_full", "statistic", W.kinds[n], stat, vclass, list(W.shape)], True)
        sig = None
        if st == "exc":
            sig = {"kind": "exception", "exc": type(got).__name__, "where": glue_frame(got)}
        elif not common.same_array(np.asarray(got), np.asarray(exp), rtol=1e-5 if vals.dtype == np.float32 else 1e-9,
                                   atol=1e-12):
            sig = {"kind": "value_mismatch"}
        if sig is not None:
            sig.update({"target": "view_before_full:statistic", "attr_kind": W.kinds[n], "view_kind": vclass,
                        "statistic": stat})
            ctx.violation(sig, dict(wit, attribute=n, got=repr(got)[:200], expected=repr(exp)[:200]))


# ---------------------------------------------------------------- a member read after the composite that contains it
MEMBER_KINDS = ["ineq", "ineq2", "ineq_cat", "category", "element", "catroi", "ineq_rev", "and", "or", "not"]
COMPOSITES = ["multior", "multior", "multior", "or", "and", "xor", "not", "or_chain", "multior_nested"]


def run_member_block(ctx, rng, tier):
    """History with memoised members: a composite whose FIRST member is of a memoising kind is evaluated under a hashable
    view before that member has been evaluated; then the member alone is asked for the same view (same call forms as the
    composite uses) and must give member_full[view], the full mask coming from a fresh twin."""
    W = L.make_world(rng)
    d = W.d
    B = DataBlock(ctx, W)
    ctx.count("member_blocks")
    for _ in range(10):
        mk = rng.choice(MEMBER_KINDS)
        if mk in ("ineq_cat", "category", "catroi") and "c" not in W.atts:
            continue
        if mk in ("and", "or", "not"):
            parts = [L.rand_leaf(rng, W, rng.choice(["ineq", "range", "category", "mask"]), edge=False) for _ in range(2)]

            def make_member(parts=parts, mk=mk):
                a, b = L.build_leaf(W, parts[0]), L.build_leaf(W, parts[1])
                return {"and": lambda: AndState(a, b), "or": lambda: OrState(a, b), "not": lambda: InvertState(a)}[mk]()
            mdesc = {"k": mk, "parts": parts}
        else:
            mdesc = L.rand_leaf(rng, W, mk, edge=False)
            make_member = (lambda mdesc=mdesc: L.build_leaf(W, mdesc))
        others = [L.rand_leaf(rng, W, rng.choice(["ineq", "range", "mask", "slice", "category", "roi2d", "element"]), edge=False)
                  for _ in range(rng.randint(1, 4))]
        vk = rng.choice(["none", "none", "ellipsis", "slice_tuple_full", "slice_tuple_short", "int_slice_mix", "all_int",
                         "bare_slice"])
        if vk == "bare_slice" and W.nd > 1:
            vk = "slice_tuple_short"
        view = common.make_view(rng, W.shape, vk)
        try:
            full = np.array(np.asarray(d.get_mask(make_member())), dtype=bool)       # fresh twin, no view
        except Exception:
            ctx.count("excluded:full_mask_failed:%s" % mk)
            continue
        member = make_member()
        rest = [L.build_leaf(W, o) for o in others]
        ck = rng.choice(COMPOSITES)
        try:
            if ck == "multior":
                comp, held = MultiOrState([member] + rest), member
            elif ck == "multior_nested":
                inner = MultiOrState([member] + rest[:1])
                comp, held = MultiOrState([inner] + rest), member
            elif ck == "or_chain":
                comp = member
                for o in rest:
                    comp = comp | o
                held = comp
                for _ in rest:
                    held = held.state1        # each | copies its left operand: the member's copy sits len(rest) levels down
            elif ck == "not":
                comp = InvertState(member)
                held = comp.state1
            else:
                comp = {"or": OrState, "and": AndState, "xor": XorState}[ck](member, rest[0])
                held = comp.state1
        except Exception:
            continue
        # 1. the composite first (through the public entry points), the member has never been evaluated
        try:
            if rng.random() < 0.5:
                d.get_mask(comp, view=view)
            else:
                sub = Subset(d)
                sub.subset_state = comp
                sub.to_mask(view=view)
            if rng.random() < 0.5:
                d.get_mask(comp, view=view)
        except Exception:
            ctx.count("excluded:composite_failed_under_view:%s" % ck)
            continue
        # 2. the member the composite holds, alone, under the same view, in the call forms composites use
        exp = full if view is None else full[view]
        vclass = classify_view(view, W.shape)
        for form, call in (("get_mask", lambda: d.get_mask(held, view=view)), ("to_mask_kw", lambda: held.to_mask(d, view=view)),
                           ("to_mask_pos", lambda: held.to_mask(d, view))):
            ctx.count("comparisons")
            ctx.count("member_after_composite")
            ctx.count("member_after_composite:composite:" + ck)
            ctx.count("member_after_composite:member:" + mk)
            ctx.count("member_after_composite:view:" + vclass)
            ctx.evaluation(["member_after_composite", ck, mk, vclass, form, list(W.shape), common.describe_view(view)],
                           nontrivial(view, exp) or (view is None and bool(exp.any() and not exp.all())))
            try:
                got = np.asarray(call())
                bad = got.shape != np.shape(exp) or not np.array_equal(got.astype(bool), exp)
                res = {"kind": "value_mismatch", "got": got, "expected": exp} if bad else None
            except Exception as e:
                res = {"kind": "exception", "exc": type(e).__name__, "where": glue_frame(e), "error": repr(e)[:200]}
            if res is None:
                continue
            root = None
            for pd in (mdesc["parts"] if mk in ("and", "or", "not") else [mdesc]):
                root = B.leaf_root(pd, view, ("m", id(member)))[0]         # does a part fail on a fresh object as well?
                if root is not None:
                    break
            if root is not None:
                sig = dict(root, via_history="member_after_composite")
            else:
                sig = {"target": "mask", "history": "member_after_composite", "composite": ck, "member_kind": mk,
                       "view_kind": vclass, "call": form}
                sig.update(failure_keys(res))
            ctx.violation(sig, {"world": L.describe_world(W), "member": mdesc, "others": others, "composite": ck,
                                "view": common.describe_view(view), "failure": res})
            break


# ---------------------------------------------------------------- driver interface
def cases(tier, seed):
    n = N_BLOCKS[tier]
    for i in range(max(n.values())):
        if i < n["data"]:
            yield ["data", i]
        if i < n["indexed"]:
            yield ["indexed", i]
        if i < n["slices"]:
            yield ["slices", i]
        if i < n["order"]:
            yield ["order", i]
        if i < n["members"]:
            yield ["members", i]


def run_case(ctx, case):
    L.clear_memo_caches()
    if case[0] == "data":
        run_data_block(ctx, ctx.rng, ctx.tier, case[1])
    elif case[0] == "indexed":
        run_indexed_block(ctx, ctx.rng, ctx.tier)
    elif case[0] == "order":
        run_order_block(ctx, ctx.rng, ctx.tier)
    elif case[0] == "members":
        run_member_block(ctx, ctx.rng, ctx.tier)
    else:
        run_slice_block(ctx, ctx.rng, ctx.tier, case[1])


SELECTION_KINDS_ALWAYS = [k for k in L.LEAF_KINDS_ANY] + COMPOSITE_KINDS
SELECTION_KINDS_SOMETIMES = L.LEAF_KINDS_1D + L.LEAF_KINDS_WORLD


def floors(counters, tier):
    out = []
    c = counters.get
    if c("comparisons", 0) < 20000:
        out.append("fewer than 20000 comparisons")
    for a in ATTR_KINDS:
        for v in VIEW_CLASSES:
            if c("values:%s x %s" % (a, v), 0) < 5:
                out.append("attribute kind %s x view kind %s compared fewer than 5 times" % (a, v))
    for v in EXT_VIEW_CLASSES:
        for what in ("values_view:", "masks_view:", "masks_on_aligned_dataset:view:"):
            if c(what + v, 0) < 40:
                out.append("fewer than 40 comparisons %s%s" % (what, v))
    for k, need in (("values_on_column:layout:F", 50), ("values_on_column:layout:transposed", 50),
                    ("values_on_column:layout:reversed", 50), ("values_on_column:layout:strided", 50),
                    ("values_on_column:layout:broadcast", 50), ("values_on_column:layout:dask", 50),
                    ("values_on_column:dtype:>f8", 50), ("values_on_column:dtype:float32", 50),
                    ("values_on_column:dtype:uint8", 50), ("masks_of_edge_variants", 200), ("fault_then_valid_reads", 200),
                    ("masks_of_chunked_selection_kinds_with_small_chunk_limit", 30), ("data_blocks:large", 2),
                    ("data_blocks:zero_size", 2), ("masks_on_aligned_dataset:slice", 50),
                    ("masks_on_aligned_dataset:mask", 50), ("masks:join_ineq x none", 2), ("indexed_blocks:nested", 5),
                    ("indexed_blocks:index_style:numpy_int", 5),
                    ("indexed_indices_reassigned_back_to_the_first", 10), ("indexed:read_inside_change_message", 10)):
        if c(k, 0) < need:
            out.append("fewer than %d %s" % (need, k))
    for k, need in (("view_before_full:values:categorical", 100), ("view_before_full:codes", 50),
                    ("view_before_full:categorical_view_missing_a_category", 50), ("view_before_full:mask:category", 20),
                    ("view_before_full:statistic:categorical", 20), ("member_after_composite", 500),
                    ("member_after_composite:composite:multior", 100), ("member_after_composite:member:ineq", 30),
                    ("member_after_composite:member:category", 20), ("member_after_composite:member:element", 20),
                    ("member_after_composite:view:none", 50), ("member_after_composite:view:slices_full", 30)):
        if c(k, 0) < need:
            out.append("fewer than %d %s" % (need, k))
    for s in SELECTION_KINDS_ALWAYS + SELECTION_KINDS_SOMETIMES:
        for v in VIEW_CLASSES:
            if s in L.LEAF_KINDS_1D and v in ("slices_short", "int_slice_mix"):
                continue        # these selection kinds exist on 1-d tables only, where such views do not exist
            need = 5 if s in SELECTION_KINDS_ALWAYS else 2
            if c("masks:%s x %s" % (s, v), 0) < need:
                out.append("selection kind %s x view kind %s compared fewer than %d times" % (s, v, need))
    for k in ("indexed:values", "indexed:mask", "indexed:statistic", "indexed:histogram"):
        if c(k, 0) < 100:
            out.append("fewer than 100 comparisons of %s" % k)
    if c("indexed_indices_reassigned", 0) < 50:
        out.append("IndexedData.indices reassigned fewer than 50 times")
    if c("slice_pairs", 0) < 300:
        out.append("fewer than 300 (state slice, view) pairs")
    return out
