"""C07 - hub delivery: exactly once, in order, to the right listeners.

Shape: history + executable model.  A *hub program* (flat token list with a
LIFO stack of open delay / ignore blocks) and per-listener *handler scripts*
(token lists run when a listener receives a message: they broadcast, open
delay blocks, subscribe, unsubscribe ...) are interpreted twice by the same
interpreter: once against the real `glue.core.hub.Hub`, once against a small
sequential reference hub.  Every message has a unique uid, every delivery is
recorded as enter/exit events with the number of delay blocks the harness
itself has open, and the two histories must be equal (priority ties: any
order).  Independently of the model the real trace is checked online for
"no delivery while a delay block is open".
"""
import gc
import itertools

from glue.core.hub import Hub, HubListener
from glue.core.message import Message

ID = "C07"
LEVEL = "exploration"
BUDGET_S = {"quick": 35.0, "thorough": 420.0}
RULE = ("cases are hub programs (token lists over broadcast A|B<:A|C, enter/exit delay, enter/exit ignore, exit by "
        "exception, subscribe/unsubscribe/unsubscribe_all, drop listener + gc) run with 3-4 listeners whose handler "
        "scripts re-enter the hub; all programs up to a length bound over a 10-token alphabet x 5 listener "
        "configurations are enumerated, plus random programs up to length 60. A case is non-trivial when at least "
        "one handler ran and the program contains a delay or ignore block or a re-entrant handler; distinct = "
        "distinct (configuration, program) fingerprints.")
ASSUMPTIONS = ["the 70-line sequential reference hub is the specification (recipients fixed when delivery of a message "
               "starts; depth-first delivery; ignore matches the exact message class)",
               "handlers that raise are outside the statement and are not generated",
               "a message whose class is ignored at flush time but was not when queued, and a message whose strict superclass "
               "is ignored, are ambiguous in the statement; such programs are discarded and counted"]
ANCHORS = ["glue.core.hub:Hub.broadcast", "glue.core.hub:Hub.delay_callbacks", "glue.core.hub:Hub._find_handlers",
           "glue.core.hub:Hub.ignore_callbacks", "glue.core.hub:Hub.subscribe", "glue.core.hub:Hub.unsubscribe",
           "glue.core.hub_callback_container:HubCallbackContainer._auto_remove"]


class A(Message):
    pass


class B(A):
    pass


class C(Message):
    pass


class B2(B):
    pass


CLS = {"A": A, "B": B, "C": C, "B2": B2, "M": Message}


class Ambiguous(Exception):
    pass


class Boom(Exception):
    pass


# ---------------------------------------------------------------- reference hub
class _ModelCM:
    def __init__(self, enter, exit_):
        self._enter, self._exit = enter, exit_

    def __enter__(self):
        self._enter()

    def __exit__(self, *exc):
        self._exit()
        return False


class ModelHub:
    """Sequential specification of the hub."""

    def __init__(self, world):
        self.world = world
        self.subs = {}          # lid -> {cls: (handlerkind, filterkind, priority)}
        self.depth = 0
        self.queue = []         # (message, ignored-at-broadcast?)
        self.ignore = {}

    def subscribe(self, lid, cls, handler, filt, priority):
        self.subs.setdefault(lid, {})[cls] = (handler, filt, priority)

    def unsubscribe(self, lid, cls):
        self.subs.get(lid, {}).pop(cls, None)

    def unsubscribe_all(self, lid):
        self.subs.pop(lid, None)

    def drop(self, lid):
        self.subs.pop(lid, None)

    def delay_callbacks(self):
        def enter():
            self.depth += 1

        def exit_():
            self.depth -= 1
            if self.depth == 0:
                queue, self.queue = self.queue, []
                for msg in queue:
                    if any(n > 0 and isinstance(msg, c) for c, n in self.ignore.items()):
                        # queued while not ignored, ignored now: the statement does not say
                        raise Ambiguous()
                    self.broadcast(msg)
        return _ModelCM(enter, exit_)

    def ignore_callbacks(self, cls):
        def enter():
            self.ignore[cls] = self.ignore.get(cls, 0) + 1

        def exit_():
            self.ignore[cls] -= 1
        return _ModelCM(enter, exit_)

    def broadcast(self, msg):
        if self.ignore.get(type(msg), 0) > 0:
            return
        if any(n > 0 and isinstance(msg, c) for c, n in self.ignore.items()):
            # a superclass of the message's class is ignored: the statement ("ignored message types are
            # dropped") does not say whether that covers subclasses; either behaviour is accepted
            raise Ambiguous()
        if self.depth > 0:
            self.queue.append(msg)
            return
        recips = []
        for lid, table in self.subs.items():
            matching = [c for c in table if isinstance(msg, c)]
            if not matching:
                continue
            cand = max(matching, key=lambda c: len(c.__mro__))
            handler, filt, prio = table[cand]
            if accept(filt, msg):
                recips.append((lid, handler, prio))
        recips.sort(key=lambda r: -r[2])
        for lid, handler, prio in recips:
            self.world.listeners[lid].receive(handler, msg, prio)


def accept(filt, msg):
    if filt == "all":
        return True
    if filt == "none":
        return False
    if filt == "even":
        return msg.tag % 2 == 0
    raise ValueError(filt)


# ---------------------------------------------------------------- real hub adapter
class RealHub:
    def __init__(self, world):
        self.world = world
        self.hub = Hub()

    def subscribe(self, lid, cls, handler, filt, priority):
        lis = self.world.listeners[lid]
        if handler == "notify":
            h = None
        elif handler == "method":
            h = lis.alt
        else:
            h = self.world.plain_handler(lid)
        f = {"all": None, "none": _none, "even": _even}[filt]
        kw = {}
        if f is not None:
            kw["filter"] = f
        if priority is not None:
            kw["priority"] = priority
        self.hub.subscribe(lis, cls, handler=h, **kw)

    def unsubscribe(self, lid, cls):
        self.hub.unsubscribe(self.world.listeners[lid], cls)

    def unsubscribe_all(self, lid):
        self.hub.unsubscribe_all(self.world.listeners[lid])

    def drop(self, lid):
        pass   # the world deletes the listener object and collects

    def delay_callbacks(self):
        return self.hub.delay_callbacks()

    def ignore_callbacks(self, cls):
        return self.hub.ignore_callbacks(cls)

    def broadcast(self, msg):
        self.hub.broadcast(msg)


def _none(msg):
    return False


def _even(msg):
    return msg.tag % 2 == 0


# ---------------------------------------------------------------- shared interpreter
class Listener(HubListener):
    def __init__(self, world, lid, scripts):
        self.world, self.lid, self.scripts = world, lid, scripts
        self.runs = {}

    def notify(self, msg):
        self.receive("notify", msg, None)

    def alt(self, msg):
        self.receive("method", msg, None)

    def receive(self, via, msg, prio):
        w = self.world
        w.log.append(("enter", self.lid, w.serial_of(msg), type(msg).__name__, via, w.open_delays, prio))
        w.handler_calls += 1
        key = type(msg).__name__
        script = self.scripts.get(key)
        if script is not None:
            n = self.runs.get(key, 0)
            if n < script[0]:
                self.runs[key] = n + 1
                w.reentrant_runs += 1
                w.active_handlers += 1
                try:
                    w.interpret(script[1], in_handler=True)
                finally:
                    w.active_handlers -= 1
        w.log.append(("exit", self.lid, w.serial_of(msg)))


class World:
    """One execution of a program against one hub implementation."""

    def __init__(self, kind, config):
        self.kind = kind
        self.hub = RealHub(self) if kind == "real" else ModelHub(self)
        self.listeners = {}
        self.log = []
        self.uid = itertools.count(1)
        self.open_delays = 0
        self.active_handlers = 0
        self.handler_calls = 0
        self.reentrant_runs = 0
        self.max_delay_depth = 0
        self.online_violation = None
        self.serial = {}
        self.keep = []
        for lid, (subs, scripts) in enumerate(config):
            self.listeners[lid] = Listener(self, lid, scripts)
            for (cls, handler, filt, prio) in subs:
                self.hub.subscribe(lid, CLS[cls], handler, filt, prio if self.kind == "real" or prio is not None else 10)

    def serial_of(self, msg):
        """History id of a message *object* (messages may carry equal payloads, so identity decides)."""
        return self.serial[id(msg)]

    def new_message(self, cls, tag=None):
        n = next(self.uid)
        msg = CLS[cls](None, tag=n if tag is None else tag)
        self.serial[id(msg)] = n
        self.keep.append(msg)     # keep alive: ids must not be reused within one execution
        return msg

    def plain_handler(self, lid):
        world = self

        def handler(msg):
            lis = world.listeners.get(lid)
            if lis is not None:
                lis.receive("plain", msg, None)
        return handler

    def interpret(self, prog, in_handler=False):
        stack = []
        try:
            for tok in prog:
                self.step(tok, stack, in_handler)
        finally:
            while stack:
                self.close(stack, False)

    def close(self, stack, by_exception):
        kind, cm = stack.pop()
        if kind == "delay":
            self.open_delays -= 1
        self.log.append(("ctl", "exit_exc" if by_exception else "exit", kind))
        if by_exception:
            try:
                cm.__exit__(Boom, Boom(), None)
            except Boom:
                pass
        else:
            cm.__exit__(None, None, None)

    def step(self, tok, stack, in_handler):
        op = tok[0]
        hub = self.hub
        if op == "b":
            msg = self.new_message(tok[1])
            self.log.append(("ctl", "broadcast", tok[1], self.serial_of(msg), self.open_delays))
            hub.broadcast(msg)
        elif op == "bd":
            # a distinct message object whose payload (class, sender, tag) equals that of earlier messages
            msg = self.new_message(tok[1], tag=tok[2])
            self.log.append(("ctl", "broadcast_equal_payload", tok[1], self.serial_of(msg), self.open_delays))
            hub.broadcast(msg)
        elif op == "rb":
            # the very same message object broadcast again: it must be delivered again
            if self.keep:
                msg = self.keep[-1]
                self.log.append(("ctl", "rebroadcast", type(msg).__name__, self.serial_of(msg), self.open_delays))
                hub.broadcast(msg)
        elif op == "delay":
            cm = hub.delay_callbacks()
            cm.__enter__()
            self.open_delays += 1
            self.max_delay_depth = max(self.max_delay_depth, self.open_delays)
            stack.append(("delay", cm))
            self.log.append(("ctl", "enter", "delay"))
        elif op == "ignore":
            cm = hub.ignore_callbacks(CLS[tok[1]])
            cm.__enter__()
            stack.append(("ignore", cm))
            self.log.append(("ctl", "enter", "ignore", tok[1]))
        elif op == "exit":
            if stack:
                self.close(stack, False)
        elif op == "exit_exc":
            if stack:
                self.close(stack, True)
        elif op == "sub":
            _, lid, cls, handler, filt, prio = tok
            if lid in self.listeners:
                p = prio
                if self.kind == "model" and p is None:
                    p = 10
                hub.subscribe(lid, CLS[cls], handler, filt, p)
                self.log.append(("ctl", "sub", lid, cls))
        elif op == "unsub":
            if tok[1] in self.listeners:
                hub.unsubscribe(tok[1], CLS[tok[2]])
                self.log.append(("ctl", "unsub", tok[1], tok[2]))
        elif op == "unsub_all":
            if tok[1] in self.listeners:
                hub.unsubscribe_all(tok[1])
                self.log.append(("ctl", "unsub_all", tok[1]))
        elif op == "new":
            # a listener created in the middle of the history (possibly at the address of a collected one)
            _, lid, cls, handler, filt, prio = tok
            if lid not in self.listeners and not in_handler:
                self.listeners[lid] = Listener(self, lid, {})
                hub.subscribe(lid, CLS[cls], handler, filt, prio)
                self.log.append(("ctl", "new", lid, cls))
        elif op == "drop":
            if not in_handler and self.active_handlers == 0 and tok[1] in self.listeners:
                hub.drop(tok[1])
                del self.listeners[tok[1]]
                if self.kind == "real":
                    gc.collect(0)
                self.log.append(("ctl", "drop", tok[1]))
        else:
            raise ValueError(tok)


# ---------------------------------------------------------------- comparison
def deliveries(log):
    return [e for e in log if e[0] in ("enter", "exit")]


def compare(ctx, config_id, prog, real, model, ties):
    """Returns a signature dict for the first divergence, or None."""
    # online trace specification, independent of the model
    for e in real.log:
        if e[0] == "enter" and e[5] > 0:
            return {"kind": "delivery_while_delay_open", "delay_depth": min(e[5], 3)}
    rl, ml = real.log, model.log
    if ties:
        # no handler scripts: deliveries of one message are contiguous; accept any order among equal priorities
        rl = canon_ties(rl, ml)
        if rl is None:
            return {"kind": "priority_or_recipient_mismatch_with_ties"}
    strip = lambda e: e[:6] if e[0] == "enter" else e
    n = min(len(rl), len(ml))
    for i in range(n + 1):
        r = strip(rl[i]) if i < len(rl) else None
        m = strip(ml[i]) if i < len(ml) else None
        if r == m:
            continue
        # classify
        def cnt(log, lid, uid):
            return sum(1 for e in log if e[0] == "enter" and e[1] == lid and e[2] == uid)
        kind = "trace_mismatch"
        ev = r if (r is not None and r[0] == "enter") else (m if (m is not None and m[0] == "enter") else None)
        if ev is not None:
            cr, cm_ = cnt(real.log, ev[1], ev[2]), cnt(model.log, ev[1], ev[2])
            if cr > cm_ and cm_ == 0:
                kind = "delivered_to_wrong_listener_or_dropped_type"
            elif cr > cm_:
                kind = "duplicate_delivery"
            elif cr < cm_ and cr == 0:
                kind = "lost_delivery"
            elif cr < cm_:
                kind = "fewer_deliveries"
            else:
                kind = "delivery_order"
        depth_before = 0
        in_handler = 0
        for e in ml[:i]:
            if e[0] == "ctl" and e[1] == "enter" and e[2] == "delay":
                depth_before += 1
            elif e[0] == "ctl" and e[1] in ("exit", "exit_exc") and e[2] == "delay":
                depth_before -= 1
            elif e[0] == "enter":
                in_handler += 1
            elif e[0] == "exit":
                in_handler -= 1
        return {"kind": kind, "inside_delay": depth_before > 0, "inside_handler": in_handler > 0,
                "program_has_nested_delay": model.max_delay_depth >= 2,
                "program_has_exception_exit": any(t[0] == "exit_exc" for t in prog)}
    return None


def canon_ties(rl, ml):
    """Reorder the real log's contiguous same-message delivery blocks to the
    model's order when they are the same multiset and the real order respects
    the priorities recorded by the model.  None when that is impossible."""
    out = []
    i = 0
    j = 0
    while i < len(rl):
        e = rl[i]
        if e[0] != "enter":
            out.append(e)
            i += 1
            continue
        uid = e[2]
        block = []
        while i < len(rl) and rl[i][0] in ("enter", "exit") and rl[i][2] == uid:
            block.append(rl[i])
            i += 1
        mblock = [m for m in ml if m[0] in ("enter", "exit") and m[2] == uid]
        prio = {m[1]: m[6] for m in mblock if m[0] == "enter"}
        renter = [b for b in block if b[0] == "enter"]
        if sorted(b[1] for b in renter) != sorted(prio):
            return None
        ps = [prio[b[1]] for b in renter]
        if any(ps[k] < ps[k + 1] for k in range(len(ps) - 1)):
            return None
        # pair enter/exit must alternate
        for k in range(0, len(block), 2):
            if k + 1 >= len(block) or block[k][0] != "enter" or block[k + 1][0] != "exit" or block[k][1] != block[k + 1][1]:
                return None
        byl = {b[1]: b for b in renter}
        for m in mblock:
            if m[0] == "enter":
                b = byl[m[1]]
                out.append(b)
            else:
                out.append(m)
    return out


# ---------------------------------------------------------------- workload
def S(n, *toks):
    return (n, list(toks))


# listener configurations: per listener (subscriptions, scripts); priorities distinct across listeners
# unless the configuration is marked as a ties configuration (then no scripts).
CONFIGS = [
    # 0: re-entrant broadcasting handlers
    ([([("A", "notify", "all", 20)], {"A": S(2, ("b", "C"))}),
      ([("A", "method", "all", 11), ("B", "notify", "all", 31)], {"B": S(1, ("delay",), ("b", "C"), ("b", "A"), ("exit",))}),
      ([("C", "plain", "all", 5)], {"C": S(1, ("unsub", 0, "A"))})], False),
    # 1: handlers that open delay blocks / ignore blocks while being flushed
    ([([("M", "notify", "all", 12)], {"A": S(3, ("delay",), ("exit",)), "C": S(1, ("ignore", "A"), ("b", "A"), ("exit",))}),
      ([("A", "notify", "even", 3), ("C", "method", "all", 23)], {"C": S(2, ("delay",), ("b", "B"), ("exit",), ("b", "A"))}),
      ([("B", "plain", "all", 34)], {"B": S(1, ("sub", 2, "C", "plain", "all", 44), ("unsub_all", 1))})], False),
    # 2: priority ties, filters, most-specific subscription (pure recorders)
    ([([("A", "notify", "all", None), ("B", "method", "none", None)], {}),
      ([("A", "method", "all", None), ("M", "plain", "even", 10)], {}),
      ([("M", "notify", "all", 10), ("B2", "plain", "all", 99)], {}),
      ([("C", "notify", "all", 10), ("A", "notify", "even", 50)], {})], True),
    # 3: subscribe / unsubscribe from inside handlers, nested broadcasts three deep
    ([([("A", "notify", "all", 40)], {"B": S(1, ("b", "C")), "A": S(1, ("sub", 1, "C", "notify", "all", 21))}),
      ([("B", "notify", "all", 21)], {"B": S(1, ("b", "B2")), "C": S(1, ("b", "A"), ("unsub", 1, "C"))}),
      ([("M", "method", "all", 2)], {"B2": S(1, ("delay",), ("delay",), ("b", "C"), ("exit",), ("b", "A"), ("exit",))})], False),
    # 4: handler leaving a delay block by exception, and ignoring its own class
    ([([("C", "notify", "all", 10)], {"C": S(2, ("delay",), ("b", "A"), ("exit_exc",), ("b", "B"))}),
      ([("A", "notify", "all", 21)], {"A": S(2, ("ignore", "C"), ("b", "C"), ("exit",), ("b", "C"))}),
      ([("B", "method", "even", 32), ("M", "notify", "all", 33)], {})], False),
]

ALPHABET = [("b", "A"), ("b", "B"), ("b", "C"), ("delay",), ("exit",), ("exit_exc",), ("ignore", "B"),
            ("sub", 2, "A", "method", "all", 7), ("unsub", 1, "A"), ("drop", 1)]
ENUM_LEN = {"quick": 4, "thorough": 6}
N_RANDOM = {"quick": 20000, "thorough": 400000}
EXHAUSTIVE = {"quick": False, "thorough": False}


def cases(tier, seed):
    L = ENUM_LEN[tier]
    plen = 2 if tier == "quick" else 3
    for c in range(len(CONFIGS)):
        for length in range(1, L + 1):
            if length <= plen:
                yield ["enum", c, length, []]
            else:
                for prefix in itertools.product(range(len(ALPHABET)), repeat=plen):
                    yield ["enum", c, length, list(prefix)]
    for i in range(0, N_RANDOM[tier], 50):
        yield ["rand", i]


def run_program(ctx, config_id, config, ties, prog):
    real = World("real", config)
    model = World("model", config)
    try:
        model.interpret(prog)
    except Ambiguous:
        ctx.count("ambiguous_ignore_programs_discarded")
        return
    real.interpret(prog)
    sig = compare(ctx, config_id, prog, real, model, ties)
    nontrivial = model.handler_calls > 0 and (model.reentrant_runs > 0 or any(t[0] in ("delay", "ignore") for t in prog))
    ctx.evaluation([config_id, prog], nontrivial)
    ctx.count("handler_invocations_real", real.handler_calls)
    ctx.count("deliveries_compared", len(deliveries(model.log)) // 2)
    if model.reentrant_runs:
        ctx.count("programs_with_reentrant_handler")
    if model.max_delay_depth >= 2:
        ctx.count("programs_with_nested_delay")
    if any(t[0] == "exit_exc" for t in prog) and model.max_delay_depth:
        ctx.count("programs_with_exception_exit")
    if any(e[0] == "ctl" and e[1] == "drop" for e in model.log):
        ctx.count("programs_with_gc_dropped_listener")
    if any(e[0] == "ctl" and e[1] == "new" for e in model.log):
        ctx.count("programs_with_listener_created_mid_history")
    if len(prog) > 100:
        ctx.count("programs_with_long_queue")
    if sum(1 for t in prog if t[0] in ("bd", "rb")) >= 2:
        ctx.count("programs_with_equal_payload_or_rebroadcast_messages")
    if sig is not None:
        ctx.violation(sig, {"config": config_id, "program": prog, "real_log": real.log[:80], "model_log": model.log[:80]})
    elif ctx.rng.random() < 0.0005:
        ctx.sample({"config": config_id, "program": prog, "deliveries": [e for e in real.log if e[0] == "enter"][:12]})


def random_config(rng):
    nl = rng.choice([3, 3, 4, 4, 4, 4])   # priorities are lid + 4k: at most 4 scripted listeners stay tie-free
    ties = rng.random() < 0.2
    config = []
    for lid in range(nl):
        subs = []
        for cls in rng.sample(["A", "B", "C", "B2", "M"], rng.randint(1, 3)):
            prio = rng.choice([None, 10, 10, 5, 20]) if ties else lid + 4 * rng.randint(0, 12)
            subs.append((cls, rng.choice(["notify", "method", "plain"]), rng.choice(["all", "all", "all", "even", "none"]), prio))
        scripts = {}
        if not ties:
            for cls in rng.sample(["A", "B", "C", "B2"], rng.randint(0, 3)):
                scripts[cls] = (rng.randint(1, 2), random_prog(rng, rng.randint(1, 5), nl, handler=True))
        config.append((subs, scripts))
    return config, ties


def random_prog(rng, n, nl, handler=False, ties=False):
    prog = []
    for _ in range(n):
        r = rng.random()
        if r < 0.4:
            r2 = rng.random()
            if ties or r2 < 0.8:
                prog.append(("b", rng.choice(["A", "B", "C", "B2"])))
            elif r2 < 0.95:
                prog.append(("bd", rng.choice(["A", "B", "C"]), rng.choice([0, 0, 1, 2])))
            else:
                prog.append(("rb",))
        elif r < 0.55:
            prog.append(("delay",))
        elif r < 0.7:
            prog.append(("exit",))
        elif r < 0.75:
            prog.append(("exit_exc",))
        elif r < 0.82:
            prog.append(("ignore", rng.choice(["A", "B", "C"])))
        elif r < 0.9:
            lid = rng.randrange(nl)
            prio = rng.choice([None, 10, 20]) if ties else lid + 4 * rng.randint(0, 12)
            prog.append(("sub", lid, rng.choice(["A", "B", "C", "M"]), rng.choice(["notify", "method", "plain"]),
                         rng.choice(["all", "all", "even", "none"]), prio))
        elif r < 0.95:
            prog.append(("unsub", rng.randrange(nl), rng.choice(["A", "B", "C", "M"])))
        elif r < 0.98 or handler:
            prog.append(("unsub_all", rng.randrange(nl)))
        elif r < 0.99:
            prog.append(("drop", rng.randrange(nl)))
        else:
            lid = nl + rng.randrange(3)
            prog.append(("new", lid, rng.choice(["A", "B", "C", "M"]), rng.choice(["notify", "method", "plain"]),
                         rng.choice(["all", "all", "even"]), 1000 + 7 * lid))
    if not handler and rng.random() < 0.03:
        # a long queue: many broadcasts inside one delay block
        burst = [("delay",)] + [("b", rng.choice(["A", "B", "C", "B2"])) for _ in range(rng.randint(50, 300))] + [("exit",)]
        k = rng.randrange(len(prog) + 1)
        prog[k:k] = burst
    return prog


def run_case(ctx, case):
    if case[0] == "enum":
        _, c, length, prefix = case
        config, ties = CONFIGS[c]
        rest = length - len(prefix)
        for tail in itertools.product(range(len(ALPHABET)), repeat=rest):
            prog = [ALPHABET[k] for k in list(prefix) + list(tail)]
            run_program(ctx, c, config, ties, prog)
        ctx.count("enumerated_blocks")
    else:
        for _ in range(50):
            config, ties = random_config(ctx.rng)
            prog = random_prog(ctx.rng, ctx.rng.randint(3, 60 if ctx.rng.random() < 0.3 else 14), len(config), ties=ties)
            run_program(ctx, "random:" + repr(config), config, ties, prog)
        ctx.count("random_blocks")


def floors(counters, tier):
    out = []
    if counters.get("handler_invocations_real", 0) < 1000:
        out.append("fewer than 1000 handler invocations observed on the real hub")
    for k in ("programs_with_nested_delay", "programs_with_reentrant_handler", "programs_with_exception_exit",
              "programs_with_gc_dropped_listener", "programs_with_equal_payload_or_rebroadcast_messages"):
        if counters.get(k, 0) < 20:
            out.append("fewer than 20 %s" % k)
    return out
