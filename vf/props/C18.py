"""C18 - viewers and attribute pickers mirror the collection.

Shape: history + invariants at quiescent points + independent set / filter oracles.

Three kinds of cases:

 ["viewer", kind, i]  one history on one headless built-in viewer (histogram, scatter, image, profile) inside a
                      harness `Application` subclass that records its viewers: collection operations (append,
                      remove, subset groups, component add / remove / rename / reorder, blocks inside
                      hub.delay_callbacks()), viewer operations (add / remove data and subsets, remove a layer through
                      the container or through state.layers), explicit selections, filter flips, and save + restore of
                      the whole application.  After every operation:
                        (L) viewer.layers == the layers the harness's set model expects, each exactly once;
                            viewer.layers and viewer.state.layers hold the same layer states;
                        (P) every attribute picker found on the viewer state and on the layer states offers exactly
                            the attributes of its datasets that pass an independent re-statement of the kind filter,
                            and selects one of them (None iff there is none);  the dataset pickers offer exactly the
                            datasets of the layers;
                        (X) image viewer: x_att is not y_att, both pixel attributes of the reference dataset, and the
                            displayed (world) attributes are the ones of the same axes.
                      After a restore the same checks run on the restored viewer, plus "same layers as saved".
 ["picker", i]        a block of cheap histories on bare ComponentIDComboHelper / ManualDataComboHelper /
                      DataCollectionComboHelper objects attached to a harness State (no matplotlib).
 ["states", i]        every State subclass found by introspection that can be built without arguments is given
                      perturbed simple values and round-tripped through the session serializer.
"""
import gc
import json
import time

import numpy as np

from echo import ChoiceSeparator, SelectionCallbackProperty, CallbackProperty

from glue.core import Data, DataCollection, BaseData, Subset
from glue.core.application_base import Application
from glue.core.component_id import ComponentID
from glue.core.coordinates import AffineCoordinates, IdentityCoordinates
from glue.core.data_combo_helper import (ComponentIDComboHelper, DataCollectionComboHelper, ManualDataComboHelper)
from glue.core.exceptions import IncompatibleDataException
from glue.core.state import GlueSerializer, GlueUnSerializer
from glue.core.state_objects import State
from glue.core.hub import HubListener
from glue.core import message as msg_mod

ID = "C18"
LEVEL = "exploration"
BUDGET_S = {"quick": 100.0, "thorough": 500.0}
RULE = ("viewer cases: random histories (10-26 operations) per built-in viewer kind over a pool of four datasets "
        "(1-d tables with categorical / datetime / derived columns, 2-d and 3-d arrays with and without coordinates): "
        "collection operations, viewer operations, explicit selections, filter flips, delay blocks and save+restore; "
        "picker cases: histories on bare combo helpers; state cases: round trips of introspected State subclasses. "
        "One evaluation = one quiescent-point check (layers + pickers + image axes) or one restore comparison; a "
        "viewer check is non-trivial when the viewer holds at least one layer; distinct = distinct (viewer kind, "
        "operation, previous operation, number of data layers, number of subset layers, reference has coordinates) / "
        "(helper kind, operation, flags) fingerprints.")
ASSUMPTIONS = [
    "a dataset has been 'given' to a viewer when add_data returned True; remove_data, removal from the collection or "
    "removal of its layer take it away again; a subset layer removed explicitly stays away until it is added again; "
    "a subset added explicitly without its dataset is a layer of its own",
    "the order of layers and of offered choices is not part of the statement: multisets are compared",
    "an operation that raises is not by itself a violation (the statement is about the state afterwards); it is "
    "tallied and the checks run on whatever state it left",
    "the kind of an attribute is re-derived from the dtype of its values (datetime64 / string / other), the flags of "
    "a picker are read from its public properties",
    "image viewer: a 1-d dataset is only an overlay; offered first, or left as the reference after the image was "
    "removed, it is outside the viewer's domain (tallied, nothing decided, history ends)",
    "image / profile layers showing a datetime attribute cannot be computed by those viewers (every redraw raises): "
    "not selected explicitly, and a history in which one is selected automatically ends undecided (tallied)",
    "categorical columns only in 1-d tables (a restored n-d categorical component cannot compute its codes: data "
    "round trip, not viewer)",
    "after an exception the signature names the first operation that raised (exception_in); an add_data that raised "
    "with its layer already in place counts as given; a dataset removed from the collection is taken away at once, "
    "also when re-appended inside the same delay block",
    "with no relevant dataset a picker may or may not offer its 'nothing' entry",
    "values of callback properties after a restore are compared only as evidence (tallied per property), the "
    "deciding checks after a restore are the ones of the statement",
]
ANCHORS = ["glue.viewers.common.viewer:Viewer.add_data", "glue.viewers.common.viewer:Viewer.remove_data",
           "glue.viewers.common.viewer:Viewer.add_subset", "glue.viewers.common.viewer:Viewer._sync_state_layers",
           "glue.viewers.common.viewer:Viewer._sync_layer_artist_container",
           "glue.viewers.common.viewer:Viewer.__setgluestate__",
           "glue.core.data_combo_helper:ComponentIDComboHelper.refresh",
           "glue.core.data_combo_helper:ManualDataComboHelper.set_multiple_data",
           "glue.viewers.image.state:ImageViewerState._on_xatt_world_change",
           "glue.viewers.image.state:ImageViewerState._on_yatt_world_change",
           "glue.viewers.image.state:ImageViewerState._reference_data_changed",
           "glue.core.state_objects:State.update_from_dict"]

KINDS = ["histogram", "scatter", "image", "profile"]
N_VIEWER = {"quick": 22, "thorough": 160}      # histories per viewer kind
N_PICKER = {"quick": 32, "thorough": 400}      # blocks of picker histories
N_STATES = {"quick": 4, "thorough": 16}

_VIEWER_CLS = {}


def viewer_cls(kind):
    if not _VIEWER_CLS:
        from glue.viewers.histogram.viewer import SimpleHistogramViewer
        from glue.viewers.scatter.viewer import SimpleScatterViewer
        from glue.viewers.image.viewer import SimpleImageViewer
        from glue.viewers.profile.viewer import SimpleProfileViewer
        _VIEWER_CLS.update(histogram=SimpleHistogramViewer, scatter=SimpleScatterViewer, image=SimpleImageViewer,
                           profile=SimpleProfileViewer)
    return _VIEWER_CLS[kind]


def setup(ctx):
    # rendering resolution is a configuration value, not semantics: small figures keep the Agg draws cheap
    import matplotlib
    matplotlib.rcParams["figure.dpi"] = 25
    matplotlib.rcParams["figure.figsize"] = (3, 2.5)


class HApp(Application):
    """Minimal front-end: records its viewers and saves / restores them (the way the real front-ends do)."""

    def __init__(self, *a, **k):
        super().__init__(*a, **k)
        self._viewers = []

    def add_widget(self, v):
        self._viewers.append(v)

    def __gluestate__(self, context):
        r = super().__gluestate__(context)
        r["viewers"] = [context.id(v) for v in self._viewers]
        return r

    @classmethod
    def __setgluestate__(cls, rec, context):
        self = super().__setgluestate__(rec, context)
        for v in rec["viewers"]:
            self._viewers.append(context.object(v))
        return self


# ---------------------------------------------------------------- small helpers
def is_in(x, seq):
    return any(x is y for y in seq)


def idsorted(seq):
    return sorted(id(x) for x in seq)


def lab(x):
    if x is None:
        return None
    return str(getattr(x, "label", x))


def layer_key(layer):
    """Structural name of a layer that survives save/restore."""
    if isinstance(layer, Subset):
        return [lab(layer.data), lab(layer)]
    return [lab(layer), None]


def unique_datasets(layers):
    out = []
    for x in layers:
        d = x.data if isinstance(x, Subset) else x
        if not is_in(d, out):
            out.append(d)
    return out


def attr_kind(d, c):
    """Kind of an attribute re-derived from its values."""
    try:
        k = np.asarray(d.get_data(c)).dtype.kind
    except Exception:
        # c is not (any more) an attribute of d - e.g. a stale picker entry after an operation that raised
        return "unknown"
    if k == "M":
        return "datetime"
    if k in "USO":
        return "categorical"
    return "numerical"


def expected_choices(datasets, h):
    """Independent re-statement of the ComponentIDComboHelper filter."""
    out = []
    if h.none:
        out.append(None)
    for d in datasets:
        for c in d.main_components:
            k = attr_kind(d, c)
            if (k == "numerical" and h.numeric) or (k == "datetime" and h.datetime) or (k == "categorical" and h.categorical):
                out.append(c)
        if h.numeric and h.derived:
            out += [c for c in d.derived_components if c.parent is d]
        if h.pixel_coord:
            out += list(d.pixel_component_ids)
        if h.world_coord:
            out += list(d.world_component_ids)
    return out


def flags_of(h):
    return {k: bool(getattr(h, k)) for k in ("numeric", "categorical", "datetime", "pixel_coord", "world_coord", "derived", "none")}


def check_component_picker(h, datasets, where):
    """-> list of (kind, extra-signature, detail)."""
    out = []
    got = [c for c in h.choices if not isinstance(c, ChoiceSeparator)]
    exp = expected_choices(datasets, h)
    if not datasets and all(c is None for c in got) and len(got) <= 1:
        # no dataset: whether the "nothing" entry is offered is not an attribute question (tolerated both ways)
        exp = list(got)
    if idsorted(got) != idsorted(exp):
        missing = [c for c in exp if not is_in(c, got)]
        extra = [c for c in got if not is_in(c, exp)]
        dup = len(set(map(id, got))) != len(got)
        why = "offers_foreign_or_stale" if extra else ("misses_attribute" if missing else ("duplicate_choice" if dup else "multiplicity"))
        kinds = set()
        for c in missing + extra:
            kinds.add(component_class(c, datasets))
        out.append(("picker_choices_differ", {"picker": where, "how": why, "attribute_kinds": "+".join(sorted(kinds))},
                    {"got": [lab(c) for c in got], "expected": [lab(c) for c in exp], "flags": flags_of(h),
                     "datasets": [lab(d) for d in datasets]}))
    sel = h.selection
    if got:
        if not is_in(sel, got):
            out.append(("picker_selection_not_offered", {"picker": where, "selection": "none" if sel is None else "stale"},
                        {"selection": lab(sel), "choices": [lab(c) for c in got]}))
    elif sel is not None:
        out.append(("picker_selects_although_nothing_offered", {"picker": where}, {"selection": lab(sel)}))
    return out


def component_class(c, datasets):
    if c is None:
        return "none"
    for d in datasets:
        if is_in(c, d.pixel_component_ids):
            return "pixel"
        if is_in(c, d.world_component_ids):
            return "world"
        if is_in(c, d.derived_components):
            return "derived"
        if is_in(c, d.main_components):
            return attr_kind(d, c)
    return "not_in_datasets"


def check_data_picker(h, datasets, where):
    out = []
    got = [c for c in h.choices if not isinstance(c, ChoiceSeparator)]
    if idsorted(got) != idsorted(datasets):
        out.append(("data_picker_choices_differ", {"picker": where, "relation": "more" if len(got) > len(datasets) else
                                                   ("fewer" if len(got) < len(datasets) else "other")},
                    {"got": [lab(c) for c in got], "expected": [lab(d) for d in datasets]}))
    sel = h.selection
    if got:
        if not is_in(sel, got):
            out.append(("data_picker_selection_not_offered", {"picker": where, "selection": "none" if sel is None else "stale"},
                        {"selection": lab(sel), "choices": [lab(c) for c in got]}))
    elif sel is not None:
        out.append(("data_picker_selects_although_nothing_offered", {"picker": where}, {"selection": lab(sel)}))
    return out


# ---------------------------------------------------------------- datasets
X_DTYPES = ["float64", "float32", ">f8", "int16", "uint8", "int64"]


def make_dataset(rng, label, nd, coords, ctx=None, single_row_ok=False):
    shape = tuple(rng.randint(2, 4) for _ in range(nd))
    if nd == 1:
        # tables: now and then a single row or enough rows (with duplicates) to leave numpy's small-array paths
        # (a single row is only used in the picker histories: with one row whose value is 0 - e.g. its pixel coordinate -
        # the histogram viewer asks fast_histogram for the range (0, 5e-323), which crashes the interpreter: a
        # compute_histogram defect (C10's ground), lethal for a worker process)
        shape = (rng.choice([1, 2, 3, 4, 4, 150] if ctx is None or single_row_ok else [2, 3, 4, 4, 150]),)
    n = int(np.prod(shape))
    kw = {}
    if coords == "identity":
        kw["coords"] = IdentityCoordinates(n_dim=nd)
    elif coords == "affine":
        m = np.eye(nd + 1)
        for i in range(nd):
            m[i, i] = rng.choice([0.5, 2.0])
            m[i, nd] = rng.choice([0.0, 1.0])
        kw["coords"] = AffineCoordinates(m)
    d = Data(label=label, **kw)
    xdt = rng.choice(X_DTYPES)
    x = (np.arange(n, dtype=float).reshape(shape) + rng.randint(0, 3)).astype(xdt)
    if nd >= 2 and rng.random() < 0.4:
        x = np.asfortranarray(x) if rng.random() < 0.5 else x[::-1, ...]      # non-contiguous storage
    scale = rng.choice([1.0, 1.0, 1.0, 1e-10, 1e12])
    if ctx is not None:
        ctx.count("dataset_x_dtype:" + xdt)
        ctx.count("dataset_rows:%s" % ("1" if n == 1 else ("150" if n >= 150 else "few")))
        ctx.count("dataset_y_scale:%g" % scale)
    d.add_component(x, "x")
    d.add_component(((np.arange(n, dtype=float).reshape(shape) % 5) ** 2 + 1) * scale, "y")
    d.add_component(np.array([rng.randint(0, 9) for _ in range(n)]).reshape(shape), "k")
    if nd == 1 and rng.random() < 0.75:
        # categorical columns only in 1-d tables (a restored n-d categorical component cannot compute its codes -
        # a data round-trip matter, not a viewer one)
        d.add_component(np.array([rng.choice(["a", "b", "c"]) for _ in range(n)]).reshape(shape), "cat")
    if rng.random() < 0.4:
        d.add_component((np.datetime64("2021-01-01") + np.arange(n).astype("timedelta64[D]")).reshape(shape), "when")
    if rng.random() < 0.6:
        d.add_component_link(d.id["x"] * 2 + 1, "dx")
    return d


POOLS = {
    # (ndim, coords) of the four pool datasets, by viewer kind
    "histogram": [[(1, "none"), (1, "identity"), (2, "none"), (2, "affine")],
                  [(1, "none"), (1, "none"), (1, "affine"), (3, "identity")]],
    "scatter": [[(1, "none"), (1, "identity"), (2, "none"), (2, "affine")],
                [(1, "none"), (1, "none"), (2, "identity"), (1, "affine")]],
    "image": [[(2, "none"), (2, "identity"), (3, "none"), (2, "affine")],
              [(3, "identity"), (2, "none"), (2, "none"), (1, "none")],
              [(2, "affine"), (3, "affine"), (2, "identity"), (1, "identity")]],
    "profile": [[(1, "none"), (2, "identity"), (3, "none"), (1, "affine")],
                [(3, "identity"), (2, "none"), (1, "none"), (3, "affine")]],
}


# ---------------------------------------------------------------- viewer world
def link_sum(x, y):
    return x + y


def link_fw2(x, y):
    return x + y, x - y


def link_bw2(u, v):
    return (u + v) / 2.0, (u - v) / 2.0


def exception_detail(e):
    """Structural class of an exception raised by glue during an operation (goes into signatures)."""
    if isinstance(e, AttributeError) and "'NoneType' has no attribute" in str(e):
        # ComboHelper.choices / _on_rename with helper.state (a weak reference) already dead
        return "picker_of_collected_state"
    return type(e).__name__


def note_exception(world, name, e):
    world.prev_raised = True
    if not world.after_exception:
        world.exception_in = name      # the first operation that raised since the last clean check
        world.exception_kind = exception_detail(e)
    world.after_exception = True


class AutoAdd(HubListener):
    """What applications do: when a dataset joins the collection, hand it to the viewer - from inside the hub delivery.
    Also reacts to a new subset by changing its style (a re-entrant broadcast while the create message is delivered)."""

    def __init__(self, world):
        self.world = world
        self.added = []
        world.dc.hub.subscribe(self, msg_mod.DataCollectionAddMessage, handler=self.on_add)
        world.dc.hub.subscribe(self, msg_mod.SubsetCreateMessage, handler=self.on_subset)

    def on_add(self, message):
        w = self.world
        d = message.data
        if (w.kind == "image" and d.ndim < 2) or not is_in(d, list(w.dc)):
            return
        try:
            ok = w.viewer.add_data(d)
        except Exception as e:
            w.ctx.count("auto_add_raised:%s:%s" % (w.kind, type(e).__name__))
            note_exception(w, "auto_add_data", e)
            ok = any(a.layer is d for a in w.viewer.layers)
        if ok:
            w.ctx.count("auto_add_during_delivery:" + w.kind)
            if not is_in(d, w.given):
                w.given.append(d)
                w.lonely = [s for s in w.lonely if s.data is not d]
            if not is_in(d, w.ever_given):
                w.ever_given.append(d)

    def on_subset(self, message):
        try:
            message.subset.style.alpha = 0.5 if message.subset.style.alpha != 0.5 else 0.6
            self.world.ctx.count("subset_style_changed_during_create_delivery")
        except Exception:
            pass


class VWorld:
    def __init__(self, ctx, kind):
        rng = ctx.rng
        self.ctx = ctx
        self.kind = kind
        spec = rng.choice(POOLS[kind])
        self.pool = [make_dataset(rng, "d%d" % i, nd, co, ctx) for i, (nd, co) in enumerate(spec)]
        n0 = rng.randint(1, 3)
        self.dc = DataCollection(self.pool[:n0])
        self.app = HApp(self.dc)
        self.viewer = self.app.new_data_viewer(viewer_cls(kind))
        self._auto_wanted = rng.random() < 0.4
        # harness model of what the viewer has been given
        self.given = []        # datasets
        self.lonely = []       # subsets added without their dataset (or left behind by removing the dataset's own layer)
        self.hidden = []       # subsets of given datasets whose layer was removed explicitly
        self.counter = 0
        self.removed_labels = {}
        self.links = []
        self.prev_raised = False
        self.pending_readd = None
        self.pending_append = None
        self.sig_flags = {}
        self.pending_ops = []        # operation kinds scheduled by an earlier operation (delete what was just created, ...)
        self.fresh_ungrouped = []
        self.pending_readd_now = None
        self.script_empty_now = False
        self.auto = None
        self.ever_given = []
        self.after_exception = False
        self.out_of_domain = False
        self.exception_in = None      # name of the operation that raised most recently (structural, goes into signatures)
        self.exception_kind = None
        if self._auto_wanted:
            self.auto = AutoAdd(self)
            ctx.count("viewer_histories_with_reentrant_auto_add_listener")

    def fresh(self, stem):
        self.counter += 1
        return "%s%d" % (stem, self.counter)

    # what the layers should be
    def expected_layers(self):
        out = []
        for d in self.given:
            if is_in(d, list(self.dc)):
                out.append(d)
                out += [s for s in d.subsets if not is_in(s, self.hidden)]
        for s in self.lonely:
            if is_in(s.data, list(self.dc)) and is_in(s, s.data.subsets):
                out.append(s)
        return out

    def prune(self):
        live = list(self.dc)
        self.given = [d for d in self.given if is_in(d, live)]
        self.lonely = [s for s in self.lonely if is_in(s.data, live) and is_in(s, s.data.subsets) and not is_in(s.data, self.given)]
        self.hidden = [s for s in self.hidden if is_in(s.data, live) and is_in(s, s.data.subsets) and is_in(s.data, self.given)]


def viewer_pickers(kind, viewer):
    """[(name, helper, datasets)] for every ComponentIDComboHelper of the viewer state and its layer states, and
    [(name, helper, datasets)] for the dataset pickers; the datasets are stated from the viewer's *public* state."""
    st = viewer.state
    layers = [ls.layer for ls in st.layers]
    comp, data = [], []
    if kind in ("histogram", "scatter"):
        ds = unique_datasets(layers)
        comp.append(("x_att", st.x_att_helper, ds))
        if kind == "scatter":
            comp.append(("y_att", st.y_att_helper, ds))
    elif kind == "image":
        ref = st.reference_data
        ds = [ref] if ref is not None else []
        comp.append(("x_att_world", st.xw_att_helper, ds))
        comp.append(("y_att_world", st.yw_att_helper, ds))
        data.append(("reference_data", st.ref_data_helper, unique_datasets(layers)))
    elif kind == "profile":
        ref = st.reference_data
        ds = [ref] if ref is not None else []
        comp.append(("x_att", st.x_att_helper, ds))
        data.append(("reference_data", st.ref_data_helper, unique_datasets(layers)))
    for ls in st.layers:
        for name, val in sorted(vars(ls).items()):
            if isinstance(val, ComponentIDComboHelper):
                d = ls.layer.data if isinstance(ls.layer, Subset) else ls.layer
                comp.append(("layer." + name.replace("_helper", ""), val, [d]))
    return comp, data


def born_and_died(world, extra):
    """Structural class of stale subset layers right after a delay block: every stale layer is a subset that did not
    exist when the block was opened and is no longer one of its dataset's subsets (created and deleted before its
    create message was delivered), and its dataset is shown again."""
    before = getattr(world, "subsets_before_block", None)
    if before is None or not extra:
        return {}
    if all(isinstance(x, Subset) and not is_in(x, before) and not is_in(x, x.data.subsets) for x in extra):
        return {"stale_layers_are_subsets_created_and_deleted_inside_the_delay_block": True}
    return {}


def quiescent_check(world, viewer, expected_keys=None, expected_layers=None, stage="live"):
    """(L) + (P) + (X) on a viewer; returns list of (kind, extra, detail)."""
    out = []
    kind = world.kind
    got = [a.layer for a in viewer.layers]
    st_layers = [ls.layer for ls in viewer.state.layers]
    # (L) layers vs state layers
    if idsorted([a.state for a in viewer.layers]) != idsorted(list(viewer.state.layers)):
        rel = "state_has_more" if len(st_layers) > len(got) else ("state_has_fewer" if len(st_layers) < len(got) else "different_objects")
        out.append(("layer_list_and_state_layer_list_disagree", {"relation": rel},
                    {"layers": [layer_key(x) for x in got], "state_layers": [layer_key(x) for x in st_layers]}))
    if expected_layers is not None:
        if idsorted(got) != idsorted(expected_layers):
            extra = [x for x in got if not is_in(x, expected_layers)]
            missing = [x for x in expected_layers if not is_in(x, got)]
            dup = len(set(map(id, got))) != len(got)
            what = set()
            for x in extra:
                what.add("stale_" + ("subset" if isinstance(x, Subset) else "data"))
            for x in missing:
                what.add("missing_" + ("subset" if isinstance(x, Subset) else "data"))
            if dup and not what:
                what.add("duplicate_layer")
            xs = {"what": "+".join(sorted(what))}
            xs.update(born_and_died(world, extra))
            left = getattr(world, "left_during_block", None)
            if left and missing and not extra and getattr(world, "subsets_before_block", None) is not None and \
                    all(is_in(x.data if isinstance(x, Subset) else x, left) for x in missing):
                # every missing layer belongs to a dataset that left the collection and came back inside the block: its
                # queued delete message was delivered after it had been given to the viewer again
                xs["missing_layers_are_of_datasets_removed_and_reappended_inside_the_delay_block"] = True
            out.append(("layers_differ_from_expected", xs,
                        {"layers": [layer_key(x) for x in got], "expected": [layer_key(x) for x in expected_layers]}))
    if expected_keys is not None:
        gk = sorted(json.dumps(layer_key(x)) for x in got)
        if gk != sorted(json.dumps(k) for k in expected_keys):
            out.append(("restored_layers_differ_from_saved", {"relation": "more" if len(gk) > len(expected_keys) else
                                                               ("fewer" if len(gk) < len(expected_keys) else "other")},
                        {"layers": gk, "saved": expected_keys}))
    # nothing remains for datasets that are not in the collection
    dc = viewer.session.data_collection
    for x in got:
        d = x.data if isinstance(x, Subset) else x
        if not is_in(d, list(dc)) or (isinstance(x, Subset) and not is_in(x, d.subsets)):
            xs = {"what": "subset" if isinstance(x, Subset) else "data"}
            xs.update(born_and_died(world, [x]))
            out.append(("layer_for_object_outside_collection", xs, layer_key(x)))
            break
    # (P) pickers
    try:
        comp, data = viewer_pickers(kind, viewer)
    except Exception as e:
        out.append(("pickers_unreadable", {"exc": type(e).__name__}, repr(e)[:300]))
        comp, data = [], []
    for name, h, ds in comp:
        world.ctx.count("picker_checks:%s:%s" % (kind, name))
        try:
            out += check_component_picker(h, ds, name)
        except Exception as e:
            out.append(("picker_check_raised", {"picker": name, "exc": type(e).__name__}, repr(e)[:300]))
    for name, h, ds in data:
        world.ctx.count("data_picker_checks:%s:%s" % (kind, name))
        out += check_data_picker(h, ds, name)
    # image viewer: the axis pickers offer exactly the world axes of the reference when it has coordinates and
    # exactly its pixel axes when it has not (stated without looking at the pickers' own flags)
    if kind == "image" and viewer.state.reference_data is not None and viewer.state.reference_data.ndim >= 2:
        ref = viewer.state.reference_data
        want = list(ref.world_component_ids) if ref.coords is not None else list(ref.pixel_component_ids)
        for pname, h in (("x_att_world", viewer.state.xw_att_helper), ("y_att_world", viewer.state.yw_att_helper)):
            gotc = [c for c in h.choices if not isinstance(c, ChoiceSeparator)]
            world.ctx.count("image_axis_picker_checks:%s" % ("coords" if ref.coords is not None else "no_coords"))
            if idsorted(gotc) != idsorted(want):
                extra = [c for c in gotc if not is_in(c, want)]
                kinds = sorted(set(component_class(c, [ref]) for c in extra))
                out.append(("image_axis_picker_offers_wrong_axes", {"picker": pname, "reference_has_coords": ref.coords is not None,
                                                                    "extra": "+".join(kinds) or "none",
                                                                    "missing": len([c for c in want if not is_in(c, gotc)]) > 0},
                            {"got": [lab(c) for c in gotc], "expected": [lab(c) for c in want]}))
    # (X) image axes
    if kind in ("image", "profile"):
        for ls in viewer.state.layers:
            att = getattr(ls, "attribute", None)
            d0 = ls.layer.data if isinstance(ls.layer, Subset) else ls.layer
            try:
                bad = isinstance(att, ComponentID) and is_in(att, d0.components) and attr_kind(d0, att) == "datetime"
            except Exception:
                bad = False
            if bad:
                # an image / profile layer showing a datetime attribute (offered by its picker, e.g. selected automatically
                # when it is the dataset's first attribute) cannot be computed: every redraw raises and hub deliveries
                # abort. Outside what the viewer can display: tallied, nothing decided, the history ends.
                world.ctx.count("%s_layer_shows_datetime_attribute_out_of_domain" % kind)
                world.out_of_domain = True
                return []
    if kind == "image" and viewer.state.reference_data is not None and viewer.state.reference_data.ndim < 2:
        # the image went away and an overlay became the reference: outside the image viewer's own domain
        world.ctx.count("image_reference_became_1d_out_of_domain")
        world.out_of_domain = True
        return []
    if kind == "image":
        s = viewer.state
        ref = s.reference_data
        if ref is not None:
            world.ctx.count("image_axes_checks")
            pix = list(ref.pixel_component_ids)
            if s.x_att is None or s.y_att is None:
                out.append(("image_axis_unset", {"which": "x" if s.x_att is None else "y"}, None))
            elif s.x_att is s.y_att:
                out.append(("image_axes_identical", {}, lab(s.x_att)))
            elif not is_in(s.x_att, pix) or not is_in(s.y_att, pix):
                out.append(("image_axis_not_pixel_attribute_of_reference", {}, [lab(s.x_att), lab(s.y_att), lab(ref)]))
            else:
                if ref.coords is not None:
                    wx = ref.world_component_ids[s.x_att.axis]
                    wy = ref.world_component_ids[s.y_att.axis]
                else:
                    wx, wy = s.x_att, s.y_att
                if s.x_att_world is not wx or s.y_att_world is not wy:
                    out.append(("image_world_axes_not_tied_to_pixel_axes", {"coords": ref.coords is not None},
                                [lab(s.x_att), lab(s.y_att), lab(s.x_att_world), lab(s.y_att_world)]))
        else:
            if len(got) > 0 and any(isinstance(x, BaseData) for x in got):
                out.append(("image_reference_unset_with_data_layers", {}, [layer_key(x) for x in got]))
    return out


# ---------------------------------------------------------------- viewer operations
def gen_viewer_op(world, rng):
    """-> (name, callable, model_update(ok, ret) or None).  Names are structural (used in signatures)."""
    dc, v, pool = world.dc, world.viewer, world.pool
    in_dc = list(dc)
    out_dc = [d for d in pool if not is_in(d, in_dc)]
    groups = list(dc.subset_groups)
    layers = [a.layer for a in v.layers]
    table = [("add_data", 14), ("remove_data", 5), ("append", 5), ("remove", 5), ("new_group", 9), ("remove_group", 6),
             ("set_group_state", 4), ("add_component", 5), ("remove_component", 5), ("rename_component", 3),
             ("reorder_components", 2), ("add_subset", 3), ("remove_subset", 3), ("remove_layer", 3),
             ("state_layers_remove", 2), ("select", 10), ("flip_filter", 4), ("add_data_outside", 1),
             ("update_values", 2), ("coords_change", 1), ("clear_collection", 1), ("many_groups", 2), ("add_link", 6),
             ("remove_link", 1), ("readd_after_emptied", 5), ("remove_all_data_layers", 4), ("remove_linked_dataset", 4),
             ("ungrouped_shared_state", 6), ("ungrouped_twin_on_one_dataset", 1), ("ungrouped_new_subset", 2),
             ("delete_ungrouped", 6), ("remove_many_in_block", 7), ("switch_reference", 24 if world.kind == "image" else 0)]
    if world.pending_append is not None:
        d = world.pending_append
        world.pending_append = None
        if not is_in(d, in_dc):
            return "append:after_linked_removal", (lambda: dc.append(d)), None
    forced = None
    if world.pending_ops:
        forced = world.pending_ops.pop(0)
    name = forced or rng.choices([k for k, _ in table], [w for _, w in table])[0]
    if world.script_empty_now and [d for d in world.given if is_in(d, in_dc)]:
        # scripted half-way through 40 % of the histories: take everything away from the viewer, then (next step) give
        # the same dataset back
        world.script_empty_now = False
        gone = list(world.given)
        lone = list(world.lonely)
        world.pending_readd = gone[-1]

        def call_empty():
            for d in gone:
                v.remove_data(d)
            for s_ in lone:
                v.remove_subset(s_)

        def upd_empty_all(ok, ret):
            world.given, world.lonely, world.hidden = [], [], []
        return "remove_data:emptying_the_viewer", call_empty, upd_empty_all
    if world.pending_readd is not None:
        # second half of do - remove - re-add: the dataset that was just taken away comes back
        name, world.pending_readd_now = "readd_after_emptied", world.pending_readd
        world.pending_readd = None
    else:
        world.pending_readd_now = None
    if name == "readd_after_emptied":
        # give the viewer, once it holds nothing, a dataset it held before
        back = [d for d in world.ever_given if is_in(d, in_dc)]
        if world.pending_readd_now is not None and is_in(world.pending_readd_now, back):
            back = [world.pending_readd_now]
        if len(v.layers) == 0 and back:
            d = rng.choice(back)

            def upd_back(ok, ret):
                if ok and ret and not is_in(d, world.given):
                    world.given.append(d)
                    world.lonely = [s for s in world.lonely if s.data is not d]
            return "add_data:again_after_viewer_was_emptied", (lambda: v.add_data(d)), upd_back
        # otherwise work towards that situation: empty a viewer that holds a single dataset
        if len(world.given) == 1 and not world.lonely and world.pending_readd_now is None:
            d = world.given[0]
            world.pending_readd = d

            def upd_empty(ok, ret):
                world.given, world.hidden = [], []
            return "remove_data:emptying_the_viewer", (lambda: v.remove_data(d)), upd_empty
        name = "remove_data" if world.given and rng.random() < 0.4 else "add_data"
    if name == "remove_all_data_layers":
        # leave only subset layers behind (or nothing): every data layer goes through the container
        datas = [a.layer for a in v.layers if isinstance(a.layer, BaseData)]
        if datas:
            def call_all():
                for x in datas:
                    v.remove_layer(x)

            def upd_all(ok, ret):
                for x in datas:
                    if is_in(x, world.given):
                        world.given = [d for d in world.given if d is not x]
                        for s in x.subsets:
                            if not is_in(s, world.hidden) and not is_in(s, world.lonely) and any(a.layer is s for a in v.layers):
                                world.lonely.append(s)
                        world.hidden = [s for s in world.hidden if s.data is not x]
            return "remove_layer:all_data_layers", call_all, upd_all
        name = "remove_layer"
    if name == "clear_collection" and len(in_dc) >= 1:
        def upd_clear(ok, ret):
            world.given, world.lonely, world.hidden, world.links = [], [], [], []
        return "clear_collection", (lambda: dc.clear()), upd_clear
    if name == "many_groups" and in_dc:
        d = rng.choice(in_dc)
        k = rng.randint(4, 7)

        def call_many():
            for _ in range(k):
                nums = [c for c in d.main_components if attr_kind(d, c) == "numerical"] or [d.pixel_component_ids[0]]
                dc.new_subset_group(subset_state=nums[0] > rng.randint(0, 5), label=world.fresh("g"))
        return "new_group:many", call_many, None
    if name == "remove_many_in_block":
        # two or more removals of the same kind inside ONE hub delay block: all their messages come from the same sender
        # with different payloads, and every one of them must arrive when the block closes
        what = rng.choice(["data", "data", "groups", "groups", "components"])
        if what == "data" and len(in_dc) < 3:
            # bring the rest of the pool in first so that two can leave and one stays
            for d in out_dc:
                try:
                    dc.append(d)
                except Exception:
                    world.ctx.count("append_before_multi_removal_raised")
            in_dc = list(dc)
        if what == "data" and len(in_dc) >= 3:
            shown = [d for d in in_dc if is_in(d, world.given)]
            k = rng.randint(2, len(in_dc) - 1)
            gone = (shown + [d for d in in_dc if not is_in(d, shown)])[:k] if rng.random() < 0.7 else rng.sample(in_dc, k)
            world.ctx.count("delay_block_removing_datasets:%d" % min(len(gone), 3))
            ref_ = getattr(v.state, "reference_data", None)
            can_show = [d for d in gone if not is_in(d, world.given) and
                        not (world.kind == "image" and (d.ndim < 2 and (ref_ is None or ref_.ndim < 2)))]
            world.ctx.count("delay_block_removing_shown_datasets:%d" % min(len([d for d in gone if is_in(d, world.given) or is_in(d, can_show)]), 3))

            def call_rm_many():
                # the datasets that are about to leave are shown first, so that the viewer has layers to drop
                for d in can_show:
                    try:
                        v.add_data(d)
                    except Exception:
                        world.ctx.count("add_data_before_multi_removal_raised")
                with dc.hub.delay_callbacks():
                    for d in gone:
                        dc.remove(d)

            def upd_rm_many(ok, ret):
                world.given = [x for x in world.given if not is_in(x, gone)]
                world.lonely = [x for x in world.lonely if not is_in(x.data, gone)]
                world.hidden = [x for x in world.hidden if not is_in(x.data, gone)]
                world.links = [t for t in world.links if not is_in(t[1], gone) and not is_in(t[2], gone)]
            return "remove_many_in_block:data", call_rm_many, upd_rm_many
        if what == "groups" or (what == "data"):
            if len(groups) < 2:
                def call_mk():
                    for _ in range(3):
                        nums = [c for c in in_dc[0].main_components if attr_kind(in_dc[0], c) == "numerical"] or [in_dc[0].pixel_component_ids[0]]
                        dc.new_subset_group(subset_state=nums[0] > rng.randint(0, 5), label=world.fresh("g"))
                if in_dc:
                    world.pending_ops.append("remove_many_in_block")
                    return "new_group:many", call_mk, None
                return "noop", (lambda: None), None
            k = rng.randint(2, len(groups))
            gg = rng.sample(groups, k)
            world.ctx.count("delay_block_removing_groups:%d" % min(k, 3))

            def call_rm_groups():
                with dc.hub.delay_callbacks():
                    for g in gg:
                        dc.remove_subset_group(g)
            return "remove_many_in_block:groups", call_rm_groups, None
        if in_dc:
            d = rng.choice([x for x in in_dc if is_in(x, world.given)] or in_dc)
            nums = [c for c in d.main_components if attr_kind(d, c) == "numerical"]
            extra = [c for c in d.main_components if not is_in(c, nums)] + [c for c in d.derived_components if c.parent is d]
            cands = extra + nums[2:]
            if len(cands) >= 2:
                cc = rng.sample(cands, rng.randint(2, min(3, len(cands))))
                world.ctx.count("delay_block_removing_components:%d" % len(cc))

                def call_rm_comps():
                    with dc.hub.delay_callbacks():
                        for c in cc:
                            d.remove_component(c)
                return "remove_many_in_block:components", call_rm_comps, None
        return "noop", (lambda: None), None
    if name == "switch_reference" and world.kind == "image":
        # make the reference dataset change between one without and one with coordinates (explicit selection, or by
        # removing the current reference), in both directions
        st = v.state
        ref = st.reference_data
        big = [d for d in in_dc if d.ndim >= 2]
        if ref is None or ref.ndim < 2:
            if big:
                d = rng.choice(big)

                def upd_first(ok, ret):
                    if ok and ret and not is_in(d, world.given):
                        world.given.append(d)
                        world.lonely = [x for x in world.lonely if x.data is not d]
                        if not is_in(d, world.ever_given):
                            world.ever_given.append(d)
                world.pending_ops.append("switch_reference")
                return "add_data", (lambda: v.add_data(d)), upd_first
            return "noop", (lambda: None), None
        has = ref.coords is not None
        other_shown = [d for d in world.given if d.ndim >= 2 and (d.coords is not None) != has and is_in(d, in_dc)]
        other_avail = [d for d in big if (d.coords is not None) != has and not is_in(d, world.given)]
        if not other_shown and other_avail:
            d = rng.choice(other_avail)

            def upd_other(ok, ret):
                if ok and ret and not is_in(d, world.given):
                    world.given.append(d)
                    world.lonely = [x for x in world.lonely if x.data is not d]
                    if not is_in(d, world.ever_given):
                        world.ever_given.append(d)
            world.pending_ops.append("switch_reference")
            return "add_data", (lambda: v.add_data(d)), upd_other
        if other_shown:
            d = rng.choice(other_shown)
            direction = "coords_to_none" if has else "none_to_coords"
            if rng.random() < 0.6:
                world.ctx.count("image_reference_switch:%s:explicit" % direction)
                world.pending_ops += ["select_world_axis"] + (["switch_reference"] if rng.random() < 0.6 else [])

                def call_ref():
                    st.reference_data = d
                return "select:reference_data_other_coords_kind", call_ref, None
            # the reference goes away: the viewer has to pick another one (only datasets of the other kind are left)
            same_kind_shown = [x for x in world.given if x.ndim >= 2 and (x.coords is not None) == has and is_in(x, in_dc)]
            world.ctx.count("image_reference_switch:%s:reference_removed" % direction)
            world.pending_ops += ["select_world_axis"]

            def call_rm_ref():
                for x in same_kind_shown:
                    v.remove_data(x)

            def upd_rm_ref(ok, ret):
                world.given = [x for x in world.given if not is_in(x, same_kind_shown)]
                world.lonely = [x for x in world.lonely if not is_in(x.data, same_kind_shown)]
                world.hidden = [x for x in world.hidden if not is_in(x.data, same_kind_shown)]
            return "remove_data:reference_of_other_coords_kind_takes_over", call_rm_ref, upd_rm_ref
        return "noop", (lambda: None), None
    if name == "select_world_axis" and world.kind == "image":
        st = v.state
        h = rng.choice([("x_att_world", st.xw_att_helper), ("y_att_world", st.yw_att_helper)])
        ch = [c for c in h[1].choices if not isinstance(c, ChoiceSeparator)]
        if ch:
            c = rng.choice(ch)
            tn = h[0]
            if tn == "x_att_world" and c is st.y_att_world:
                tn = "x_att_world_to_current_y"
            if tn == "y_att_world" and c is st.x_att_world:
                tn = "y_att_world_to_current_x"

            def call_sel():
                setattr(st, h[0], c)
            return "select:" + tn, call_sel, None
        return "noop", (lambda: None), None
    if name == "add_link" and len(in_dc) >= 2:
        from glue.core.link_helpers import LinkSame, MultiLink
        from glue.core.component_link import ComponentLink
        a, b = rng.sample(in_dc, 2)
        # prefer datasets the viewer shows
        shown = [d for d in in_dc if is_in(d, world.given)]
        if shown and rng.random() < 0.7:
            a = rng.choice(shown)
            b = rng.choice([d for d in in_dc if d is not a])
        if _has(a, "x") and _has(a, "y") and _has(b, "x") and _has(b, "y"):
            kind = rng.choice(["same", "multi_input", "multi_input", "multi_input", "two_way_multi", "celestial", "celestial"])
            if kind == "same":
                link = LinkSame(a.id["x"], b.id["x"])
            elif kind == "multi_input":
                # one attribute of b computed from two attributes of a
                link = ComponentLink([a.id["x"], a.id["y"]], b.id["y"], using=link_sum)
            elif kind == "two_way_multi":
                link = MultiLink([a.id["x"], a.id["y"]], [b.id["x"], b.id["y"]], forwards=link_fw2, backwards=link_bw2)
            else:
                from glue.plugins.coordinate_helpers.link_helpers import ICRS_to_Galactic
                # longitude / latitude pairs must be valid angles: x (0..~150) and k (0..9)
                if not (_has(a, "k") and _has(b, "k")):
                    return "noop", (lambda: None), None
                link = ICRS_to_Galactic([a.id["x"], a.id["k"]], [b.id["x"], b.id["k"]])
            world.links.append((link, a, b, kind))

            def upd_link(ok, ret):
                if ok and kind != "same" and rng.random() < 0.7:
                    world.pending_ops.append("remove_linked_dataset")
            return "add_link:" + kind, (lambda: dc.add_link(link)), upd_link
        return "noop", (lambda: None), None
    if name == "remove_link" and world.links:
        link = world.links.pop(rng.randrange(len(world.links)))[0]
        return "remove_link", (lambda: dc.remove_link(link)), None
    if name == "remove_linked_dataset":
        # remove a dataset that takes part in a multi-input link (and give it back to the collection next)
        cands = [(l, a_, b_, k) for (l, a_, b_, k) in world.links if k != "same" and is_in(a_, in_dc) and is_in(b_, in_dc)]
        if cands and len(in_dc) > 1:
            l, a_, b_, k = rng.choice(cands)
            d = rng.choice([a_, a_, b_])      # mostly the side that contributes two attributes to one link
            world.pending_append = d
            world.ctx.count("remove_dataset_with_multi_input_link:" + k)

            def upd_rm(ok, ret):
                if not ok:
                    world.ctx.count("dc_remove_raised_with_multi_input_link:" + k)
                world.given = [x for x in world.given if x is not d]
                world.lonely = [x for x in world.lonely if x.data is not d]
                world.hidden = [x for x in world.hidden if x.data is not d]
                world.links = [t for t in world.links if t[1] is not d and t[2] is not d]
            return "remove:linked_" + k, (lambda: dc.remove(d)), upd_rm
        return "noop", (lambda: None), None
    if name in ("ungrouped_shared_state", "ungrouped_twin_on_one_dataset", "ungrouped_new_subset") and in_dc:
        nums_of = lambda d: [c for c in d.main_components if attr_kind(d, c) == "numerical"] or [d.pixel_component_ids[0]]
        if name == "ungrouped_shared_state" and len(in_dc) < 2:
            name = "ungrouped_new_subset"
        if name == "ungrouped_shared_state":
            # the SAME SubsetState object attached to two or three datasets: the Subset objects compare equal (state and
            # style) without being identical; each is one of its dataset's current subsets
            shown = [d for d in in_dc if is_in(d, world.given)]
            rest = [d for d in in_dc if not is_in(d, shown)]
            ds = (shown + rest)[:rng.randint(2, 3)]
            st = nums_of(ds[0])[0] > rng.randint(0, 6)

            to_show = [d for d in ds if not is_in(d, world.given) and not (world.kind == "image" and d.ndim < 2)]
            shown_now = []

            def call_shared():
                for d in to_show:
                    if v.add_data(d):
                        shown_now.append(d)
                for d in ds:
                    d.add_subset(st, label=world.fresh("u"))
                    world.fresh_ungrouped.append(d.subsets[-1])

            def upd_shared(ok, ret):
                for d in shown_now:
                    if not is_in(d, world.given):
                        world.given.append(d)
                        world.lonely = [x for x in world.lonely if x.data is not d]
                    if not is_in(d, world.ever_given):
                        world.ever_given.append(d)
                if rng.random() < 0.8:
                    world.pending_ops += ["delete_ungrouped"] * rng.randint(1, 2)
            world.ctx.count("ungrouped_shared_state_over_datasets:%d" % len(ds))
            world.ctx.count("ungrouped_shared_state_over_datasets_shown:%d" % len([d for d in ds if is_in(d, world.given) or is_in(d, to_show)]))
            return "add_ungrouped_subset:shared_state", call_shared, upd_shared
        d = rng.choice([x for x in in_dc if is_in(x, world.given)] or in_dc)
        if name == "ungrouped_twin_on_one_dataset":
            st = nums_of(d)[0] > rng.randint(0, 6)

            def call_twin():
                d.add_subset(st, label=world.fresh("u"))
                world.fresh_ungrouped.append(d.subsets[-1])
                d.add_subset(st, label=world.fresh("u"))
                world.fresh_ungrouped.append(d.subsets[-1])

            def upd_twin(ok, ret):
                world.pending_ops.append("delete_ungrouped")
            return "add_ungrouped_subset:twins_on_one_dataset", call_twin, upd_twin

        def call_new():
            sub = d.new_subset(label=world.fresh("u"))
            sub.subset_state = nums_of(d)[0] > rng.randint(0, 6)
        return "add_ungrouped_subset:new_subset", call_new, None
    if name == "delete_ungrouped":
        from glue.core.subset_group import GroupedSubset
        ung = [s_ for d in in_dc for s_ in d.subsets if not isinstance(s_, GroupedSubset)]
        recent = [x for x in world.fresh_ungrouped if is_in(x, ung)]
        world.fresh_ungrouped = recent
        if ung:
            s_ = rng.choice(recent) if recent and rng.random() < 0.8 else rng.choice(ung)
            equal_others = [o for o in s_.data.subsets if o is not s_ and o == s_]
            variant = "with_equal_twin_on_same_dataset" if equal_others else \
                ("with_equal_subset_elsewhere" if any(o is not s_ and o == s_ for d in in_dc for o in d.subsets) else "plain")
            world.ctx.count("delete_ungrouped_variant:" + variant)

            def upd_del(ok, ret):
                pass      # (signatures describe the failing step only; nothing sticky is carried over from here)
            return "delete_ungrouped:" + variant, (lambda: s_.delete()), upd_del
        return "noop", (lambda: None), None
    if world.kind == "image" and name in ("select", "flip_filter") and rng.random() < 0.45:
        # the image viewer's special case: ask for the attribute that is currently shown on the other axis
        st = v.state
        which = rng.choice(["x", "y"])
        prop, other = ("x_att_world", st.y_att_world) if which == "x" else ("y_att_world", st.x_att_world)
        if other is not None:
            def call_clash():
                setattr(st, prop, other)
            return "select:" + ("x_att_world_to_current_y" if which == "x" else "y_att_world_to_current_x"), call_clash, None

    def subset_state_for(d):
        # an inequality on a *numerical* stored attribute (comparing a categorical column with a number is not a
        # valid selection)
        nums = [c for c in d.main_components if attr_kind(d, c) == "numerical"]
        c = rng.choice(nums) if nums else d.pixel_component_ids[0]
        return c > rng.randint(0, 8)

    if world.kind == "image" and name in ("add_data", "add_subset"):
        ref = v.state.reference_data
        if ref is None or ref.ndim < 2:
            # a 1-d dataset (or its subset) is only accepted by the image viewer as an overlay on an image
            in_dc = [d for d in in_dc if d.ndim >= 2]
    if name == "add_data" and in_dc:
        d = rng.choice(in_dc)

        def call():
            return v.add_data(d)

        def upd(ok, ret):
            if ok and ret:
                if not is_in(d, world.ever_given):
                    world.ever_given.append(d)
                if len(d.derived_components) > 0:
                    world.ctx.count("add_data_of_dataset_owning_derived_components")
                if not is_in(d, world.given):
                    world.given.append(d)
                    world.lonely = [s for s in world.lonely if s.data is not d]
            elif ok:
                world.ctx.count("add_data_returned_false:" + world.kind)
            elif any(a.layer is d for a in v.layers):
                # add_data raised after the layer was in place (e.g. a draw callback failed): whether the dataset has
                # been "given" is not defined by the statement - the harness follows the viewer (tallied)
                world.ctx.count("add_data_raised_but_layer_present:" + world.kind)
                if not is_in(d, world.given):
                    world.given.append(d)
                    world.lonely = [s for s in world.lonely if s.data is not d]
        return name, call, upd
    if name == "add_data_outside" and out_dc:
        d = rng.choice(out_dc)
        return name, (lambda: v.add_data(d)), None
    if name == "remove_data" and (world.given or in_dc):
        d = rng.choice(world.given) if world.given and rng.random() < 0.8 else rng.choice(in_dc)

        def upd(ok, ret):
            world.given = [x for x in world.given if x is not d]
            world.lonely = [s for s in world.lonely if s.data is not d]
            world.hidden = [s for s in world.hidden if s.data is not d]
        return name, (lambda: v.remove_data(d)), upd
    if name == "append" and out_dc:
        d = rng.choice(out_dc)
        return name, (lambda: dc.append(d)), None
    if name == "remove" and len(in_dc) > 1:
        d = rng.choice(in_dc)

        def upd_remove(ok, ret):
            # a dataset that leaves the collection is taken away from the viewer, also when it comes back later
            world.given = [x for x in world.given if x is not d]
            world.lonely = [x for x in world.lonely if x.data is not d]
            world.hidden = [x for x in world.hidden if x.data is not d]
            world.links = [t for t in world.links if t[1] is not d and t[2] is not d]
        return name, (lambda: dc.remove(d)), upd_remove
    if name == "new_group" and in_dc:
        d = rng.choice(in_dc)
        st = subset_state_for(d)
        label = world.fresh("g")
        return name, (lambda: dc.new_subset_group(subset_state=st, label=label)), None
    if name == "remove_group" and groups:
        g = rng.choice(groups)
        return name, (lambda: dc.remove_subset_group(g)), None
    if name == "set_group_state" and groups and in_dc:
        g = rng.choice(groups)
        st = subset_state_for(rng.choice(in_dc))

        def call():
            g.subset_state = st
        return name, call, None
    if name == "add_component" and in_dc:
        d = rng.choice(in_dc)
        kind = rng.choice(["num", "num", "cat", "derived", "derived", "dtype", "dtype", "relabel_of_removed", "odd_label", "dask"])
        if kind == "cat" and d.ndim != 1:
            kind = "num"
        label = world.fresh("n")
        if kind == "relabel_of_removed":
            # do - remove - re-add: a new attribute under the label of one that was removed earlier
            gone = [l for l in world.removed_labels.get(id(d), []) if not any(c.label == l for c in d.components)]
            if gone:
                label = rng.choice(gone)
            kind = "num"
            name = name + ":label_of_removed" if gone else name
        if kind == "odd_label":
            label = rng.choice(["", "x ", "X", "xx", " y", "k2", 0])
            kind = "num"
            if any(c.label == str(label) for c in d.components):
                label = world.fresh("n")
        if kind == "dask":
            try:
                import dask.array as da
                from glue.core.component import DaskComponent
                comp = DaskComponent(da.from_array(np.arange(d.size, dtype=float).reshape(d.shape), chunks=d.shape))
                return "add_component:dask", (lambda: d.add_component(comp, label)), None
            except ImportError:
                kind = "num"
        if kind == "dtype":
            dt = rng.choice(["float32", ">f8", "uint8", "int8", "bool", "U5"])   # object-dtype text: kept out of the domain (sessions pickle it and refuse to load; a C02/C12 edge, not a viewer-mirror question)
            if dt in ("object_strings", "U5") and d.ndim != 1:
                dt = "float32"
            if dt == "object_strings":
                vals = np.array([rng.choice(["aa", "b"]) for _ in range(d.size)], dtype=object).reshape(d.shape)
            elif dt == "U5":
                vals = np.array([rng.choice(["p", "pq", "pqrst"]) for _ in range(d.size)], dtype="U5").reshape(d.shape)
            elif dt == "bool":
                vals = (np.arange(d.size).reshape(d.shape) % 2) == 0
            else:
                vals = (np.arange(d.size).reshape(d.shape) % 100).astype(dt)
            if d.ndim >= 2 and rng.random() < 0.5:
                vals = np.ascontiguousarray(vals.T).T        # same values, transposed storage
            world.ctx.count("add_component_dtype:" + dt)
            return "add_component:dtype", (lambda: d.add_component(vals, label)), None
        if kind == "num":
            vals = np.arange(d.size, dtype=float).reshape(d.shape) * 0.5
            return name + ":numeric", (lambda: d.add_component(vals, label)), None
        if kind == "cat":
            vals = np.array([rng.choice(["p", "q"]) for _ in range(d.size)]).reshape(d.shape)
            return name + ":categorical", (lambda: d.add_component(vals, label)), None
        nums = [c for c in d.main_components if attr_kind(d, c) == "numerical"]
        if nums:
            link = rng.choice(nums) * 3
            return name + ":derived", (lambda: d.add_component_link(link, label)), None
    if name == "remove_component" and in_dc:
        d = rng.choice(in_dc)
        cands = list(d.main_components) + [c for c in d.derived_components if c.parent is d]
        # keep at least two numerical stored attributes so that the viewers stay inside their own domain
        nums = [c for c in d.main_components if attr_kind(d, c) == "numerical"]
        sel = selected_attributes(world)
        pick_selected = [c for c in cands if is_in(c, sel)]
        c = rng.choice(pick_selected) if pick_selected and rng.random() < 0.6 else rng.choice(cands)
        if is_in(c, nums) and len(nums) <= 2:
            return "noop", (lambda: None), None
        variant = "selected" if is_in(c, sel) else "unselected"
        world.removed_labels.setdefault(id(d), []).append(c.label)
        return name + ":" + variant, (lambda: d.remove_component(c)), None
    if name == "rename_component" and in_dc:
        d = rng.choice(in_dc)
        c = rng.choice(d.components)
        label = world.fresh("r")

        def call():
            c.label = label
        return name, call, None
    if name == "reorder_components" and in_dc:
        d = rng.choice(in_dc)
        new = list(d.components)
        rng.shuffle(new)
        return name, (lambda: d.reorder_components(new)), None
    if name == "add_subset":
        subs = [s for d in in_dc for s in d.subsets]
        if subs:
            s = rng.choice(subs)

            def upd(ok, ret):
                if ok and ret:
                    world.hidden = [x for x in world.hidden if x is not s]
                    if not is_in(s.data, world.given) and not is_in(s, world.lonely):
                        world.lonely.append(s)
            return name + (":with_data" if is_in(s.data, world.given) else ":without_data"), (lambda: v.add_subset(s)), upd
    if name == "remove_subset":
        subs = [x for x in layers if isinstance(x, Subset)]
        if subs:
            s = rng.choice(subs)

            def upd(ok, ret):
                if is_in(s.data, world.given):
                    if not is_in(s, world.hidden):
                        world.hidden.append(s)
                world.lonely = [x for x in world.lonely if x is not s]
            return name, (lambda: v.remove_subset(s)), upd
    if name in ("remove_layer", "state_layers_remove") and layers:
        x = rng.choice(layers)

        def upd(ok, ret):
            if isinstance(x, Subset):
                if is_in(x.data, world.given) and not is_in(x, world.hidden):
                    world.hidden.append(x)
                world.lonely = [s for s in world.lonely if s is not x]
            else:
                if is_in(x, world.given):
                    world.given = [d for d in world.given if d is not x]
                    for s in x.subsets:
                        # only subsets that have a layer at this point stay behind (inside a delay block the viewer may
                        # not have heard of a new subset yet, and will not once its dataset's layer is gone)
                        if not is_in(s, world.hidden) and not is_in(s, world.lonely) and any(a.layer is s for a in v.layers):
                            world.lonely.append(s)
                    world.hidden = [s for s in world.hidden if s.data is not x]
        what = "subset" if isinstance(x, Subset) else "data"
        if name == "remove_layer":
            return name + ":" + what, (lambda: v.remove_layer(x)), upd

        def call():
            for ls in list(v.state.layers):
                if ls.layer is x:
                    v.state.layers.remove(ls)
        return name + ":" + what, call, upd
    if name == "select":
        return gen_select(world, rng)
    if name == "flip_filter" and world.kind in ("histogram", "scatter"):
        h = rng.choice([v.state.x_att_helper] + ([v.state.y_att_helper] if world.kind == "scatter" else []))
        flag = rng.choice(["categorical", "pixel_coord", "world_coord", "derived", "datetime", "numeric"])
        if flag == "numeric" and getattr(h, "numeric"):
            # switching the numeric attributes off is only generated while something else stays on offer
            rest = [c for c in h.choices if not isinstance(c, ChoiceSeparator) and c is not None and
                    component_class(c, unique_datasets([ls.layer for ls in v.state.layers])) in ("categorical", "datetime", "pixel", "world")]
            if not rest:
                flag = "derived"
        val = not getattr(h, flag)

        def call():
            setattr(h, flag, val)
        return name + ":" + flag, call, None
    if name == "update_values" and in_dc:
        d = rng.choice(in_dc)
        nums = [c for c in d.main_components if attr_kind(d, c) == "numerical" and type(d.get_component(c)).__name__ == "Component"]
        if nums:
            c = rng.choice(nums)
            vals = np.arange(d.size, dtype=float).reshape(d.shape)[::-1] + rng.randint(0, 5)
            return name, (lambda: d.update_components({c: vals})), None
    if name == "coords_change" and in_dc:
        d = rng.choice(in_dc)
        if d.coords is not None:
            nd = d.ndim
            new = IdentityCoordinates(n_dim=nd)

            def call():
                d.coords = new
            return name, call, None
    return "noop", (lambda: None), None


def _has(d, label):
    return any(c.label == label for c in d.main_components)


def selected_attributes(world):
    st = world.viewer.state
    out = []
    for n in ("x_att", "y_att", "x_att_world", "y_att_world"):
        if hasattr(st, n) and getattr(st, n) is not None:
            out.append(getattr(st, n))
    for ls in st.layers:
        for n in ("attribute", "cmap_att", "size_att"):
            try:
                val = getattr(ls, n)
            except Exception:
                continue
            if isinstance(val, ComponentID):
                out.append(val)
    return out


def gen_select(world, rng):
    """Explicit selection of one of the offered choices of a random picker (or of the reference dataset)."""
    v = world.viewer
    st = v.state
    kind = world.kind
    targets = []
    if kind in ("histogram", "scatter", "profile"):
        targets.append(("x_att", st, "x_att", st.x_att_helper))
    if kind == "scatter":
        targets.append(("y_att", st, "y_att", st.y_att_helper))
    if kind == "image":
        targets.append(("x_att_world", st, "x_att_world", st.xw_att_helper))
        targets.append(("y_att_world", st, "y_att_world", st.yw_att_helper))
        targets.append(("x_att_world_to_current_y", st, "x_att_world", None))
        targets.append(("y_att_world_to_current_x", st, "y_att_world", None))
    if kind in ("image", "profile"):
        targets.append(("reference_data", st, "reference_data", st.ref_data_helper))
        targets.append(("reference_data", st, "reference_data", st.ref_data_helper))
    for ls in st.layers:
        for name, val in sorted(vars(ls).items()):
            if isinstance(val, ComponentIDComboHelper):
                targets.append(("layer." + name.replace("_helper", ""), ls, val.selection_property, val))
    tname, obj, prop, helper = rng.choice(targets)
    if helper is None:
        other = st.y_att_world if prop == "x_att_world" else st.x_att_world
        if other is None:
            return "noop", (lambda: None), None

        def call():
            setattr(obj, prop, other)
        return "select:" + tname, call, None
    choices = [c for c in helper.choices if not isinstance(c, ChoiceSeparator)]
    if kind in ("image", "profile") and tname.startswith("layer."):
        # the image layer picker offers datetime attributes which the image artist cannot draw (TypeError in every
        # later redraw): outside what the viewer can display, not selected
        d0 = obj.layer.data if isinstance(obj.layer, Subset) else obj.layer
        keep = [c for c in choices if c is None or attr_kind(d0, c) != "datetime"]
        if len(keep) != len(choices):
            world.ctx.count("%s_layer_datetime_attribute_not_selected_out_of_domain" % kind)
        choices = keep
    if not choices:
        return "noop", (lambda: None), None
    c = rng.choice(choices)
    if kind == "image" and tname == "reference_data":
        ok = [x for x in choices if x.ndim >= 2]
        if not ok:
            return "noop", (lambda: None), None
        c = rng.choice(ok)
    if kind == "image" and tname == "x_att_world" and c is st.y_att_world:
        tname = "x_att_world_to_current_y"
    if kind == "image" and tname == "y_att_world" and c is st.x_att_world:
        tname = "y_att_world_to_current_x"

    def call():
        setattr(obj, prop, c)
    return "select:" + tname, call, None


# ---------------------------------------------------------------- viewer history
def run_viewer_history(ctx, kind, length):
    rng = ctx.rng
    t0 = time.time()
    world = VWorld(ctx, kind)
    ctx.count("viewer_histories:" + kind)
    trace = []
    prev = "start"
    n_restore = 0
    save_at = set(rng.sample(range(2, max(3, length)), 2 if rng.random() < 0.25 else 1))
    step = 0
    try:
        problems = report_viewer(ctx, world, "start", prev, trace, quiescent_check(world, world.viewer, expected_layers=world.expected_layers()))
        empty_at = length // 2 if rng.random() < 0.4 else -1
        while step < length and not problems and not world.out_of_domain:
            if step >= empty_at >= 0:
                world.script_empty_now, empty_at = True, -1
            in_block = rng.random() < 0.12 and not world.script_empty_now and world.pending_readd is None
            names = []
            if in_block:
                n = rng.randint(2, 3)
                ctx.count("delay_blocks")
                world.subsets_before_block = [s_ for d_ in world.pool for s_ in d_.subsets]
                world.dc_before_block = list(world.dc)
                world.left_during_block = []
                cm = world.dc.hub.delay_callbacks()
                cm.__enter__()
                try:
                    for _ in range(n):
                        members = list(world.dc)
                        names.append(apply_op(ctx, world, rng, trace))
                        world.left_during_block += [d_ for d_ in members if not is_in(d_, list(world.dc))]
                finally:
                    try:
                        cm.__exit__(None, None, None)
                    except Exception as e:
                        # a listener raised while the queued messages were delivered
                        # attributed to the coordinate replacement / component removal when the block contains one
                        # (their messages are only delivered now), otherwise to the block as such
                        suspects = [x for x in names if x.startswith("coords_change")] + \
                                   [x for x in names if x.startswith("remove_component")]
                        note_exception(world, suspects[0] if suspects else "delay_block_exit", e)
                        ctx.count("op_raised:%s:delay_block_exit:%s" % (kind, type(e).__name__))
                        trace.append(["delay_block_exit", "raised:" + type(e).__name__, str(e)[:120]])
                name = "block(" + "+".join(sorted(set(x.split(":")[0] for x in names))) + ")"
                step += n
            else:
                name = apply_op(ctx, world, rng, trace)
                step += 1
            world.prune()
            if in_block:
                # a subset created inside the block whose layer was removed explicitly inside the block: its create message
                # was still queued and is delivered when the block closes, so the viewer may legitimately show it again
                # (with immediate delivery the removal would have come after the create). The model follows the viewer.
                born = [x for x in world.hidden if not is_in(x, world.subsets_before_block or [])]
                for x in born:
                    if any(a.layer is x for a in world.viewer.layers):
                        world.hidden = [h_ for h_ in world.hidden if h_ is not x]
                        ctx.count("hidden_subset_reshown_by_create_message_delivered_after_the_removal")
            if not in_block:
                world.subsets_before_block = None
                world.left_during_block = None
            res = quiescent_check(world, world.viewer, expected_layers=world.expected_layers())
            problems = report_viewer(ctx, world, name, prev, trace, res)
            prev = name
            if not problems and step in save_at and not world.out_of_domain:
                problems = save_restore(ctx, world, trace)
                n_restore += 1
    finally:
        cleanup(world)
    ctx.count("viewer_seconds:" + kind, int((time.time() - t0) * 1000) / 1000.0)


def apply_op(ctx, world, rng, trace):
    name, call, upd = gen_viewer_op(world, rng)
    ok, ret = True, None
    try:
        ret = call()
    except IncompatibleDataException:
        ok = False
        ctx.count("op_rejected:%s:%s" % (world.kind, name))
    except Exception as e:
        ok = False
        first = not world.after_exception
        note_exception(world, name, e)
        ctx.count("op_raised:%s:%s:%s" % (world.kind, name, type(e).__name__))
        if first and world.kind == "image" and (name.startswith("select:x_att_world") or name.startswith("select:y_att_world")
                                                or name.startswith("select:reference_data")):
            # the statement: the pickers always select one of the offered attributes - choosing an offered one must work
            ctx.violation({"kind": "selection_of_offered_entry_raised", "viewer": "image", "op": name, "exc": type(e).__name__},
                          {"error": str(e)[:300], "trace": trace[-8:]})
        if name.startswith("add_data") and world.kind == "image" and "scatter plot overlay" in str(e):
            ctx.count("image_first_dataset_1d_out_of_domain")
            world.after_exception = False
        trace.append([name, "raised:" + type(e).__name__, str(e)[:120]])
    else:
        trace.append([name, "ok" if ret is None or ret is True else repr(ret)[:30]])
    if upd is not None:
        upd(ok, ret)
    ctx.count("op:%s:%s" % (world.kind, name.split(":")[0]))
    return name


def report_viewer(ctx, world, name, prev, trace, res, stage="live"):
    v = world.viewer
    nd = sum(1 for a in v.layers if isinstance(a.layer, BaseData))
    ns = len(v.layers) - nd
    ref = getattr(v.state, "reference_data", None)
    ctx.evaluation([world.kind, name, prev, min(nd, 3), min(ns, 4), ref is not None and ref.coords is not None, stage], nd + ns > 0)
    ctx.count("quiescent_checks:" + world.kind)
    if stage == "live":
        if nd == 0 and ns > 0:
            ctx.count("quiescent_checks_with_only_subset_layers:" + world.kind)
        if ns >= 6:
            ctx.count("quiescent_checks_with_6_or_more_subset_layers")
        if name.startswith("add_data:again_after"):
            ctx.count("readded_after_viewer_was_emptied:" + world.kind)
        if world.prev_raised and not res:
            ctx.count("clean_check_after_an_operation_that_raised")
        world.prev_raised = False
    for kind, extra, detail in res:
        sig = {"kind": kind, "viewer": world.kind, "op": name.split(":")[0] if not name.startswith("block") else "delay_block",
               "stage": stage, "after_exception": world.after_exception}
        sig.update(getattr(world, "sig_flags", {}))
        if world.after_exception:
            sig["exception_in"] = world.exception_in
            sig["exception_detail"] = world.exception_kind
        if ":" in name and not name.startswith("block"):
            sig["op_variant"] = name.split(":", 1)[1]
        sig.update(extra)
        ctx.violation(sig, {"trace": trace[-10:], "detail": detail, "pool": [[lab(d), list(d.shape), d.coords is not None] for d in world.pool]})
    if not res and stage == "live":
        # an exception that left no visible damage is forgotten
        world.after_exception, world.exception_in, world.exception_kind = False, None, None
    return len(res)


SIMPLE = (bool, int, float, str, type(None))


def simple_values(state):
    out = {}
    try:
        for k, val in state.as_dict().items():
            if isinstance(val, SIMPLE) or isinstance(val, (np.floating, np.integer, np.bool_)):
                out[k] = val
            elif isinstance(val, (ComponentID, BaseData, Subset)):
                out[k] = "label:" + lab(val)
    except Exception:
        pass
    return out


def same_value(a, b):
    if isinstance(a, (float, np.floating)) and isinstance(b, (float, np.floating)):
        return (a != a and b != b) or a == b or abs(a - b) <= 1e-9 * max(1.0, abs(a), abs(b))
    return a == b


def save_restore(ctx, world, trace):
    """Save the application, restore it, run the statement's checks on the restored viewer."""
    kind = world.kind
    v = world.viewer
    saved_keys = [layer_key(a.layer) for a in v.layers]
    from glue.core.subset_group import GroupedSubset
    if any(not isinstance(s_, GroupedSubset) for d_ in world.dc for s_ in d_.subsets):
        # sessions do not support subsets outside groups (glue warns and converts them to groups on load): no restore
        # comparison while such subsets exist
        ctx.count("save_restore_skipped_ungrouped_subsets_present:" + kind)
        return 0
    ctx.count("save_restore_attempts:" + kind)
    trace.append(["save_restore", "..."])
    try:
        text = GlueSerializer(world.app, include_data=True).dumps()
    except Exception as e:
        ctx.count("save_failed:%s:%s" % (kind, type(e).__name__))
        trace[-1][1] = "save failed " + type(e).__name__
        # failing loudly at save time is not covered by the statement (C02 / C12 own it)
        return 0
    app2 = None
    try:
        app2 = GlueUnSerializer.loads(text).object("__main__")
        v2 = app2._viewers[0]
    except Exception as e:
        import traceback
        tb = traceback.extract_tb(e.__traceback__)
        where = [f.name for f in tb if "/glue/" in f.filename][-3:]
        ctx.violation({"kind": "restore_failed", "viewer": kind, "exc": type(e).__name__, "in": where[-1] if where else "?",
                       "has_layers": len(saved_keys) > 0},
                      {"error": repr(e)[:300], "where": where, "trace": trace[-10:], "saved_layers": saved_keys})
        ctx.evaluation([kind, "restore_failed", len(saved_keys) > 0], True)
        trace[-1][1] = "restore failed " + type(e).__name__
        return 0      # the live viewer is unaffected: the history goes on
    try:
        trace[-1][1] = "ok"
        w2 = VWorld.__new__(VWorld)
        w2.ctx, w2.kind, w2.viewer, w2.pool, w2.after_exception = ctx, kind, v2, world.pool, world.after_exception
        w2.exception_in = world.exception_in
        w2.exception_kind = world.exception_kind
        w2.prev_raised = False
        w2.out_of_domain = False
        res = quiescent_check(w2, v2, expected_keys=saved_keys, stage="restored")
        n = report_viewer(ctx, w2, "save_restore", "-", trace, res, stage="restored")
        ctx.count("restores_checked:" + kind)
        # evidence only: simple callback-property values before / after
        a, b = simple_values(v.state), simple_values(v2.state)
        for k in sorted(set(a) & set(b)):
            ctx.count("restored_values_compared")
            if not same_value(a[k], b[k]):
                ctx.count("restored_value_differs:%s.%s" % (type(v.state).__name__, k))
        for la, lb in zip(sorted(v.state.layers, key=lambda s: json.dumps(layer_key(s.layer))),
                          sorted(v2.state.layers, key=lambda s: json.dumps(layer_key(s.layer)))):
            a, b = simple_values(la), simple_values(lb)
            for k in sorted(set(a) & set(b)):
                ctx.count("restored_values_compared")
                if not same_value(a[k], b[k]):
                    ctx.count("restored_value_differs:%s.%s" % (type(la).__name__, k))
        return n
    finally:
        try:
            for vv in app2._viewers:
                close_viewer(vv)
        except Exception:
            pass


def close_viewer(v):
    import matplotlib.pyplot as plt
    try:
        v.cleanup()
    except Exception:
        pass
    try:
        plt.close(v.figure)
    except Exception:
        pass


def cleanup(world):
    close_viewer(world.viewer)
    import matplotlib.pyplot as plt
    plt.close("all")
    gc.collect()


# ---------------------------------------------------------------- picker histories (no viewer)
class PState(State):
    att = SelectionCallbackProperty()
    att2 = SelectionCallbackProperty()
    data = SelectionCallbackProperty()
    mdata = SelectionCallbackProperty()
    plain = CallbackProperty(1)


def run_picker_history(ctx, length):
    rng = ctx.rng
    pool = []
    for i in range(4):
        nd = rng.choice([1, 1, 2])
        pool.append(make_dataset(rng, "d%d" % i, nd, rng.choice(["none", "identity", "none", "affine"]), ctx, single_row_ok=True))
    if rng.random() < 0.3:
        # equal-looking but distinct datasets: same label, same attribute labels
        pool[1].label = pool[0].label
        ctx.count("picker_histories_with_twin_labelled_datasets")
    dc = DataCollection(pool[:rng.randint(1, 3)])
    s = PState()
    with_dc = rng.random() < 0.6
    init_flags = {k: rng.random() < p for k, p in (("numeric", 0.7), ("categorical", 0.7), ("datetime", 0.7), ("pixel_coord", 0.4),
                                                   ("world_coord", 0.4), ("derived", 0.7), ("none", 0.25))}
    h = ComponentIDComboHelper(s, "att", data_collection=dc if with_dc else None, **init_flags)
    single = rng.choice(list(dc))
    # single-dataset helper; with the collection it follows component changes (and makes every dc.remove raise: the
    # history avoids removals and tries exactly one at its end), without it it has no hub to listen to
    single_with_dc = rng.random() < 0.5
    h1 = ComponentIDComboHelper(s, "att2", data=single, **({"data_collection": dc} if single_with_dc else {}))
    h1name = "single_dataset" + ("_with_collection" if single_with_dc else "_without_collection")
    dh = DataCollectionComboHelper(s, "data", dc)
    mh = ManualDataComboHelper(s, "mdata", data_collection=dc)
    mine = []      # datasets the harness handed to h (model)
    mmine = []     # datasets handed to mh
    prev = "start"
    ctx.count("picker_histories")
    counter = [0]

    def fresh(stem):
        counter[0] += 1
        return "%s%d" % (stem, counter[0])

    trace = []
    for step in range(length):
        in_dc = list(dc)
        ops = ["append_h", "append_h", "remove_h", "flag", "flag", "addcomp", "rmcomp", "rmselected", "rmdata", "adddata",
               "select", "reorder", "rename", "delay_block", "set_multiple", "m_append", "m_remove", "m_set_multiple",
               "select_data", "relabel_data", "update_id", "coords", "all_flags", "ephemeral_dataset", "numeric_off",
               "append_twice", "rm_many_in_block", "rm_many_in_block"]
        op = rng.choice(ops)
        if single_with_dc and op in ("rmdata", "delay_block", "ephemeral_dataset", "rm_many_in_block"):
            op = "addcomp"
        variant = ""
        try:
            if op == "append_h" and in_dc:
                d = rng.choice(in_dc)
                if rng.random() < 0.3 and d.subsets:
                    h.append_data(d.subsets[0])
                else:
                    h.append_data(d)
                if not is_in(d, mine):
                    mine.append(d)
            elif op == "remove_h" and mine:
                d = rng.choice(mine)
                h.remove_data(d)
                mine = [x for x in mine if x is not d]
            elif op == "set_multiple" and in_dc:
                ds = rng.sample(in_dc, rng.randint(0, len(in_dc)))
                arg = list(ds) + ([ds[0]] if ds and rng.random() < 0.3 else [])
                h.set_multiple_data(arg)
                mine = list(ds)
            elif op == "flag":
                flag = rng.choice(["numeric", "categorical", "datetime", "pixel_coord", "world_coord", "derived", "none"])
                setattr(h, flag, rng.random() < 0.5)
                variant = flag
            elif op == "rm_many_in_block":
                # two or more datasets leave the collection inside one delay block: every picker must drop all of them
                for d in pool:
                    dc.append(d)
                cands = [x for x in dc if x is not single]
                gone = rng.sample(cands, rng.randint(2, min(3, len(cands)))) if len(cands) >= 2 else []
                with dc.hub.delay_callbacks():
                    for d in gone:
                        dc.remove(d)
                if with_dc:
                    mine = [x for x in mine if not is_in(x, gone)]
                mmine = [x for x in mmine if not is_in(x, gone)]
                variant = str(len(gone))
            elif op == "all_flags":
                val = rng.random() < 0.4
                variant = "on" if val else "off"
                for flag in ("numeric", "categorical", "datetime", "pixel_coord", "world_coord", "derived"):
                    setattr(h, flag, val)
            elif op == "numeric_off":
                h.numeric = False
                h.derived = True       # derived attributes are numeric: they must go as well
            elif op == "append_twice" and in_dc:
                d = rng.choice(in_dc)
                h.append_data(d)
                h.append_data(d)
                if not is_in(d, mine):
                    mine.append(d)
            elif op == "ephemeral_dataset":
                # short-lived objects: a dataset that joins, is handed to the pickers, and leaves again at once
                for _ in range(3):
                    tmp = make_dataset(rng, fresh("tmp"), 1, "none")
                    dc.append(tmp)
                    h.append_data(tmp)
                    mh.append_data(tmp)
                    dc.remove(tmp)
                    if not with_dc:
                        h.remove_data(tmp)
                    del tmp
                gc.collect(0)
            elif op == "addcomp" and in_dc:
                d = rng.choice(in_dc)
                k = rng.choice(["num", "cat", "date", "derived"])
                if k == "cat" and d.ndim != 1:
                    k = "num"
                variant = k
                if k == "num":
                    d.add_component(np.arange(d.size, dtype=float).reshape(d.shape), fresh("n"))
                elif k == "cat":
                    d.add_component(np.array(["u", "v"] * d.size)[:d.size].reshape(d.shape), fresh("n"))
                elif k == "date":
                    d.add_component((np.datetime64("2022-01-01") + np.arange(d.size).astype("timedelta64[D]")).reshape(d.shape), fresh("n"))
                else:
                    nums = [c for c in d.main_components if attr_kind(d, c) == "numerical"]
                    if nums:
                        d.add_component_link(rng.choice(nums) + 1, fresh("n"))
            elif op == "rmcomp" and in_dc:
                d = rng.choice(in_dc)
                mc = list(d.main_components) + list(d.derived_components)
                if len(d.main_components) > 1:
                    d.remove_component(rng.choice(mc))
            elif op == "rmselected":
                sel = rng.choice([s.att, s.att2])
                if isinstance(sel, ComponentID) and sel.parent is not None:
                    d = sel.parent
                    if (is_in(sel, d.main_components) and len(d.main_components) > 1) or is_in(sel, d.derived_components):
                        d.remove_component(sel)
                        variant = "done"
            elif op == "delay_block" and in_dc:
                d = rng.choice(in_dc)
                mc = d.main_components
                with dc.hub.delay_callbacks():
                    if len(mc) > 1:
                        d.remove_component(rng.choice(mc))
                    d.add_component(np.arange(d.size, dtype=float).reshape(d.shape), fresh("m"))
                    if rng.random() < 0.4 and len(in_dc) > 1 and d is not single:
                        dc.remove(d)
                        mine = [x for x in mine if x is not d] if with_dc else mine
                        mmine = [x for x in mmine if x is not d]
            elif op == "rmdata" and len(in_dc) > 1:
                d = rng.choice([x for x in in_dc if x is not single] or in_dc)
                if d is not single:
                    dc.remove(d)
                    if with_dc:
                        mine = [x for x in mine if x is not d]
                    mmine = [x for x in mmine if x is not d]
            elif op == "adddata":
                d = rng.choice(pool)
                dc.append(d)
            elif op == "select":
                hh, prop = rng.choice([(h, "att"), (h1, "att2")])
                ch = [c for c in hh.choices if not isinstance(c, ChoiceSeparator)]
                if ch:
                    setattr(s, prop, rng.choice(ch))
            elif op == "select_data":
                hh, prop = rng.choice([(dh, "data"), (mh, "mdata")])
                ch = list(hh.choices)
                if ch:
                    setattr(s, prop, rng.choice(ch))
            elif op == "reorder" and in_dc:
                d = rng.choice(in_dc)
                c = list(d.components)
                rng.shuffle(c)
                d.reorder_components(c)
            elif op == "rename" and in_dc:
                d = rng.choice(in_dc)
                rng.choice(d.components).label = fresh("r")
            elif op == "relabel_data" and in_dc:
                rng.choice(in_dc).label = fresh("D")
            elif op == "m_append" and in_dc:
                d = rng.choice(in_dc)
                mh.append_data(d)
                if not is_in(d, mmine):
                    mmine.append(d)
            elif op == "m_remove" and mmine:
                d = rng.choice(mmine)
                mh.remove_data(d)
                mmine = [x for x in mmine if x is not d]
            elif op == "m_set_multiple" and in_dc:
                ds = rng.sample(in_dc, rng.randint(0, len(in_dc)))
                mh.set_multiple_data(list(ds) + ([ds[0].subsets[0]] if ds and ds[0].subsets else []))
                mmine = list(ds)
            elif op == "update_id" and in_dc:
                d = rng.choice(in_dc)
                leafs = [c for c in d.main_components
                         if not any(c in d.get_component(dc_).link.get_from_ids() for dc_ in d.derived_components)]
                if leafs:
                    d.update_id(rng.choice(leafs), ComponentID(fresh("u")))
            elif op == "coords" and in_dc:
                d = rng.choice(in_dc)
                d.coords = rng.choice([None, IdentityCoordinates(n_dim=d.ndim)])
            else:
                op = "noop"
        except Exception as e:
            ctx.count("picker_op_raised:%s:%s" % (op, type(e).__name__))
            trace.append([op, "raised:" + type(e).__name__, str(e)[:100]])
            variant = "raised"
        else:
            trace.append([op, variant])
        ctx.count("picker_op:" + op)
        # ---- checks
        res = []
        # h without a collection keeps datasets that left the collection (nobody told it): the relevant datasets are
        # the ones the harness handed over, minus those removed from the collection when the helper knows the collection
        res += check_component_picker(h, mine, "multi" + ("_with_collection" if with_dc else "_without_collection"))
        res += check_component_picker(h1, [single], h1name)
        res += check_data_picker(dh, list(dc), "collection")
        res += check_data_picker(mh, mmine, "manual")
        ctx.count("picker_history_checks")
        ctx.evaluation(["picker", op, variant, prev, flags_of(h), len(mine), with_dc], len(mine) > 0)
        for kind, extra, detail in res:
            sig = {"kind": kind, "viewer": "none", "op": op, "stage": "helper_history"}
            if variant and op == "flag":
                sig["op_variant"] = variant
            sig.update(extra)
            ctx.violation(sig, {"trace": trace[-10:], "detail": detail})
        prev = op
        if res:
            return
    if single_with_dc and len(list(dc)) > 1:
        other = [x for x in dc if x is not single][0]
        try:
            dc.remove(other)
            ctx.count("single_dataset_helper_with_collection:dc_remove_of_other_dataset_ok")
        except Exception as e:
            ctx.count("single_dataset_helper_with_collection:dc_remove_of_other_dataset_raised_" + type(e).__name__)


# ---------------------------------------------------------------- State round trips
def all_state_classes():
    import glue.viewers.histogram.state  # noqa
    import glue.viewers.scatter.state  # noqa
    import glue.viewers.image.state  # noqa
    import glue.viewers.profile.state  # noqa
    import glue.viewers.matplotlib.state  # noqa
    import glue.viewers.table.state  # noqa
    seen, todo = [], [State]
    while todo:
        c = todo.pop()
        for sub in c.__subclasses__():
            if sub not in seen:
                seen.append(sub)
                todo.append(sub)
    return sorted([c for c in seen if c.__module__.startswith("glue.")], key=lambda c: c.__module__ + "." + c.__name__)


def run_state_roundtrips(ctx):
    rng = ctx.rng
    for cls in all_state_classes():
        name = cls.__module__ + "." + cls.__name__
        try:
            s = cls()
        except Exception as e:
            ctx.count("state_class_needs_arguments")
            continue
        # perturb simple values
        changed = {}
        for k, val in sorted(s.as_dict().items()):
            prop = getattr(type(s), k, None)
            try:
                if isinstance(prop, SelectionCallbackProperty):
                    ch = [c for c in prop.get_choices(s) if not isinstance(c, ChoiceSeparator)]
                    if ch and all(isinstance(c, SIMPLE) for c in ch):
                        new = rng.choice(ch)
                        setattr(s, k, new)
                        changed[k] = new
                elif isinstance(val, bool):
                    setattr(s, k, not val)
                    changed[k] = not val
                elif isinstance(val, int) and not isinstance(val, bool):
                    setattr(s, k, val + 1)
                    changed[k] = val + 1
                elif isinstance(val, float) and val == val:
                    setattr(s, k, val * 0.5 + 0.25)
                    changed[k] = val * 0.5 + 0.25
            except Exception:
                ctx.count("state_property_rejected_perturbation")
        before = simple_values(s)
        try:
            text = GlueSerializer(s).dumps()
            s2 = GlueUnSerializer.loads(text).object("__main__")
        except Exception as e:
            ctx.violation({"kind": "state_round_trip_failed", "class": name, "exc": type(e).__name__}, {"error": repr(e)[:300]})
            ctx.evaluation(["state", name, "failed"], True)
            continue
        after = simple_values(s2)
        ctx.count("state_round_trips")
        ctx.evaluation(["state", name, sorted(changed)], len(changed) > 0)
        if type(s2) is not type(s):
            ctx.violation({"kind": "state_round_trip_changes_class", "class": name}, {"got": type(s2).__name__})
            continue
        for k in sorted(before):
            ctx.count("state_values_compared")
            if k not in after or not same_value(before[k], after[k]):
                if k in changed and same_value(before[k], changed[k]):
                    # a value the harness set and the state kept did not survive
                    ctx.violation({"kind": "state_value_differs_after_round_trip", "class": name, "property": k},
                                  {"before": before[k], "after": after.get(k, "<missing>")})
                else:
                    # values that callbacks derive from others may legitimately be recomputed on restore
                    ctx.count("state_unperturbed_value_differs_after_round_trip:%s.%s" % (cls.__name__, k))


# ---------------------------------------------------------------- cases
def cases(tier, seed):
    nv, npk, ns = N_VIEWER[tier], N_PICKER[tier], N_STATES[tier]
    # the cheap cases first (seconds), so that a per-shard time cap only ever cuts viewer histories; then the viewer
    # histories interleaved so that every shard gets every kind
    for i in range(npk):
        yield ["picker", i]
    for i in range(ns):
        yield ["states", i]
    for i in range(nv):
        for kind in KINDS:
            yield ["viewer", kind, i]


def run_case(ctx, case):
    if case[0] == "viewer":
        run_viewer_history(ctx, case[1], ctx.rng.randint(9, 21))
    elif case[0] == "picker":
        for _ in range(12):
            run_picker_history(ctx, ctx.rng.randint(4, 16))
    else:
        run_state_roundtrips(ctx)


def floors(counters, tier):
    out = []
    for k in KINDS:
        if counters.get("quiescent_checks:" + k, 0) < 100:
            out.append("fewer than 100 quiescent checks on the %s viewer" % k)
        if counters.get("save_restore_attempts:" + k, 0) < 6:
            out.append("fewer than 6 save/restore attempts on the %s viewer" % k)
    for k in ("scatter", "image"):
        if counters.get("restores_checked:" + k, 0) < 3:
            out.append("fewer than 3 restored %s viewers checked" % k)
    if counters.get("picker_history_checks", 0) < 500:
        out.append("fewer than 500 checks in the bare picker histories")
    if counters.get("image_axes_checks", 0) < 25:
        out.append("fewer than 25 image axis checks")
    if counters.get("state_round_trips", 0) < 9:
        out.append("fewer than 9 State round trips")
    if counters.get("delay_blocks", 0) < 10:
        out.append("fewer than 10 delay blocks")
    if sum(v for k, v in counters.items() if k.startswith("quiescent_checks_with_only_subset_layers:")) < 6:
        out.append("fewer than 6 checks on a viewer holding only subset layers")
    if sum(v for k, v in counters.items() if k.startswith("readded_after_viewer_was_emptied:")) < 6:
        out.append("fewer than 6 re-additions of a dataset after the viewer had been emptied")
    if counters.get("add_data_of_dataset_owning_derived_components", 0) < 20:
        out.append("fewer than 20 add_data calls with a dataset that owns derived components")
    if sum(v for k, v in counters.items() if k.startswith("auto_add_during_delivery:")) < 3:
        out.append("fewer than 3 datasets handed to a viewer by a listener during hub delivery")
    if counters.get("picker_op:numeric_off", 0) + counters.get("picker_op:all_flags", 0) < 40:
        out.append("fewer than 40 picker steps switching the numeric filter off / all filters at once")
    if sum(counters.get("ungrouped_shared_state_over_datasets_shown:%d" % k, 0) for k in (2, 3)) < 10:
        out.append("fewer than 10 shared-state ungrouped subsets over two or more datasets shown in the viewer")
    if sum(v for k, v in counters.items() if k.startswith("delete_ungrouped_variant:with_equal")) < 8:
        out.append("fewer than 8 deletions of an ungrouped subset that has an equal twin")
    if sum(v for k, v in counters.items() if k.startswith("remove_dataset_with_multi_input_link:")) < 5:
        out.append("fewer than 5 removals of a dataset that takes part in a multi-input link")
    if sum(counters.get("delay_block_removing_shown_datasets:%d" % k, 0) for k in (2, 3)) < 5:
        out.append("fewer than 5 delay blocks removing two or more datasets shown in the viewer")
    if sum(v for k, v in counters.items() if k.startswith("delay_block_removing_groups:")) < 4:
        out.append("fewer than 4 delay blocks removing two or more subset groups")
    if counters.get("picker_op:rm_many_in_block", 0) < 30:
        out.append("fewer than 30 picker steps removing several datasets in one delay block")
    # the number of reference switches varies a lot from seed to seed (2 .. 60 per run): only their presence is a floor;
    # the picker checks with and without coords have their own floors just below
    if sum(v for k, v in counters.items() if k.startswith("image_reference_switch:")) < 1:
        out.append("no image reference switch between a dataset with and one without coords")
    for k in ("coords", "no_coords"):
        if counters.get("image_axis_picker_checks:" + k, 0) < 40:
            out.append("fewer than 40 image axis picker checks with a reference %s" % k)
    if counters.get("picker_op:ephemeral_dataset", 0) < 10:
        out.append("fewer than 10 picker steps with short-lived datasets")
    return out
