"""C14 - derived attributes compute their defining expression and go with their inputs.

Two workloads, one oracle.

"expr" cases: one dataset (1-3 dims, optional coordinates, float columns with
NaN/inf, an injective float column, an integer column, pixel and world
attributes), to which a sequence of derived attributes is added.  Each one is
described by a JSON *descriptor* - an arithmetic tree over + - * / ** with
constants on either side (BinaryComponentLink, built with the overloaded
operators of ComponentID / ComponentLink), an n-ary function link (well-behaved,
returning a ravelled array, returning a Python scalar for 0-d input, identity)
or a parsed command string rendered from a tree (arithmetic, np./numpy./math.
names, tags with spaces, constant-only commands).  Inputs may be stored, pixel,
world and previously added derived attributes.  Every derived attribute is read
with every view recipe and compared with the *same descriptor evaluated by
numpy on the full input arrays, then indexed with the view*.

"hist" cases: add / remove / update_id histories over chains and diamonds of
derived attributes (optionally inside a DataCollection).  A descriptor graph is
the model: after every step the order of `Data.components`, the set of derived
attributes (dependency closure of the removed one gone, nothing else) and the
values of all survivors are compared.
"""
import math
import operator

import numpy as np

from glue.core import Data, DataCollection
from glue.core.hub import HubListener
from glue.core.message import ComponentsChangedMessage, NumericalDataChangedMessage
from glue.core.exceptions import IncompatibleAttribute
from glue.core.component_id import ComponentID
from glue.core.component_link import ComponentLink
from glue.core.parse import ParsedCommand, ParsedComponentLink

from vf.common import (VIEW_KINDS, make_view, exc_name, rand_floats, injective_floats, rand_ints,
                       make_coords, rand_slice)
from vf.common import describe_view as _describe_view


def describe_view(view):
    return str(view) if isinstance(view, (int, np.integer)) else _describe_view(view)

ID = "C14"
LEVEL = "exploration"
BUDGET_S = {"quick": 40.0, "thorough": 420.0}
RULE = ("expr case = one random dataset + 8 derived attributes (random binary tree of depth <= 5 / function link / "
        "parsed command; inputs stored, pixel, world, earlier derived), each read with 12 views (all view recipes); "
        "hist case = one add/remove/update_id history of 5-14 steps on a 1-2-d dataset. One evaluation = one "
        "comparison of a read (or of the component list after a step) with the descriptor model. Non-trivial = the "
        "descriptor has at least one operation and the dataset more than one element (values), or the step removed / "
        "renamed an attribute that has dependants (histories); distinct = distinct (descriptor with input kinds, shape, "
        "view) resp. (history prefix) fingerprints.")
ASSUMPTIONS = ["+ - * / and sqrt/abs/maximum/where are correctly rounded, so glue's evaluation on unbroadcast or viewed "
               "inputs must agree with numpy on the full arrays to rtol 1e-12; for ** (libm/SIMD pow may differ in the "
               "last place between contiguous and strided loops) the tolerance is widened by the sensitivity of the "
               "result to a 1e-12 relative perturbation of every pow result",
               "the full-array value of a world attribute is taken from glue (C15 decides it); a read is skipped and "
               "tallied when an input attribute itself does not satisfy input[view] == input_full[view] (C04/C15)",
               "an expression on which the numpy reference raises (integer to negative integer power) is out of domain",
               "functions given to ComponentLink are elementwise, accept and return arrays (possibly ravelled, possibly "
               "a Python scalar for 0-d input)"]
ANCHORS = ["glue.core.component_link:BinaryComponentLink.compute", "glue.core.component_link:ComponentLink.compute",
           "glue.core.parse:ParsedCommand.evaluate", "glue.core.parse:_dereference",
           "glue.core.data:Data.remove_component", "glue.core.data:Data._removed_derived_that_depend_on",
           "glue.core.data:Data.update_id", "glue.core.component:DerivedComponent.__getitem__"]

N_EXPR = {"quick": 400, "thorough": 22000}
N_HIST = {"quick": 1000, "thorough": 40000}
OPS = {"+": operator.add, "-": operator.sub, "*": operator.mul, "/": operator.truediv, "**": operator.pow}
CONSTS = [2, 0.5, -1, 3, 0, 1.5, -2.0, 1, 2.0, -0.5]
PERT = 1e-12
DEBUG_SKIP_REPLACEMENT = False     # triage aid: keep the dataset in its first-phase state


def cases(tier, seed):
    ne, nh = N_EXPR[tier], N_HIST[tier]
    for i in range(max(ne, nh)):
        if i < ne:
            yield ["expr", i]
        if i < nh:
            yield ["hist", i]


# ---------------------------------------------------------------- function links
def _f_lin1(a):
    return a * 2 + 1


def _f_mul2(a, b):
    return a * b - 1


def _f_where3(a, b, c):
    return np.where(a > b, c, a - b)


def _f_ravel2(a, b):
    return (a + b).ravel()


def _f_scalar0d(a, b):
    if np.ndim(a) == 0:
        return float(a) * 2 + float(b)
    return a * 2.0 + b


def _f_max2(a, b):
    return np.maximum(a, b) + 0.5


# Elementwise functions that REQUIRE all inputs to have the same shape (no reliance on numpy broadcasting inside the
# function): the statement promises the expression "whatever the broadcasting structure of the inputs", so glue has to
# hand over inputs of one common shape.
def _f_zip2(a, b):
    a, b = np.asarray(a), np.asarray(b)     # a dask-backed component hands over a dask array for whole-dataset reads
    assert a.shape == b.shape, (a.shape, b.shape)
    return np.array([x + 2 * y for x, y in zip(a.ravel(), b.ravel())], dtype=float).reshape(a.shape)


def _f_fromiter2(a, b):
    a, b = np.asarray(a), np.asarray(b)
    if a.size != b.size:
        raise ValueError("inputs of different size: %r %r" % (a.shape, b.shape))
    return np.fromiter((x * y for x, y in zip(a.flat, b.flat)), dtype=float, count=a.size).reshape(a.shape)


def _f_emptylike3(a, b, c):
    a, b, c = np.asarray(a), np.asarray(b), np.asarray(c)
    out = np.empty_like(a, dtype=float)
    for idx in np.ndindex(a.shape):
        out[idx] = float(a[idx]) - float(b[idx]) + float(c[idx])
    return out


def _f_assert2(a, b):
    a, b = np.asarray(a), np.asarray(b)
    assert a.shape == b.shape, (a.shape, b.shape)
    return a - b * 0.5


STRICT_FUNCS = ["zip2", "fromiter2", "emptylike3", "assert2"]

FUNCS = {  # name -> (arity, function handed to glue, clean elementwise reference)
    "zip2": (2, _f_zip2, lambda a, b: (a + 2 * b) * 1.0),
    "fromiter2": (2, _f_fromiter2, lambda a, b: (a * b) * 1.0),
    "emptylike3": (3, _f_emptylike3, lambda a, b, c: a * 1.0 - b * 1.0 + c * 1.0),
    "assert2": (2, _f_assert2, lambda a, b: a - b * 0.5),
    "lin1": (1, _f_lin1, lambda a: a * 2 + 1),
    "mul2": (2, _f_mul2, lambda a, b: a * b - 1),
    "where3": (3, _f_where3, lambda a, b, c: np.where(a > b, c, a - b)),
    "ravel2": (2, _f_ravel2, lambda a, b: a + b),
    "scalar0d": (2, _f_scalar0d, lambda a, b: a * 2.0 + b),
    "max2": (2, _f_max2, lambda a, b: np.maximum(a, b) + 0.5),
}
CALLS = {  # name used in a parsed command -> (arity, reference)
    "np.abs": (1, np.abs),
    "numpy.sqrt": (1, np.sqrt),
    "np.maximum": (2, np.maximum),
    "numpy.minimum": (2, np.minimum),
    "np.negative": (1, np.negative),
}
PNAMES = {"np.pi": np.pi, "math.e": math.e, "numpy.pi": np.pi}


# ---------------------------------------------------------------- descriptor model
class Node:
    """One attribute of the model: kind in stored_float/stored_int/pixel/world/derived."""

    def __init__(self, nid, kind, label, cid, full=None, desc=None):
        self.nid, self.kind, self.label, self.cid, self.full, self.desc = nid, kind, label, cid, full, desc
        self.renamed_with_dependants = False
        self.narrow = False      # stored with a dtype narrower than int64 / float64 (see Model.val)
        self.old_cids = []
        self.dask = False


def leaves(t):
    if t[0] == "in":
        return [t[1]]
    if t[0] in ("c", "name"):
        return []
    if t[0] in ("fn", "ident"):
        return list(t[2]) if t[0] == "fn" else [t[1]]
    if t[0] == "parsed":
        return leaves(t[1])
    if t[0] == "call":
        return [x for a in t[2] for x in leaves(a)]
    return leaves(t[1]) + leaves(t[2])


def has_pow(t):
    if t[0] in ("in", "c", "name", "fn", "ident"):
        return False
    if t[0] == "parsed":
        return has_pow(t[1])
    if t[0] == "call":
        return any(has_pow(a) for a in t[2])
    return t[0] == "**" or has_pow(t[1]) or has_pow(t[2])


def n_ops(t):
    if t[0] in ("in", "c", "name"):
        return 0
    if t[0] in ("fn", "ident"):
        return 1
    if t[0] == "parsed":
        return n_ops(t[1])
    if t[0] == "call":
        return 1 + sum(n_ops(a) for a in t[2])
    return 1 + n_ops(t[1]) + n_ops(t[2])


class RefRaises(Exception):
    pass


def ev(t, val, eps, strong=False):
    """Reference value of descriptor t; `val(nid, eps)` gives the full array of an input.  strong=True types the
    constants of arithmetic (binary-link) nodes as 0-d numpy arrays (numpy then promotes int8 + 100 to int64 and
    float32 * 2.5 to float64) instead of leaving them Python scalars (weak promotion); parsed commands are Python
    expressions and always use Python scalars."""
    k = t[0]
    if k == "c":
        return np.asarray(t[1]) if strong else t[1]
    if k == "name":
        return PNAMES[t[1]]
    if k == "in":
        return val(t[1], eps)
    if k == "ident":
        return val(t[1], eps)
    if k == "fn":
        try:
            return FUNCS[t[1]][2](*[val(n, eps) for n in t[2]])
        except (TypeError, ValueError, OverflowError) as e:       # e.g. bool - bool in the native-dtype reading
            raise RefRaises(exc_name(e))
    if k == "parsed":
        return ev(t[1], val, eps, False)
    if k == "call":
        args = [ev(a, val, eps, strong) for a in t[2]]
        try:
            return CALLS[t[1]][1](*args)
        except (TypeError, ValueError, OverflowError) as e:
            raise RefRaises(exc_name(e))
    a = ev(t[1], val, eps, strong)
    b = ev(t[2], val, eps, strong)
    try:
        if k == "**" and (isinstance(a, (np.ndarray, np.generic)) or isinstance(b, (np.ndarray, np.generic))):
            # numpy evaluates x ** y through different loops depending on how the exponent is laid out: a Python
            # scalar or a stride-0 exponent equal to 0.5 / 2 / -1 is turned into sqrt / square / reciprocal, anything
            # else goes through pow().  sqrt and pow differ for -inf and -0.0 (sqrt(-inf) = nan, pow(-inf, .5) = inf).
            # Which loop glue's operands hit is numpy's business, not part of the property: the unperturbed
            # reference uses the general pow loop on dense arrays, the perturbed one the sqrt reading; elements on
            # which the two disagree are left out by compare().
            # a Python scalar keeps numpy's weak promotion (float32 ** -1 stays float32, int8 ** 2 stays int8)
            if not isinstance(a, (np.ndarray, np.generic)):
                a = np.asarray(a, dtype=np.result_type(np.asarray(b).dtype, a))
            if not isinstance(b, (np.ndarray, np.generic)):
                b = np.asarray(b, dtype=np.result_type(np.asarray(a).dtype, b))
            A, B = np.broadcast_arrays(np.asarray(a), np.asarray(b))
            A, B = np.array(A), np.array(B)
            # one extra element with a different exponent: numpy takes its sqrt / square shortcut inside the loop
            # whenever the exponent does not vary along it (also true of 0-d and one-element arrays), the padded
            # call is guaranteed to go through pow()
            Ap = np.concatenate([A.ravel(), np.ones(1, dtype=A.dtype)])
            Bp = np.concatenate([B.ravel(), np.asarray([3 if B.dtype.kind in "biu" else 0.123]).astype(B.dtype)])
            r = np.power(Ap, Bp)[:-1].reshape(A.shape)
            if eps:
                # whether numpy would take the sqrt path is decided by the exponent glue really sees, i.e. the
                # unperturbed one (2.0 ** -1 is exactly 0.5, its perturbed value is not)
                b0 = ev(t[2], val, 0.0, strong)
                half = np.broadcast_to(np.asarray(b0) == 0.5, B.shape) | (B == 0.5)
                if half.any():
                    r = np.where(half, np.sqrt(A.astype(float)), r)
        else:
            r = OPS[k](a, b)
    except (ValueError, ZeroDivisionError, OverflowError, TypeError) as e:
        raise RefRaises(exc_name(e))
    if k == "**" and eps:
        if abs(eps) < 1e-20:
            # |eps| = n * 1e-30 encodes "move every pow result by n units in the last place of its own dtype"
            steps = int(round(eps / 1e-30))
            r = np.asarray(r)
            if r.dtype.kind == "f":
                target = np.asarray(np.inf if steps > 0 else -np.inf, dtype=r.dtype)
                for _ in range(abs(steps)):
                    r = np.nextafter(r, target)
        else:
            r = r * (1.0 + eps)
    return r


class Model:
    def __init__(self, shape):
        self.shape = shape
        self.nodes = {}
        self._cache = {}

    def add(self, node):
        self.nodes[node.nid] = node
        self._cache.clear()

    def val(self, nid, eps=0.0, up=True):
        """Reference value.  up=True: inputs stored with a narrow dtype (int8, uint8, float32, '>i4' ...) are first
        widened to int64 / float64 ("mathematical" value); up=False: evaluated in their own dtype with numpy's rules
        (wrap-around, float32 rounding).  Which of the two an implementation produces depends on how constants are
        typed, which the statement does not fix: compare() leaves out the elements on which the readings disagree.
        up="strong": stored dtype, constants of arithmetic nodes typed as numpy arrays (a third reading).
        up="native_pf": stored dtype, Python-scalar constants, but the result of every parsed command widened to
        float64 - what glue's parsed path does with a scalar (0-d view) result: np.sqrt(uint8) is float16, squared in
        float16 by the array path and in float64 by the scalar path.
        up="float": every integer input read as float64 - differs from the integer readings only where int64
        arithmetic wraps around (the wrapped value is meaningless, and glue's scalar path for 0-d views of parsed
        commands computes in float there): such elements are left out as well."""
        key = (nid, eps, up)
        if key not in self._cache:
            n = self.nodes[nid]
            if n.desc is None:
                v = n.full
                if up is True and n.narrow:
                    v = v.astype(np.float64 if v.dtype.kind == "f" else np.int64)
                elif up == "float" and v.dtype.kind in "biu":
                    v = v.astype(np.float64)
            else:
                with np.errstate(all="ignore"):
                    v = ev(n.desc, lambda m, e: self.val(m, e, up), eps, strong=(up == "strong"))
                v = np.asarray(v)
                if v.dtype.kind not in "biuf":
                    raise RefRaises("non-real reference (%s)" % v.dtype)
                if n.desc[0] == "parsed" and not leaves(n.desc) and v.dtype.kind in "biu":
                    # a command without attribute references yields a Python / numpy scalar; as an attribute it is a
                    # float array (an integer reading would only differ by int64 wrap-around and integer-power rules)
                    v = v.astype(float)
                if n.desc[0] == "parsed" and up == "native_pf":
                    v = v.astype(np.float64)
                v = np.broadcast_to(v, self.shape)
            self._cache[key] = v
        return self._cache[key]

    def val_under(self, nid, eps, up, view, wv, memo):
        """Reference value of nid *under a view*, evaluated elementwise on the viewed inputs; the world inputs are the
        values glue serves for this very view (wv: nid -> array).  A world attribute read with a view agrees with the
        viewed whole read only to ~1e-16 relative (matrix products over differently shaped operands), and a last-place
        difference of an input can decide whether `(-0.5) ** (w * W1)` is nan; "the expression applied to the current
        values of its inputs" therefore takes the inputs as they are served (their agreement with the whole read is
        checked separately, and is C15's business)."""
        key = (nid, eps, up)
        if key in memo:
            return memo[key]
        n = self.nodes[nid]
        if n.desc is None:
            v = np.asarray(wv[nid]) if n.kind == "world" else n.full[Ellipsis if view is None else view]
            v = np.asarray(v)
            if up is True and n.narrow:
                v = v.astype(np.float64 if v.dtype.kind == "f" else np.int64)
            elif up == "float" and v.dtype.kind in "biu":
                v = v.astype(np.float64)
        else:
            with np.errstate(all="ignore"):
                v = ev(n.desc, lambda m, e: self.val_under(m, e, up, view, wv, memo), eps, strong=(up == "strong"))
            v = np.asarray(v)
            if v.dtype.kind not in "biuf":
                raise RefRaises("non-real reference (%s)" % v.dtype)
            if n.desc[0] == "parsed" and not leaves(n.desc) and v.dtype.kind in "biu":
                v = v.astype(float)
            if n.desc[0] == "parsed" and up == "native_pf":
                v = v.astype(np.float64)
            v = np.broadcast_to(v, np.broadcast_to(0, self.shape)[Ellipsis if view is None else view].shape)
        memo[key] = v
        return v

    def references(self, nid, view, fl, wv=None):
        """(r0, r1, alternates) of nid under `view`; wv given -> evaluated on the viewed inputs (see val_under)."""
        narrow_pow = fl["has_narrow_input"] and fl["has_pow"]
        if wv is None:
            ix = Ellipsis if view is None else view
            get = lambda eps, up: self.val(nid, eps, up)[ix]      # noqa: E731
        else:
            memo = {}
            get = lambda eps, up: self.val_under(nid, eps, up, view, wv, memo)      # noqa: E731
        r0, r1 = get(0.0, True), get(PERT, True)
        alts = []
        if fl["has_narrow_input"]:
            alts += [get(0.0, False), get(0.0, "strong"), get(0.0, "native_pf")]
            if narrow_pow:
                # float32 pow results differ in the last place between numpy's scalar, strided and SIMD loops, and
                # that can decide integer-ness of an exponent: also the native readings with every pow result moved
                # by a few float32 ulps either way
                for e in (3e-7, -3e-7, 1e-30, -1e-30, 2e-30, -2e-30):
                    for mode in (False, "strong"):
                        try:
                            alts.append(get(e, mode))
                        except RefRaises:
                            pass
        if fl["has_int_input"]:
            try:
                alts.append(get(0.0, "float"))
            except RefRaises:
                pass
        return r0, r1, (alts or None)

    def val_desc(self, desc, eps=0.0, up=True):
        """Reference value of a descriptor that is not stored as a node."""
        with np.errstate(all="ignore"):
            v = np.asarray(ev(desc, lambda m, e: self.val(m, e, up), eps))
        if v.dtype.kind not in "biuf":
            raise RefRaises("non-real reference (%s)" % v.dtype)
        return np.broadcast_to(v, self.shape)

    def cost(self, nid):
        """Number of elementary reads/ops glue needs to evaluate nid (derived inputs are recomputed every time)."""
        n = self.nodes[nid]
        if n.desc is None:
            return 1
        return n_ops(n.desc) + sum(self.cost(m) for m in leaves(n.desc))

    def closure(self, nid):
        out = {nid}
        changed = True
        while changed:
            changed = False
            for n in self.nodes.values():
                if n.desc is not None and n.nid not in out and set(leaves(n.desc)) & out:
                    out.add(n.nid)
                    changed = True
        return out

    def chain(self, nid, seen=None):
        """All derived nodes nid depends on, itself included."""
        seen = set() if seen is None else seen
        n = self.nodes[nid]
        if n.desc is None or nid in seen:
            return seen
        seen.add(nid)
        for m in leaves(n.desc):
            self.chain(m, seen)
        return seen

    def flags(self, nid):
        ch = [self.nodes[m].desc for m in self.chain(nid)]
        allin = {self.nodes[x].kind for d in ch for x in leaves(d)}
        return {"chain_has_function": any(d[0] in ("fn", "ident") for d in ch),
                "chain_has_parsed": any(d[0] == "parsed" for d in ch),
                "chain_has_const_only_parsed": any(d[0] == "parsed" and not leaves(d) for d in ch),
                "has_broadcast_input": bool(allin & {"pixel", "world"}),
                "has_stored_input": bool(allin & {"stored_float", "stored_int"}),
                "chain_has_binary_pow": any(d[0] in OPS and has_pow(d) for d in ch),
                "has_pow": any(has_pow(d) for d in ch),
                "has_narrow_input": any(self.nodes[x].narrow for d in ch for x in leaves(d)),
                "has_int_input": any(self.nodes[x].desc is None and self.nodes[x].full.dtype.kind in "biu"
                                     for d in ch for x in leaves(d))}

    def alternates(self, nid, fl=None):
        """Other admissible readings of nid (dtype semantics the statement leaves open), or None."""
        fl = fl or self.flags(nid)
        alts = []
        if fl["has_narrow_input"]:
            alts += [self.val(nid, 0.0, up=False), self.val(nid, 0.0, up="strong"), self.val(nid, 0.0, up="native_pf")]
        if fl["has_int_input"]:
            try:
                alts.append(self.val(nid, 0.0, up="float"))
            except RefRaises:
                pass
        return alts or None


UNSTABLE = [0]    # elements left out because the reference itself is unstable (tallied per case)


AMBIGUOUS = [0]   # elements left out because widened and native-dtype evaluation disagree


def compare(got, r0, r1, also=None):
    """None when `got` equals the reference r0.  r1 is the second reference (every pow result perturbed by 1e-12
    relative, sqrt reading of x ** 0.5): the tolerance of an element is widened by its sensitivity |r1 - r0|, and an
    element on which r0 and r1 differ in kind (finite / nan / +inf / -inf) is left out."""
    got = np.asarray(got)
    r0 = np.asarray(r0)
    r1 = np.asarray(r1)
    if got.shape != r0.shape:
        return "shape"
    if got.size == 0:
        return None
    if got.dtype.kind not in "biuf" or r0.dtype.kind not in "biuf":
        return "dtype"
    if also is None and got.dtype.kind in "biu" and r0.dtype.kind in "biu" and r1.dtype.kind in "biu" \
            and np.array_equal(r0, r1):
        return None if np.array_equal(got, r0) else "value"
    g = got.astype(float)
    a = r0.astype(float)
    b = r1.astype(float)
    with np.errstate(all="ignore"):
        fin = np.isfinite(a) & np.isfinite(b)
        same_nonfin = (np.isnan(a) & np.isnan(b)) | (np.isinf(a) & np.isinf(b) & (a == b))
        unstable = ~fin & ~same_nonfin
        tol = 1e-12 * np.abs(a) + 0.05 * np.abs(b - a)
        ok_fin = np.abs(g - a) <= tol
        ok_non = (np.isnan(g) & np.isnan(a)) | ((g == a) & ~np.isnan(a))
    UNSTABLE[0] += int(unstable.sum())
    bad = (fin & ~ok_fin) | (same_nonfin & ~ok_non)
    if also is not None:
        same = np.ones(a.shape, dtype=bool)
        for alt in (also if isinstance(also, list) else [also]):
            c = np.asarray(alt).astype(float)
            with np.errstate(all="ignore"):
                same &= (np.isnan(c) & np.isnan(a)) | (np.abs(c - a) <= tol) | (c == a)
        AMBIGUOUS[0] += int((~same).sum())
        bad = bad & same
    return "value" if bad.any() else None


# ---------------------------------------------------------------- building the glue side
def build_binary(t, model):
    if t[0] == "c":
        return t[1]
    if t[0] == "in":
        return model.nodes[t[1]].cid
    return OPS[t[0]](build_binary(t[1], model), build_binary(t[2], model))


def gen_tree(rng, depth, pool, top=True):
    if not top and (depth == 0 or rng.random() < 0.3):
        if rng.random() < 0.3:
            return ["c", rng.choice(CONSTS)]
        return ["in", rng.choice(pool)]
    op = rng.choice(["+", "-", "*", "/", "**", "-", "+"])
    left = gen_tree(rng, depth - 1, pool, False)
    right = gen_tree(rng, depth - 1, pool, False)
    if left[0] == "c" and right[0] == "c":
        if rng.random() < 0.5:
            left = ["in", rng.choice(pool)]
        else:
            right = ["in", rng.choice(pool)]
    return [op, left, right]


def gen_parsed(rng, depth, pool, top=True):
    r = rng.random()
    if not top and (depth == 0 or r < 0.3):
        q = rng.random()
        if q < 0.25:
            return ["c", rng.choice(CONSTS)]
        if q < 0.32:
            return ["name", rng.choice(sorted(PNAMES))]
        return ["in", rng.choice(pool)]
    if r > 0.8:
        name = rng.choice(sorted(CALLS))
        return ["call", name, [gen_parsed(rng, depth - 1, pool, False) for _ in range(CALLS[name][0])]]
    op = rng.choice(["+", "-", "*", "/", "**"])
    if op == "**":
        # the exponent is a leaf: a constant-only tower such as 3 ** (3 ** (3 ** 3)) is evaluated by Python itself
        # with unbounded integers and never returns
        right = ["c", rng.choice([2, 0.5, -1, 3, 2.0])] if rng.random() < 0.6 else ["in", rng.choice(pool)]
        return [op, gen_parsed(rng, depth - 1, pool, False), right]
    return [op, gen_parsed(rng, depth - 1, pool, False), gen_parsed(rng, depth - 1, pool, False)]


def gen_const_parsed(rng):
    # float-valued only: glue turns a scalar result into a float array, an integer constant would make the dtype
    # (sign of zero, integer power rules) of dependants ambiguous, which the statement does not fix
    return rng.choice([["c", 3.5], ["+", ["c", 2.0], ["c", 3]], ["name", "np.pi"], ["*", ["c", 2], ["name", "math.e"]],
                       ["call", "np.abs", [["c", -1.5]]], ["c", 7.25]])


def render(t, model, rng):
    k = t[0]
    if k == "c":
        return "(%r)" % (t[1],)
    if k == "name":
        return t[1]
    if k == "in":
        lab = model.nodes[t[1]].label
        return rng.choice(["{%s}", "{ %s }", "{%s }"]) % lab
    if k == "call":
        return "%s(%s)" % (t[1], ", ".join(render(a, model, rng) for a in t[2]))
    return "(%s %s %s)" % (render(t[1], model, rng), k, render(t[2], model, rng))


def add_derived(d, model, desc, label, rng, to_cid=None):
    """Create the link described by desc, add it to d under `label` (or under the existing ComponentID `to_cid`,
    which replaces that attribute's definition in place); returns the ComponentID."""
    k = desc[0]
    target = to_cid if to_cid is not None else ComponentID(label)
    if k == "fn":
        link = ComponentLink([model.nodes[n].cid for n in desc[2]], target, using=FUNCS[desc[1]][1])
        d.add_component_link(link)
    elif k == "ident":
        link = ComponentLink([model.nodes[desc[1]].cid], target)
        d.add_component_link(link)
    elif k == "parsed":
        labels = [model.nodes[n].label for n in model.nodes]
        refs = {model.nodes[n].label: model.nodes[n].cid for n in model.nodes
                if model.nodes[n].cid is not None and labels.count(model.nodes[n].label) == 1}
        cmd = render(desc[1], model, rng)
        link = ParsedComponentLink(target, ParsedCommand(cmd, refs))
        d.add_component_link(link)
    else:
        link = build_binary(desc, model)
        d.add_component_link(link, to_cid if to_cid is not None else label)
    return link.get_to_id(), link


def view_flags(view, exp):
    altered = isinstance(view, np.ndarray) or (isinstance(view, tuple) and len(view) == 1 and isinstance(view[0], np.ndarray))
    everything = view is None or view is Ellipsis
    return {"view_altered_by_join": altered, "result_0d": np.ndim(exp) == 0, "view_selects_everything": everything,
            "empty_result": np.size(exp) == 0}


def read(d, cid, view, route):
    if route == "get_data":
        return d.get_data(cid, view)
    if route == "flat" and isinstance(view, tuple) and len(view) >= 2:
        return d[(cid,) + view]
    if view is None:
        return d[cid]
    return d[cid, view]


EXTRA_VIEW_KINDS = ["neg_int", "neg_step", "neg_index_arrays"]


def extra_view(rng, shape, kind):
    """Views with numpy's negative conventions (index -k = n-k, backward slices, negative entries in index arrays)."""
    nd = len(shape)
    if kind == "neg_int":
        n = rng.randint(1, nd)
        v = [(-rng.randint(1, shape[i])) if rng.random() < 0.6 else rand_slice(rng, shape[i], allow_empty=False) for i in range(n)]
        if not any(isinstance(x, int) for x in v):
            v[0] = -rng.randint(1, shape[0])
        return v[0] if n == 1 and rng.random() < 0.4 else tuple(v)
    if kind == "neg_step":
        v = []
        for i in range(rng.randint(1, nd)):
            a = rng.choice([None, shape[i] - 1, rng.randrange(shape[i])])
            b = rng.choice([None, 0, rng.randrange(shape[i])])
            v.append(slice(a, b, -rng.choice([1, 1, 2, 3])))
        return tuple(v)
    if kind == "neg_index_arrays":
        k = rng.randint(1, 6)
        return tuple(np.array([rng.randrange(-s, s) for _ in range(k)]) for s in shape)
    raise ValueError(kind)


def case_views(rng, shape):
    """(kind, view) list: every recipe of vf.common plus the negative conventions; kinds that need at least one
    element per axis are skipped on zero-size datasets."""
    zero = 0 in shape
    out = []
    for vk in list(VIEW_KINDS) + ["int_slice_mix", "slice_tuple_full"] + EXTRA_VIEW_KINDS:
        if zero and vk in ("int_slice_mix", "all_int", "index_arrays", "bool_mask", "neg_int", "neg_step", "neg_index_arrays"):
            continue
        out.append((vk, make_view(rng, shape, vk) if vk in VIEW_KINDS else extra_view(rng, shape, vk)))
    return out


def vidx(view):
    return Ellipsis if view is None else view


LAYOUTS = ["contiguous", "fortran", "transposed_view", "reversed_view", "strided_view", "broadcast_stored"]
NARROW_DTYPES = ["int8", "uint8", "int16", "uint16", "float32", ">f8", ">i4", "<f4", "bool"]


def with_layout(rng, arr, layout):
    """An array equal to `arr` element by element but laid out differently in memory (theme: what is handed to glue
    need not be C-contiguous).  broadcast_stored changes the values: returns a stride-0 array of the same shape."""
    if layout == "fortran":
        return np.asfortranarray(arr)
    if layout == "transposed_view":
        return np.ascontiguousarray(arr.T).T
    if layout == "reversed_view":
        return np.ascontiguousarray(arr[(slice(None, None, -1),) * arr.ndim])[(slice(None, None, -1),) * arr.ndim]
    if layout == "strided_view":
        big = np.zeros(tuple(2 * n for n in arr.shape), dtype=arr.dtype)
        sl = (slice(None, None, 2),) * arr.ndim
        big[sl] = arr
        return big[sl]
    if layout == "broadcast_stored":
        ax = rng.randrange(arr.ndim)
        if arr.shape[ax] == 0:
            return arr
        return np.broadcast_to(np.take(arr, [0], axis=ax), arr.shape)
    return arr


def narrow_values(rng, shape, dt):
    """Values for a narrow-dtype column: small enough to be exact, large enough for int8/uint8 arithmetic to wrap."""
    n = int(np.prod(shape))
    k = np.dtype(dt).kind
    if k == "b":
        return np.array([rng.random() < 0.5 for _ in range(n)]).reshape(shape)
    if k == "f":
        return np.array([rng.randint(-32, 32) * 0.25 for _ in range(n)], dtype=dt).reshape(shape)
    lo = 0 if k == "u" else -100
    return np.array([rng.choice([0, 1, 2, 3, 7, 100, 120, lo, rng.randint(lo, 120)]) for _ in range(n)]).astype(dt).reshape(shape)


def make_dataset(rng, tier, max_dim=3, max_len=4, coords_choices=(None, None, "identity", "diagonal", "coupled_symmetric",
                                                                  "full", "coupled_triangular"), rich=False, ctx=None):
    nd = rng.randint(1, max_dim)
    shape = tuple(rng.randint(1, max_len) for _ in range(nd))
    shape_class = "small"
    if rich:
        q = rng.random()
        if q < 0.08:
            # enough rows (with duplicates) to leave numpy's small-array code paths
            ax = rng.randrange(nd)
            shape = tuple(rng.randint(120, 260) if j == ax else min(s, 2) for j, s in enumerate(shape))
            shape_class = "large"
        elif q < 0.12:
            ax = rng.randrange(nd)
            shape = tuple(0 if j == ax else s for j, s in enumerate(shape))
            shape_class = "zero_size"
        elif q < 0.2:
            shape = (1,) * nd
            shape_class = "single_element"
    ck = rng.choice(coords_choices)
    cobj = make_coords(rng, nd, ck)
    d = Data(label="d", **({"coords": cobj} if cobj is not None else {}))
    model = Model(shape)
    arrays = [("v", "stored_float", rand_floats(rng, shape, p_special=0.2)),
              ("w w", "stored_float", injective_floats(rng, shape) if int(np.prod(shape)) else np.zeros(shape)),
              ("i", "stored_int", rand_ints(rng, shape))]
    if rich:
        # magnitudes from 1e-10 to 1e12 in one column; a narrow / big-endian dtype column whose label shares a prefix
        mags = [1e-10, 2.5e-10, 1e-3, 1.0, 1e6, 1e12, -1e12, 3e-10]
        g = np.array([rng.choice(mags) * rng.choice([1.0, 1.5, -2.0, 0.75]) for _ in range(int(np.prod(shape)))]).reshape(shape)
        arrays.append(("w", "stored_float", g))
        dt = rng.choice(NARROW_DTYPES)
        arrays.append(("v2", "stored_narrow", narrow_values(rng, shape, dt)))
        if ctx is not None:
            ctx.count("narrow_dtype:" + dt)
            ctx.count("shape_class:" + shape_class)
    for label, kind, arr in arrays:
        layout = rng.choice(LAYOUTS) if rich else "contiguous"
        arr = with_layout(rng, arr, layout)
        if rich and ctx is not None:
            ctx.count("stored_layout:" + layout)
        dense = np.array(arr)
        use_dask = rich and kind == "stored_float" and label == "v" and rng.random() < 0.15 and shape_class != "large" \
            and dense.size > 0
        if use_dask:
            import dask.array as da
            cid = d.add_component(da.from_array(dense, chunks=tuple(max(1, -(-n // 2)) for n in dense.shape)), label)
            if ctx is not None:
                ctx.count("dask_backed_input")
        else:
            cid = d.add_component(arr, label)
        node = Node(label, "stored_int" if (kind == "stored_narrow" and dense.dtype.kind in "biu") else
                    ("stored_float" if kind == "stored_narrow" else kind), label, cid, full=dense)
        node.narrow = kind == "stored_narrow"
        node.dask = use_dask
        model.add(node)
    for ax, pc in enumerate(d.pixel_component_ids):
        full = np.broadcast_to(np.arange(shape[ax]).reshape([-1 if j == ax else 1 for j in range(nd)]), shape)
        model.add(Node("p%d" % ax, "pixel", pc.label, pc, full=np.array(full)))
    for ax, wc in enumerate(d.world_component_ids):
        model.add(Node("W%d" % ax, "world", wc.label, wc, full=np.array(d[wc])))   # glue's own dtype (identity coordinates give integers)
    return d, model, shape, ck


# ---------------------------------------------------------------- expr cases
def run_expr(ctx, case):
    rng = ctx.rng
    d, model, shape, ck = make_dataset(rng, ctx.tier, rich=True, ctx=ctx)
    nd = len(shape)
    size = int(np.prod(shape))
    ctx.count("expr_datasets")
    # the harness' own pixel arrays are what glue serves
    for n in list(model.nodes.values()):
        if n.kind == "pixel" and not np.array_equal(np.asarray(d[n.cid]), n.full):
            ctx.violation({"kind": "pixel_input_unexpected"}, {"shape": list(shape)})
            return
    views = case_views(rng, shape)
    if 0 in shape:
        views.append(("bool_mask", np.zeros(shape, dtype=bool)))
    input_ok = {}
    epoch = [0]     # bumped when a stored input is replaced (cached input checks are then stale)

    def inputs_consistent(nid, vi, view):
        """input[view] == input_full[view] for the world inputs below nid (pixel/stored are C04's business but cheap)."""
        ok = True
        for m in {x for c in model.chain(nid) for x in leaves(model.nodes[c].desc)}:
            node = model.nodes[m]
            if node.desc is not None:
                continue
            if input_ok.get((m, vi)) is None:
                try:
                    got = d[node.cid] if view is None else d[node.cid, view]
                    input_ok[(m, vi)] = compare(got, node.full[vidx(view)], node.full[vidx(view)]) is None
                except Exception:
                    input_ok[(m, vi)] = False
            ok = ok and input_ok[(m, vi)]
        return ok

    def check_reads(nid, lk, cid, link, desc, view_items, phase):
        """Read the derived attribute nid with the given (index, (kind, view)) items and compare with the model."""
        try:
            model.val(nid, 0.0)
            model.val(nid, PERT)
        except RefRaises:
            return False
        fl = model.flags(nid)
        world_in = sorted({x for c in model.chain(nid) for x in leaves(model.nodes[c].desc) if model.nodes[x].kind == "world"})
        try:
            model.references(nid, None, fl)
        except RefRaises:
            ctx.count("skipped_native_dtype_reference_raises")
            return True
        kinds_desc = [desc, {m: model.nodes[m].kind for m in leaves(desc)}]
        for vi, (vk, view) in view_items:
            if not inputs_consistent(nid, vi, view):
                ctx.count("read_skipped_input_view_inconsistent(C04/C15)")
                continue
            try:
                wv = None
                if world_in:
                    wv = {m: np.asarray(d[model.nodes[m].cid] if view is None else d[model.nodes[m].cid, view]) for m in world_in}
                exp0, exp1, expn = model.references(nid, view, fl, wv)
            except RefRaises:
                ctx.count("skipped_reference_raises_under_view")
                continue
            route = rng.choice(["getitem", "getitem", "get_data", "flat", "link", "component"])
            try:
                if route == "link" and lk == "binary" and link is not None:
                    got = d[link] if view is None else d[link, view]
                elif route == "component":
                    comp = d.get_component(cid)
                    got = comp.data if view is None else comp[view]
                else:
                    got = read(d, cid, view, route)
                how = compare(got, exp0, exp1, expn)
            except Exception as e:   # noqa
                got = repr(e)[:200]
                how = "exception:" + exc_name(e)
            ctx.evaluation([kinds_desc, list(shape), describe_view(view), phase], size > 1 and n_ops(desc) > 0)
            ctx.count("value_compared:" + lk)
            ctx.count("value_view:" + vk)
            if phase != "first":
                ctx.count("value_compared_" + phase)
            if fl["has_pow"]:
                ctx.count("value_compared_with_pow_tolerance")
            if fl["has_narrow_input"]:
                ctx.count("value_compared_with_narrow_dtype_input")
            if how:
                sig = {"kind": "derived_value_mismatch", "how": how, "link_kind": lk, "view_kind": vk, "phase": phase}
                sig.update(fl)
                sig.update(view_flags(view, exp0))
                sig.pop("has_pow")
                sig.pop("has_stored_input")
                sig.pop("has_int_input")
                ctx.violation(sig, {"shape": list(shape), "coords": ck, "desc": desc, "view": describe_view(view),
                                    "route": route, "got": got, "expected": exp0,
                                    "chain": {m: model.nodes[m].desc for m in model.chain(nid)},
                                    "inputs": {m: model.nodes[m].full for m in model.nodes if model.nodes[m].desc is None}})
        return True

    # ---- constants on the left / right of a single broadcast input, every operator (read as data[link, view])
    bro = [n for n in model.nodes if model.nodes[n].kind in ("pixel", "world")]
    for _ in range(3 if size else 1):
        x = rng.choice(bro)
        c = rng.choice([3, 2, 0.5, 0, 0.0, -1, 1e-10, 1e12, np.float64(2.5), np.int64(3), np.float32(0.5), True])
        op = rng.choice(sorted(OPS))
        for desc in ([op, ["c", c], ["in", x]], [op, ["in", x], ["c", c]]):
            try:
                model.val_desc(desc, 0.0)
                model.val_desc(desc, PERT)
            except RefRaises:
                ctx.count("reference_raises_out_of_domain")
                continue
            link = build_binary(desc, model)
            left = desc[1][0] == "c"
            for vi in rng.sample(range(len(views)), min(3, len(views))):
                vk, view = views[vi]
                node = model.nodes[x]
                try:
                    gi = np.asarray(d[node.cid] if view is None else d[node.cid, view])
                    if compare(gi, node.full[vidx(view)], node.full[vidx(view)]) is not None:
                        raise ValueError
                except Exception:
                    ctx.count("read_skipped_input_view_inconsistent(C04/C15)")
                    continue
                # the reference is evaluated on the input as served under this view (see Model.val_under)
                try:
                    with np.errstate(all="ignore"):
                        e0 = np.asarray(ev(desc, lambda m, e: gi, 0.0))
                        e1 = np.asarray(ev(desc, lambda m, e: gi, PERT))
                        ef = [np.asarray(ev(desc, lambda m, e: gi.astype(float), 0.0))] if gi.dtype.kind in "biu" else None
                except RefRaises:
                    ctx.count("skipped_reference_raises_under_view")
                    continue
                try:
                    got = d[link] if view is None else d[link, view]
                    how = compare(got, e0, e1, ef)
                except Exception as e:   # noqa
                    got = repr(e)[:200]
                    how = "exception:" + exc_name(e)
                ctx.evaluation([desc[0], repr(c), node.kind, left, list(shape), describe_view(view)], size > 1)
                ctx.count("const_%s_of_single_broadcast_input" % ("left" if left else "right"))
                ctx.count("const_class:" + type(c).__name__)
                if how:
                    sig = {"kind": "const_op_broadcast_input_mismatch", "how": how, "const_on_left": left, "op": desc[0],
                           "input_kind": node.kind, "const_type": type(c).__name__, "view_kind": vk}
                    sig.update(view_flags(view, e0))
                    ctx.violation(sig, {"shape": list(shape), "coords": ck, "desc": desc, "view": describe_view(view),
                                        "got": got, "expected": e0, "input": node.full})

    n_derived = 8
    added = []
    for j in range(n_derived):
        pool = [n for n in model.nodes if model.cost(n) <= 40]   # nested derived inputs are recomputed: keep it bounded
        parsed_pool = [n for n in pool if model.nodes[n].desc is not None and model.nodes[n].desc[0] == "parsed"]
        r = rng.random()
        if j >= 5 and parsed_pool and r < 0.5:
            # a parsed command over a parsed-derived attribute (nested parsed expressions under a view)
            other = rng.choice(pool)
            t = [rng.choice(["+", "-", "*"]), ["in", rng.choice(parsed_pool)], ["in", other]]
            if rng.random() < 0.5:
                t = ["call", rng.choice(["np.abs", "np.negative"]), [t]]
            desc = ["parsed", t]
            lk = "parsed"
            ctx.count("parsed_over_parsed_derived")
        elif r < 0.55:
            # bias towards mixing a broadcast input with a stored one
            if rng.random() < 0.5:
                sto = [n for n in pool if model.nodes[n].kind.startswith("stored")]
                pool2 = [rng.choice(bro), rng.choice(sto)] + rng.sample(pool, min(2, len(pool)))
            else:
                pool2 = pool
            desc = gen_tree(rng, rng.randint(1, 5), pool2)
            lk = "binary"
        elif r < 0.75:
            name = rng.choice(sorted(FUNCS) + ["ident"])
            if name == "ident":
                desc = ["ident", rng.choice(pool)]
            elif name in STRICT_FUNCS:
                # inputs of different broadcasting structure: pixel / world attributes (of different axes where the
                # dataset has several), a stored attribute, sometimes a derived one
                ins = rng.sample(bro, min(len(bro), rng.randint(1, 2)))
                sto = [n for n in pool if model.nodes[n].kind.startswith("stored")]
                while len(ins) < FUNCS[name][0]:
                    ins.append(rng.choice(sto if rng.random() < 0.7 else pool))
                rng.shuffle(ins)
                desc = ["fn", name, ins[:FUNCS[name][0]]]
                structs = {(model.nodes[n].kind, n) if model.nodes[n].kind in ("pixel", "world") else ("full", "")
                           for n in desc[2]}
                ctx.count("strict_shape_function_added")
                if len(structs) > 1:
                    ctx.count("strict_shape_function_with_inputs_of_different_broadcast_structure")
            else:
                desc = ["fn", name, [rng.choice(pool) for _ in range(FUNCS[name][0])]]
            lk = "function"
        else:
            if rng.random() < 0.15:
                desc = ["parsed", gen_const_parsed(rng)]
            else:
                desc = ["parsed", gen_parsed(rng, rng.randint(1, 4), pool)]
            lk = "parsed"
        nid = "D%d" % j
        label = rng.choice(["der%d", "der %d x", "D_%d", "v2 %d"]) % j
        try:
            cid, link = add_derived(d, model, desc, label, rng)
        except Exception as e:   # noqa
            ctx.violation({"kind": "derived_add_failed", "link_kind": lk, "how": "exception:" + exc_name(e)},
                          {"desc": desc, "shape": list(shape), "error": repr(e)[:300]})
            continue
        model.add(Node(nid, "derived", label, cid, desc=desc))
        ctx.count("derived_added:" + lk)
        if not check_reads(nid, lk, cid, link, desc, list(enumerate(views)), "first"):
            ctx.count("reference_raises_out_of_domain")
            del model.nodes[nid]
            model._cache.clear()
            try:
                d.remove_component(cid)
            except Exception:
                pass
            continue
        added.append((nid, lk, cid, link, desc))
        fl = model.flags(nid)
        if fl["has_broadcast_input"] and fl["has_stored_input"]:
            ctx.count("derived_mixing_broadcast_and_stored_inputs")
        if lk == "binary" and (desc[1][0] == "c" or desc[2][0] == "c"):
            ctx.count("binary_root_with_constant_operand:" + ("left" if desc[1][0] == "c" else "right"))
        if rng.random() < 0.003:
            ctx.sample({"shape": list(shape), "coords": ck, "desc": desc, "full": model.val(nid, 0.0)})

    if not size:
        return
    # ---- read through a Subset (index-list view built by glue itself)
    if added:
        nid, lk, cid, link, desc = rng.choice(added)
        try:
            sub = d.new_subset()
            sub.subset_state = model.nodes["w w"].cid > float(np.median(model.nodes["w w"].full))
            mask = model.nodes["w w"].full > float(np.median(model.nodes["w w"].full))
            fl = model.flags(nid)
            sview = tuple(np.nonzero(mask))
            ok_in = inputs_consistent(nid, "subset", sview)
            if ok_in:
                world_in = sorted({x for c in model.chain(nid) for x in leaves(model.nodes[c].desc)
                                   if model.nodes[x].kind == "world"})
                wv = {m: np.asarray(d[model.nodes[m].cid, sview]) for m in world_in} if world_in else None
                r0m, r1m, natm = model.references(nid, sview, fl, wv)
                try:
                    got = sub[cid]
                    how = compare(got, r0m, r1m, natm)
                except Exception as e:   # noqa
                    got = repr(e)[:200]
                    how = "exception:" + exc_name(e)
                ctx.evaluation()
                ctx.count("value_compared_through_subset")
                if how:
                    sig = {"kind": "derived_value_mismatch", "how": how, "link_kind": lk, "view_kind": "subset", "phase": "subset"}
                    sig.update({k: v for k, v in fl.items() if k not in ("has_pow", "has_stored_input", "has_int_input")})
                    ctx.violation(sig, {"shape": list(shape), "desc": desc, "got": got, "expected": r0m})
        except RefRaises:
            pass

    # ---- an input is replaced under its existing ComponentID between two reads of the derived attributes
    for rep_i in range(0 if DEBUG_SKIP_REPLACEMENT else 2):
        target = rng.choice(["v", "i", "w w", "v2", "w"])
        node = model.nodes[target]
        how_rep = rng.choice(["update_components", "add_component"])
        if node.dask:
            how_rep = "add_component"     # update_components documents "Component subclasses cannot be updated"
            node.dask = False
        if node.full.dtype.kind == "f":
            arr = rand_floats(rng, shape, p_special=0.1).astype(node.full.dtype)
        else:
            arr = rand_ints(rng, shape).astype(node.full.dtype) if node.full.dtype.kind != "b" else ~node.full
        try:
            if how_rep == "update_components":
                d.update_components({node.cid: arr})
            else:
                d.add_component(arr, node.cid)
        except Exception as e:   # noqa
            ctx.violation({"kind": "input_replacement_failed", "how": "exception:" + exc_name(e), "via": how_rep},
                          {"shape": list(shape), "target": target, "error": repr(e)[:300]})
            return
        if node.full.dtype.kind == "b":
            node.narrow = True
        node.full = np.array(arr)
        model._cache.clear()
        epoch[0] += 1
        for key in [k for k in input_ok if k[0] == target]:
            del input_ok[key]
        ctx.count("input_replaced:" + how_rep)
        # the replaced input itself
        if compare(d[node.cid], node.full, node.full) is not None:
            ctx.violation({"kind": "replaced_input_not_served", "via": how_rep}, {"shape": list(shape), "target": target})
            return
        for (nid, lk, cid, link, desc) in added:
            items = [(0, views[0])] + [rng.choice(list(enumerate(views)))]      # view None first, then a random one
            dep = target in {x for c in model.chain(nid) for x in leaves(model.nodes[c].desc)}
            if dep:
                ctx.count("dependant_read_after_input_replaced")
            check_reads(nid, lk, cid, link, desc, items, "after_input_replaced_by_" + how_rep)


# ---------------------------------------------------------------- history cases
class _ReadingListener(HubListener):
    def __init__(self, data, ctx):
        self.data, self.ctx = data, ctx

    def register_to_hub(self, hub):
        hub.subscribe(self, ComponentsChangedMessage, handler=self.read_all, filter=lambda m: m.sender is self.data)
        hub.subscribe(self, NumericalDataChangedMessage, handler=self.read_all, filter=lambda m: m.sender is self.data)

    def read_all(self, msg):
        for cid in self.data.components:
            try:
                np.asarray(self.data[cid])
                self.ctx.count("reads_inside_change_handler")
            except Exception:
                self.ctx.count("reads_inside_change_handler_raised(intermediate_state)")



def run_hist(ctx, case):
    rng = ctx.rng
    d, model, shape, ck = make_dataset(rng, ctx.tier, max_dim=2, max_len=3,
                                       coords_choices=(None, None, "identity", "diagonal"))
    in_dc = rng.random() < 0.3
    if in_dc:
        dc = DataCollection([d])   # noqa: F841  (keeps the hub alive)
        ctx.count("histories_in_data_collection")
        if rng.random() < 0.6:
            # re-entrancy: a listener that reads every listed attribute while the change message is being broadcast
            # (intermediate states may list attributes that are not readable yet - only the final state is judged)
            listener = _ReadingListener(d, ctx)
            listener.register_to_hub(dc.hub)
            ctx.count("histories_with_reading_listener")
    ctx.count("histories")
    removed_labels = []
    foreign = Data(label="foreign", q=np.arange(int(np.prod(shape)), dtype=float).reshape(shape))
    order = [c.label for c in d.components]          # labels, in glue's own initial order
    by_label = {n.label: n.nid for n in model.nodes.values()}
    order = [by_label[lab] for lab in order]
    nsteps = rng.randint(7, 18)
    counter = 0
    hist = []

    def fail(kind, extra, detail):
        sig = {"kind": kind, "in_data_collection": in_dc}
        sig.update(extra)
        det = {"shape": list(shape), "history": hist, "order_model": [model.nodes[n].label for n in order]}
        det.update(detail)
        ctx.violation(sig, det)

    def label_unique(nid):
        return sum(1 for n in model.nodes.values() if n.label == model.nodes[nid].label) == 1

    def check_state(step_kind, nontrivial, extra_sig=None):
        """Order of components, derived set, values of every live derived attribute."""
        got = [c.label for c in d.components]
        exp = [model.nodes[n].label for n in order]
        ctx.evaluation([list(shape), hist], nontrivial)
        ctx.count("component_list_compared")
        if got != exp:
            missing = [x for x in exp if x not in got]
            extra = [x for x in got if x not in exp]
            kind = "dependant_survived_removal" if extra and step_kind == "remove" else \
                   "non_dependant_vanished" if missing else "order_changed" if not extra else "unexpected_component"
            sg = {"after": step_kind}
            sg.update(extra_sig or {})
            fail(kind, sg, {"got": got, "expected": exp})
            return False
        gd = [c.label for c in d.derived_components]
        ed = [model.nodes[n].label for n in order if model.nodes[n].desc is not None]
        if gd != ed:
            fail("derived_list_mismatch", {"after": step_kind}, {"got": gd, "expected": ed})
            return False
        ok = True
        for n in order:
            node = model.nodes[n]
            if node.kind == "world":
                continue
            try:
                r0, r1 = model.val(n, 0.0), model.val(n, PERT)
            except RefRaises:
                continue
            view = None if rng.random() < 0.5 else make_view(rng, shape, rng.choice(["slice_tuple_full", "int_slice_mix",
                                                                                    "all_int", "slice_tuple_short"]))
            try:
                g = d[node.cid] if view is None else d[node.cid, view]
                alts = None
                if node.desc is not None:
                    try:
                        alts = model.alternates(n)
                    except RefRaises:
                        alts = None
                how = compare(g, r0[vidx(view)], r1[vidx(view)], None if alts is None else [x[vidx(view)] for x in alts])
            except Exception as e:   # noqa
                how = "exception:" + exc_name(e)
                g = repr(e)[:200]
            ctx.evaluation()
            ctx.count("history_value_compared")
            if how:
                fl = model.flags(n) if node.desc is not None else {}
                sig = {"after": step_kind, "how": how, "attr_kind": node.kind, "result_0d": np.ndim(r0[vidx(view)]) == 0,
                       "chain_has_parsed": fl.get("chain_has_parsed", False),
                       "chain_has_const_only_parsed": fl.get("chain_has_const_only_parsed", False),
                       "view_selects_everything": view is None}
                fail("value_changed_in_history", sig, {"attr": node.label, "view": describe_view(view), "got": g,
                                                       "expected": r0[vidx(view)]})
        # a wrong read does not change the state: the history goes on (only structural mismatches end it)
        return ok

    after_shuffle = False
    for step in range(nsteps):
        live = [n for n in order if model.nodes[n].kind != "world"]
        removable = [n for n in order if model.nodes[n].kind in ("stored_float", "stored_int", "derived")]
        r = rng.random()
        if after_shuffle and rng.random() < 0.5 and len(removable) >= 2:
            r = 0.7          # a removal right after the storage order / a definition changed
        after_shuffle = False
        der = [n for n in live if model.nodes[n].desc is not None]
        stored = [n for n in order if model.nodes[n].kind in ("stored_float", "stored_int")]
        if 0.26 <= r < 0.32 and stored:
            # ---- the values of a stored input are replaced under its existing ComponentID
            target = rng.choice(stored)
            node = model.nodes[target]
            arr = (rand_floats(rng, shape, p_special=0.1) if node.full.dtype.kind == "f" else rand_ints(rng, shape))
            via = rng.choice(["update_components", "add_component"])
            hist.append(["replace_values", node.label, via])
            try:
                if via == "update_components":
                    d.update_components({node.cid: arr})
                else:
                    d.add_component(arr, node.cid)
            except Exception as e:   # noqa
                fail("input_replacement_failed", {"how": "exception:" + exc_name(e), "via": via}, {"error": repr(e)[:300]})
                return
            node.full = np.array(arr)
            model._cache.clear()
            ctx.count("hist_replace_values")
            if len(model.closure(target)) > 1:
                ctx.count("hist_replace_values_with_dependants")
            if not check_state("replace_values:" + via, len(model.closure(target)) > 1):
                return
            continue
        if 0.22 <= r < 0.26:
            # ---- a call that must fail (or be a no-op), followed by valid calls on the same objects
            fk = rng.choice(["read_bad_view", "link_foreign_input", "read_unknown_label", "update_id_foreign",
                             "remove_foreign", "reorder_wrong_list", "update_derived_values", "update_wrong_shape"])
            hist.append(["fault", fk])
            expect = None
            try:
                if fk == "read_bad_view":
                    expect = IndexError
                    d[model.nodes[rng.choice(live)].cid, (max(shape) + 5,)]
                elif fk == "link_foreign_input":
                    expect = ValueError
                    d.add_component_link(foreign.id["q"] * 2, "bad")
                elif fk == "read_unknown_label":
                    expect = IncompatibleAttribute
                    d["no such attribute"]
                elif fk == "update_id_foreign":
                    d.update_id(foreign.id["q"], ComponentID("zz"))
                elif fk == "remove_foreign":
                    d.remove_component(foreign.id["q"])
                elif fk == "reorder_wrong_list":
                    expect = ValueError
                    d.reorder_components([model.nodes[n].cid for n in order][:-1])
                elif fk == "update_derived_values" and der:
                    expect = TypeError
                    d.update_components({model.nodes[rng.choice(der)].cid: np.zeros(shape)})
                elif fk == "update_wrong_shape" and stored:
                    expect = ValueError
                    d.update_components({model.nodes[rng.choice(stored)].cid: np.zeros(tuple(n + 1 for n in shape))})
                raised = None
            except Exception as e:   # noqa
                raised = e
            ctx.count("hist_fault:" + fk)
            if expect is not None and raised is not None and not isinstance(raised, expect):
                ctx.count("hist_fault_raised_other_exception_type")
            if not check_state("fault:" + fk, False):
                return
            continue
        if 0.40 <= r < 0.50 and len(order) > 2:
            # ---- reorder the components: a derived attribute may now be stored ahead of its inputs
            perm = list(order)
            q = rng.random()
            if q < 0.35:
                perm.reverse()
            elif q < 0.6 and der:
                # dependants first, in reverse order of creation, then everything else
                dd = [n for n in reversed(order) if model.nodes[n].desc is not None]
                perm = dd + [n for n in order if model.nodes[n].desc is None]
            else:
                rng.shuffle(perm)
            hist.append(["reorder", [model.nodes[n].label for n in perm]])
            try:
                d.reorder_components([model.nodes[n].cid for n in perm])
            except Exception as e:   # noqa
                fail("reorder_failed", {"how": "exception:" + exc_name(e)}, {"error": repr(e)[:300]})
                return
            order[:] = perm
            ctx.count("hist_reorder")
            if not check_state("reorder", False):
                return
            after_shuffle = True
            continue
        if 0.32 <= r < 0.40 and der:
            # ---- re-define an existing derived attribute under its own ComponentID (stays where it is stored),
            # preferably in terms of a derived attribute stored *after* it
            cands = list(der)
            target = rng.choice(cands) if cands else None
            pool = [n for n in live if target is not None and n not in model.closure(target) and model.cost(n) <= 30]
            if target is None or not pool:
                ctx.count("hist_redefine_not_possible")
                continue
            later = [n for n in pool if model.nodes[n].desc is not None and order.index(n) > order.index(target)]
            ins = [rng.choice(later) if later and rng.random() < 0.7 else rng.choice(pool) for _ in range(rng.randint(1, 2))]
            t = ["in", ins[0]]
            for x in ins[1:]:
                t = [rng.choice(["+", "-", "*"]), t, ["in", x]]
            kind = rng.random()
            if kind < 0.6:
                desc = [rng.choice(["*", "+"]), t, ["c", rng.choice([2, 0.5, 3])]]
            elif kind < 0.8:
                desc = ["fn", "lin1" if len(ins) == 1 else "mul2", ins]
            else:
                desc = ["parsed", ["*", t, ["c", 2]]] if all(label_unique(x) for x in ins) else ["*", t, ["c", 2]]
            node = model.nodes[target]
            hist.append(["redefine", node.label, desc])
            try:
                add_derived(d, model, desc, node.label, rng, to_cid=node.cid)
            except Exception as e:   # noqa
                fail("derived_add_failed", {"how": "exception:" + exc_name(e), "redefine": True}, {"error": repr(e)[:300]})
                return
            node.desc = desc
            model._cache.clear()
            ctx.count("hist_redefine")
            if any(model.nodes[x].desc is not None and order.index(x) > order.index(target) for x in ins):
                ctx.count("hist_redefine_on_later_stored_derived")
            if not check_state("redefine", False):
                return
            after_shuffle = True
            continue
        if r < 0.5 or len(removable) < 2:
            # ---- add a derived attribute (chains and diamonds arise because inputs favour derived ones)
            k = rng.randint(1, 3)
            cheap = [n for n in live if model.cost(n) <= 60] or live
            cheap_der = [n for n in der if model.cost(n) <= 60]
            ins = [rng.choice(cheap_der) if cheap_der and rng.random() < 0.6 else rng.choice(cheap) for _ in range(k)]
            q = rng.random()
            if q < 0.6:
                t = ["in", ins[0]]
                for x in ins[1:]:
                    t = [rng.choice(["+", "-", "*"]), t, ["in", x]] if rng.random() < 0.7 else \
                        [rng.choice(["+", "-", "*"]), ["in", x], t]
                if len(ins) == 1:
                    t = [rng.choice(["*", "+", "-", "/"]), t, ["c", rng.choice([2, 0.5, 3])]] if rng.random() < 0.5 else \
                        [rng.choice(["*", "+", "-"]), ["c", rng.choice([2, 0.5, 3])], t]
                desc = t
            elif q < 0.8:
                name = {1: "lin1", 2: rng.choice(["mul2", "ravel2", "max2", "zip2", "fromiter2", "assert2"]),
                        3: rng.choice(["where3", "emptylike3"])}[k]
                desc = ["fn", name, ins]
            else:
                t = ["in", ins[0]]
                for x in ins[1:]:
                    t = [rng.choice(["+", "-", "*"]), t, ["in", x]]
                desc = ["parsed", ["*", t, ["c", 2]] if rng.random() < 0.5 else ["call", "np.abs", [t]]]
                if not all(label_unique(x) for x in ins):
                    desc = ["*", t, ["c", 2]]       # a tag must name one attribute: ambiguous labels are not parsed
            counter += 1
            nid = "D%d" % counter
            label = "d%d" % counter
            hist.append(["add", label, desc])
            try:
                cid, _ = add_derived(d, model, desc, label, rng)
            except Exception as e:   # noqa
                fail("derived_add_failed", {"how": "exception:" + exc_name(e)}, {"error": repr(e)[:300]})
                return
            model.add(Node(nid, "derived", label, cid, desc=desc))
            order.append(nid)
            ctx.count("hist_add")
            if not check_state("add", False):
                return
        elif r < 0.58:
            counter += 1
            label = "s%d" % counter
            if removed_labels and rng.random() < 0.5:
                label = removed_labels.pop()            # do - remove - re-add under the same label (a new identifier)
                ctx.count("hist_readd_removed_label")
            arr = rand_floats(rng, shape, p_special=0.1)
            hist.append(["add_stored", label])
            cid = d.add_component(arr, label)
            snid = "S%d" % counter
            model.add(Node(snid, "stored_float", label, cid, full=np.array(arr)))
            order.append(snid)
            if not check_state("add_stored", False):
                return
        elif r < 0.82:
            # ---- remove
            victim = rng.choice(removable)
            gone = model.closure(victim)
            direct = {n.nid for n in model.nodes.values() if n.desc is not None and victim in leaves(n.desc)}
            transitive = len(gone - direct - {victim}) > 0
            crosses = any(model.nodes[n].renamed_with_dependants for n in gone)
            # is some attribute of the closure stored ahead of a member of the closure it depends on?
            pos = {n: i for i, n in enumerate(order)}
            out_of_order = any(pos[m] > pos[n] for n in gone if model.nodes[n].desc is not None
                               for m in leaves(model.nodes[n].desc) if m in gone)
            victims = [victim]
            if rng.random() < 0.06:
                # everything stored goes, one call after the other: only attributes derived from pixel/world survive
                victims = [n for n in order if model.nodes[n].kind in ("stored_float", "stored_int")]
                gone = set().union(*[model.closure(v) for v in victims]) if victims else set()
                ctx.count("hist_remove_everything_stored")
            twice = rng.random() < 0.3
            hist.append(["remove", [model.nodes[v].label for v in victims], "twice" if twice else "once"])
            try:
                for v in victims:
                    d.remove_component(model.nodes[v].cid)
                    if twice:
                        d.remove_component(model.nodes[v].cid)      # same operation twice: the second is a no-op
            except Exception as e:   # noqa
                fail("remove_failed", {"how": "exception:" + exc_name(e), "twice": twice}, {"error": repr(e)[:300]})
                return
            if twice:
                ctx.count("hist_remove_twice")
            for v in victims:
                if model.nodes[v].kind.startswith("stored"):
                    removed_labels.append(model.nodes[v].label)
            order[:] = [n for n in order if n not in gone]
            for n in gone:
                del model.nodes[n]
            model._cache.clear()
            ctx.count("hist_remove")
            if len(gone) > 1:
                ctx.count("hist_remove_with_dependants")
            if transitive:
                ctx.count("hist_remove_with_transitive_dependants")
            if len(gone) > 1 and len([n for n in order if model.nodes[n].desc is not None]) > 0:
                ctx.count("hist_remove_with_dependants_and_surviving_derived")
            if out_of_order:
                ctx.count("hist_remove_with_dependant_stored_before_its_input")
            if not check_state("remove", len(gone) > 1, {"removal_closure_crosses_renamed_attribute": crosses,
                                                          "dependant_stored_before_its_input": out_of_order}):
                return
        else:
            # ---- update_id
            cand = removable
            nodep = [n for n in cand if len(model.closure(n)) == 1]
            with_parsed = [n for n in cand if any(model.nodes[c].desc is not None and model.nodes[c].desc[0] == "parsed"
                                                   and n in leaves(model.nodes[c].desc) for c in model.closure(n) if c != n)]
            q0 = rng.random()
            if with_parsed and q0 < 0.4:
                target = rng.choice(with_parsed)       # an input of a parsed command
            elif nodep and q0 < 0.65:
                target = rng.choice(nodep)
            else:
                target = rng.choice(cand)
            parsed_dep = target in with_parsed
            has_dep = len(model.closure(target)) > 1
            node = model.nodes[target]
            counter += 1
            newlabel = node.label + "_r%d" % counter
            new = ComponentID(newlabel, parent=d if rng.random() < 0.5 else None)
            variant = "fresh"
            q = rng.random()
            if q < 0.25 and node.old_cids:
                new = node.old_cids[-1]                 # walk back: A -> B -> A
                newlabel = new.label
                variant = "back_to_previous_id"
            elif q < 0.4:
                other = rng.choice([n for n in order if n != target])
                newlabel = model.nodes[other].label     # equal-but-distinct: a second identifier with the same label
                new = ComponentID(newlabel, parent=d)
                variant = "label_equal_to_another_attribute"
            ctx.count("hist_update_id_variant:" + variant)
            node.old_cids.append(node.cid)
            hist.append(["update_id", node.label, newlabel, variant])
            try:
                d.update_id(node.cid, new)
            except Exception as e:   # noqa
                fail("update_id_failed", {"how": "exception:" + exc_name(e)}, {"error": repr(e)[:300]})
                return
            renamed_kind = node.kind
            node.renamed_with_dependants = node.renamed_with_dependants or has_dep
            node.cid = new
            node.label = newlabel
            twice = rng.random() < 0.4
            if twice:
                # the same attribute is renamed again straight away: x -> x_0 -> x_1, nothing read in between
                counter += 1
                newlabel = newlabel + "_t%d" % counter
                new2 = ComponentID(newlabel, parent=d)
                node.old_cids.append(node.cid)
                hist.append(["update_id", node.label, newlabel, "second_in_a_row"])
                try:
                    d.update_id(node.cid, new2)
                except Exception as e:   # noqa
                    fail("update_id_failed", {"how": "exception:" + exc_name(e), "second_in_a_row": True}, {"error": repr(e)[:300]})
                    return
                node.cid = new2
                node.label = newlabel
                ctx.count("hist_update_id_twice_in_a_row")
                if parsed_dep:
                    ctx.count("hist_update_id_twice_in_a_row_on_input_of_parsed_command")
            if parsed_dep:
                ctx.count("hist_update_id_on_input_of_parsed_command")
            ctx.count("hist_update_id")
            ctx.count("hist_update_id_" + ("with_dependants" if has_dep else "without_dependants"))
            # order and the renamed attribute itself
            got = [c.label for c in d.components]
            exp = [model.nodes[n].label for n in order]
            ctx.evaluation([list(shape), hist], has_dep)
            ctx.count("component_list_compared")
            if got != exp:
                fail("order_changed", {"after": "update_id", "renamed_kind": renamed_kind}, {"got": got, "expected": exp})
                return
            broken = False
            for n in order:
                nn = model.nodes[n]
                if nn.kind == "world":
                    continue
                try:
                    r0, r1 = model.val(n, 0.0), model.val(n, PERT)
                except RefRaises:
                    continue
                is_dependant = n != target and n in model.closure(target)
                try:
                    alts = None
                    if nn.desc is not None:
                        try:
                            alts = model.alternates(n)
                        except RefRaises:
                            alts = None
                    how = compare(d[nn.cid], r0, r1, alts)
                except Exception as e:   # noqa
                    how = "exception:" + exc_name(e)
                ctx.evaluation()
                ctx.count("history_value_compared")
                if is_dependant:
                    ctx.count("dependant_read_after_update_id")
                if how:
                    broken = True
                    fail("value_changed_by_update_id", {"how": how, "renamed_kind": renamed_kind, "twice_in_a_row": twice,
                                                        "attr_is_dependant_of_renamed": is_dependant,
                                                        "attr_is_renamed": n == target,
                                                        "dependant_link_kind": {"fn": "function", "ident": "function",
                                                                                "parsed": "parsed"}.get(nn.desc[0], "binary")
                                                        if nn.desc is not None else None},
                         {"attr": nn.label})
            if broken:
                ctx.count("history_ended_after_update_id_broke_dependants")
                return
    ctx.count("histories_completed")


def run_case(ctx, case):
    UNSTABLE[0] = 0
    AMBIGUOUS[0] = 0
    if case[0] == "expr":
        run_expr(ctx, case)
    else:
        run_hist(ctx, case)
    if AMBIGUOUS[0]:
        ctx.count("elements_left_out_dtype_semantics_ambiguous", AMBIGUOUS[0])
    if UNSTABLE[0]:
        ctx.count("elements_left_out_reference_unstable_under_pow_perturbation", UNSTABLE[0])


def floors(counters, tier):
    out = []
    need = {"derived_mixing_broadcast_and_stored_inputs": 300, "hist_remove_with_transitive_dependants": 30,
            "hist_remove_with_dependants_and_surviving_derived": 30, "hist_update_id_without_dependants": 40,
            "hist_update_id_with_dependants": 30, "value_compared:binary": 5000, "value_compared:function": 1500,
            "value_compared:parsed": 1500, "component_list_compared": 1500, "history_value_compared": 5000,
            "binary_root_with_constant_operand:left": 30, "binary_root_with_constant_operand:right": 30,
            "histories_in_data_collection": 50, "hist_reorder": 100, "hist_redefine_on_later_stored_derived": 10,
            "hist_remove_with_dependant_stored_before_its_input": 20}
    need.update({"const_left_of_single_broadcast_input": 300, "const_right_of_single_broadcast_input": 300,
                 "parsed_over_parsed_derived": 50, "input_replaced:update_components": 40, "input_replaced:add_component": 40,
                 "dependant_read_after_input_replaced": 200, "value_compared_with_narrow_dtype_input": 2000,
                 "shape_class:large": 5, "shape_class:zero_size": 4, "shape_class:single_element": 5, "dask_backed_input": 8,
                 "value_compared_through_subset": 40, "hist_replace_values_with_dependants": 20, "hist_remove_twice": 50,
                 "hist_update_id_variant:back_to_previous_id": 10, "hist_update_id_variant:label_equal_to_another_attribute": 50,
                 "histories_with_reading_listener": 30, "hist_update_id_twice_in_a_row": 100,
                 "hist_update_id_twice_in_a_row_on_input_of_parsed_command": 15, "strict_shape_function_added": 100,
                 "strict_shape_function_with_inputs_of_different_broadcast_structure": 60, "hist_readd_removed_label": 20, "hist_remove_everything_stored": 15})
    for lay in LAYOUTS:
        need["stored_layout:" + lay] = 50
    for fk in ("read_bad_view", "link_foreign_input", "read_unknown_label", "update_id_foreign", "remove_foreign",
               "reorder_wrong_list", "update_derived_values", "update_wrong_shape"):
        need["hist_fault:" + fk] = 5
    for vk in EXTRA_VIEW_KINDS:
        need["value_view:" + vk] = 500
    for k, lo in need.items():
        if counters.get(k, 0) < lo:
            out.append("fewer than %d %s" % (lo, k))
    for vk in VIEW_KINDS:
        if counters.get("value_view:" + vk, 0) < 500:
            out.append("fewer than 500 derived reads with view kind %s" % vk)
    return out
