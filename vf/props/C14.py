"""C14 - derived attributes compute their defining expression and go with their inputs.

Two workloads, one oracle.

"expr" cases: one dataset (1-3 dims, optional coordinates, float columns with
NaN/inf, an injective float column, an integer column, pixel and world
attributes), to which a sequence of derived attributes is added.  Each one is
described by a JSON *descriptor* - an arithmetic tree over + - * / ** with
constants on either side (BinaryComponentLink, built with the overloaded
operators of ComponentID / ComponentLink), an n-ary function link (well-behaved,
returning a ravelled array, returning a Python scalar for 0-d input, identity)
or a parsed command string rendered from a tree (arithmetic, np./numpy./math.
names, tags with spaces, constant-only commands).  Inputs may be stored, pixel,
world and previously added derived attributes.  Every derived attribute is read
with every view recipe and compared with the *same descriptor evaluated by
numpy on the full input arrays, then indexed with the view*.

"hist" cases: add / remove / update_id histories over chains and diamonds of
derived attributes (optionally inside a DataCollection).  A descriptor graph is
the model: after every step the order of `Data.components`, the set of derived
attributes (dependency closure of the removed one gone, nothing else) and the
values of all survivors are compared.
"""
import math
import operator

import numpy as np

from glue.core import Data, DataCollection
from glue.core.component_id import ComponentID
from glue.core.component_link import ComponentLink
from glue.core.parse import ParsedCommand, ParsedComponentLink

from vf.common import (VIEW_KINDS, make_view, describe_view, exc_name, rand_floats, injective_floats, rand_ints,
                       make_coords)

ID = "C14"
LEVEL = "exploration"
BUDGET_S = {"quick": 40.0, "thorough": 420.0}
RULE = ("expr case = one random dataset + 8 derived attributes (random binary tree of depth <= 5 / function link / "
        "parsed command; inputs stored, pixel, world, earlier derived), each read with 12 views (all view recipes); "
        "hist case = one add/remove/update_id history of 5-14 steps on a 1-2-d dataset. One evaluation = one "
        "comparison of a read (or of the component list after a step) with the descriptor model. Non-trivial = the "
        "descriptor has at least one operation and the dataset more than one element (values), or the step removed / "
        "renamed an attribute that has dependants (histories); distinct = distinct (descriptor with input kinds, shape, "
        "view) resp. (history prefix) fingerprints.")
ASSUMPTIONS = ["+ - * / and sqrt/abs/maximum/where are correctly rounded, so glue's evaluation on unbroadcast or viewed "
               "inputs must agree with numpy on the full arrays to rtol 1e-12; for ** (libm/SIMD pow may differ in the "
               "last place between contiguous and strided loops) the tolerance is widened by the sensitivity of the "
               "result to a 1e-12 relative perturbation of every pow result",
               "the full-array value of a world attribute is taken from glue (C15 decides it); a read is skipped and "
               "tallied when an input attribute itself does not satisfy input[view] == input_full[view] (C04/C15)",
               "an expression on which the numpy reference raises (integer to negative integer power) is out of domain",
               "functions given to ComponentLink are elementwise, accept and return arrays (possibly ravelled, possibly "
               "a Python scalar for 0-d input)"]
ANCHORS = ["glue.core.component_link:BinaryComponentLink.compute", "glue.core.component_link:ComponentLink.compute",
           "glue.core.parse:ParsedCommand.evaluate", "glue.core.parse:_dereference",
           "glue.core.data:Data.remove_component", "glue.core.data:Data._removed_derived_that_depend_on",
           "glue.core.data:Data.update_id", "glue.core.component:DerivedComponent.__getitem__"]

N_EXPR = {"quick": 500, "thorough": 22000}
N_HIST = {"quick": 1000, "thorough": 40000}
OPS = {"+": operator.add, "-": operator.sub, "*": operator.mul, "/": operator.truediv, "**": operator.pow}
CONSTS = [2, 0.5, -1, 3, 0, 1.5, -2.0, 1, 2.0, -0.5]
PERT = 1e-12


def cases(tier, seed):
    ne, nh = N_EXPR[tier], N_HIST[tier]
    for i in range(max(ne, nh)):
        if i < ne:
            yield ["expr", i]
        if i < nh:
            yield ["hist", i]


# ---------------------------------------------------------------- function links
def _f_lin1(a):
    return a * 2 + 1


def _f_mul2(a, b):
    return a * b - 1


def _f_where3(a, b, c):
    return np.where(a > b, c, a - b)


def _f_ravel2(a, b):
    return (a + b).ravel()


def _f_scalar0d(a, b):
    if np.ndim(a) == 0:
        return float(a) * 2 + float(b)
    return a * 2.0 + b


def _f_max2(a, b):
    return np.maximum(a, b) + 0.5


FUNCS = {  # name -> (arity, function handed to glue, clean elementwise reference)
    "lin1": (1, _f_lin1, lambda a: a * 2 + 1),
    "mul2": (2, _f_mul2, lambda a, b: a * b - 1),
    "where3": (3, _f_where3, lambda a, b, c: np.where(a > b, c, a - b)),
    "ravel2": (2, _f_ravel2, lambda a, b: a + b),
    "scalar0d": (2, _f_scalar0d, lambda a, b: a * 2.0 + b),
    "max2": (2, _f_max2, lambda a, b: np.maximum(a, b) + 0.5),
}
CALLS = {  # name used in a parsed command -> (arity, reference)
    "np.abs": (1, np.abs),
    "numpy.sqrt": (1, np.sqrt),
    "np.maximum": (2, np.maximum),
    "numpy.minimum": (2, np.minimum),
    "np.negative": (1, np.negative),
}
PNAMES = {"np.pi": np.pi, "math.e": math.e, "numpy.pi": np.pi}


# ---------------------------------------------------------------- descriptor model
class Node:
    """One attribute of the model: kind in stored_float/stored_int/pixel/world/derived."""

    def __init__(self, nid, kind, label, cid, full=None, desc=None):
        self.nid, self.kind, self.label, self.cid, self.full, self.desc = nid, kind, label, cid, full, desc
        self.renamed_with_dependants = False


def leaves(t):
    if t[0] == "in":
        return [t[1]]
    if t[0] in ("c", "name"):
        return []
    if t[0] in ("fn", "ident"):
        return list(t[2]) if t[0] == "fn" else [t[1]]
    if t[0] == "parsed":
        return leaves(t[1])
    if t[0] == "call":
        return [x for a in t[2] for x in leaves(a)]
    return leaves(t[1]) + leaves(t[2])


def has_pow(t):
    if t[0] in ("in", "c", "name", "fn", "ident"):
        return False
    if t[0] == "parsed":
        return has_pow(t[1])
    if t[0] == "call":
        return any(has_pow(a) for a in t[2])
    return t[0] == "**" or has_pow(t[1]) or has_pow(t[2])


def n_ops(t):
    if t[0] in ("in", "c", "name"):
        return 0
    if t[0] in ("fn", "ident"):
        return 1
    if t[0] == "parsed":
        return n_ops(t[1])
    if t[0] == "call":
        return 1 + sum(n_ops(a) for a in t[2])
    return 1 + n_ops(t[1]) + n_ops(t[2])


class RefRaises(Exception):
    pass


def ev(t, val, eps):
    """Reference value of descriptor t; `val(nid, eps)` gives the full array of an input."""
    k = t[0]
    if k == "c":
        return t[1]
    if k == "name":
        return PNAMES[t[1]]
    if k == "in":
        return val(t[1], eps)
    if k == "ident":
        return val(t[1], eps)
    if k == "fn":
        return FUNCS[t[1]][2](*[val(n, eps) for n in t[2]])
    if k == "parsed":
        return ev(t[1], val, eps)
    if k == "call":
        return CALLS[t[1]][1](*[ev(a, val, eps) for a in t[2]])
    a = ev(t[1], val, eps)
    b = ev(t[2], val, eps)
    try:
        if k == "**" and (isinstance(a, np.ndarray) or isinstance(b, np.ndarray)):
            # numpy evaluates x ** y through different loops depending on how the exponent is laid out: a Python
            # scalar or a stride-0 exponent equal to 0.5 / 2 / -1 is turned into sqrt / square / reciprocal, anything
            # else goes through pow().  sqrt and pow differ for -inf and -0.0 (sqrt(-inf) = nan, pow(-inf, .5) = inf).
            # Which loop glue's operands hit is numpy's business, not part of the property: the unperturbed
            # reference uses the general pow loop on dense arrays, the perturbed one the sqrt reading; elements on
            # which the two disagree are left out by compare().
            A, B = np.broadcast_arrays(np.asarray(a), np.asarray(b))
            A, B = np.array(A), np.array(B)
            r = np.power(A, B)
            if eps:
                half = B == 0.5
                if half.any():
                    r = np.where(half, np.sqrt(A.astype(float)), r)
        else:
            r = OPS[k](a, b)
    except (ValueError, ZeroDivisionError, OverflowError, TypeError) as e:
        raise RefRaises(exc_name(e))
    if k == "**" and eps:
        r = r * (1.0 + eps)
    return r


class Model:
    def __init__(self, shape):
        self.shape = shape
        self.nodes = {}
        self._cache = {}

    def add(self, node):
        self.nodes[node.nid] = node
        self._cache.clear()

    def val(self, nid, eps=0.0):
        key = (nid, eps)
        if key not in self._cache:
            n = self.nodes[nid]
            if n.desc is None:
                v = n.full
            else:
                with np.errstate(all="ignore"):
                    v = ev(n.desc, self.val, eps)
                v = np.asarray(v)
                if v.dtype.kind not in "biuf":
                    raise RefRaises("non-real reference (%s)" % v.dtype)
                v = np.broadcast_to(v, self.shape)
            self._cache[key] = v
        return self._cache[key]

    def cost(self, nid):
        """Number of elementary reads/ops glue needs to evaluate nid (derived inputs are recomputed every time)."""
        n = self.nodes[nid]
        if n.desc is None:
            return 1
        return n_ops(n.desc) + sum(self.cost(m) for m in leaves(n.desc))

    def closure(self, nid):
        out = {nid}
        changed = True
        while changed:
            changed = False
            for n in self.nodes.values():
                if n.desc is not None and n.nid not in out and set(leaves(n.desc)) & out:
                    out.add(n.nid)
                    changed = True
        return out

    def chain(self, nid, seen=None):
        """All derived nodes nid depends on, itself included."""
        seen = set() if seen is None else seen
        n = self.nodes[nid]
        if n.desc is None or nid in seen:
            return seen
        seen.add(nid)
        for m in leaves(n.desc):
            self.chain(m, seen)
        return seen

    def flags(self, nid):
        ch = [self.nodes[m].desc for m in self.chain(nid)]
        allin = {self.nodes[x].kind for d in ch for x in leaves(d)}
        return {"chain_has_function": any(d[0] in ("fn", "ident") for d in ch),
                "chain_has_parsed": any(d[0] == "parsed" for d in ch),
                "chain_has_const_only_parsed": any(d[0] == "parsed" and not leaves(d) for d in ch),
                "has_broadcast_input": bool(allin & {"pixel", "world"}),
                "has_stored_input": bool(allin & {"stored_float", "stored_int"}),
                "chain_has_binary_pow": any(d[0] in OPS and has_pow(d) for d in ch),
                "has_pow": any(has_pow(d) for d in ch)}


UNSTABLE = [0]    # elements left out because the reference itself is unstable (tallied per case)


def compare(got, r0, r1):
    """None when `got` equals the reference r0.  r1 is the second reference (every pow result perturbed by 1e-12
    relative, sqrt reading of x ** 0.5): the tolerance of an element is widened by its sensitivity |r1 - r0|, and an
    element on which r0 and r1 differ in kind (finite / nan / +inf / -inf) is left out."""
    got = np.asarray(got)
    r0 = np.asarray(r0)
    r1 = np.asarray(r1)
    if got.shape != r0.shape:
        return "shape"
    if got.size == 0:
        return None
    if got.dtype.kind not in "biuf" or r0.dtype.kind not in "biuf":
        return "dtype"
    if got.dtype.kind in "biu" and r0.dtype.kind in "biu" and r1.dtype.kind in "biu" and np.array_equal(r0, r1):
        return None if np.array_equal(got, r0) else "value"
    g = got.astype(float)
    a = r0.astype(float)
    b = r1.astype(float)
    with np.errstate(all="ignore"):
        fin = np.isfinite(a) & np.isfinite(b)
        same_nonfin = (np.isnan(a) & np.isnan(b)) | (np.isinf(a) & np.isinf(b) & (a == b))
        unstable = ~fin & ~same_nonfin
        tol = 1e-12 * np.abs(a) + 0.05 * np.abs(b - a)
        ok_fin = np.abs(g - a) <= tol
        ok_non = (np.isnan(g) & np.isnan(a)) | ((g == a) & ~np.isnan(a))
    UNSTABLE[0] += int(unstable.sum())
    bad = (fin & ~ok_fin) | (same_nonfin & ~ok_non)
    return "value" if bad.any() else None


# ---------------------------------------------------------------- building the glue side
def build_binary(t, model):
    if t[0] == "c":
        return t[1]
    if t[0] == "in":
        return model.nodes[t[1]].cid
    return OPS[t[0]](build_binary(t[1], model), build_binary(t[2], model))


def gen_tree(rng, depth, pool, top=True):
    if not top and (depth == 0 or rng.random() < 0.3):
        if rng.random() < 0.3:
            return ["c", rng.choice(CONSTS)]
        return ["in", rng.choice(pool)]
    op = rng.choice(["+", "-", "*", "/", "**", "-", "+"])
    left = gen_tree(rng, depth - 1, pool, False)
    right = gen_tree(rng, depth - 1, pool, False)
    if left[0] == "c" and right[0] == "c":
        if rng.random() < 0.5:
            left = ["in", rng.choice(pool)]
        else:
            right = ["in", rng.choice(pool)]
    return [op, left, right]


def gen_parsed(rng, depth, pool, top=True):
    r = rng.random()
    if not top and (depth == 0 or r < 0.3):
        q = rng.random()
        if q < 0.25:
            return ["c", rng.choice(CONSTS)]
        if q < 0.32:
            return ["name", rng.choice(sorted(PNAMES))]
        return ["in", rng.choice(pool)]
    if r > 0.8:
        name = rng.choice(sorted(CALLS))
        return ["call", name, [gen_parsed(rng, depth - 1, pool, False) for _ in range(CALLS[name][0])]]
    op = rng.choice(["+", "-", "*", "/", "**"])
    if op == "**":
        # the exponent is a leaf: a constant-only tower such as 3 ** (3 ** (3 ** 3)) is evaluated by Python itself
        # with unbounded integers and never returns
        right = ["c", rng.choice([2, 0.5, -1, 3, 2.0])] if rng.random() < 0.6 else ["in", rng.choice(pool)]
        return [op, gen_parsed(rng, depth - 1, pool, False), right]
    return [op, gen_parsed(rng, depth - 1, pool, False), gen_parsed(rng, depth - 1, pool, False)]


def gen_const_parsed(rng):
    # float-valued only: glue turns a scalar result into a float array, an integer constant would make the dtype
    # (sign of zero, integer power rules) of dependants ambiguous, which the statement does not fix
    return rng.choice([["c", 3.5], ["+", ["c", 2.0], ["c", 3]], ["name", "np.pi"], ["*", ["c", 2], ["name", "math.e"]],
                       ["call", "np.abs", [["c", -1.5]]], ["c", 7.25]])


def render(t, model, rng):
    k = t[0]
    if k == "c":
        return "(%r)" % (t[1],)
    if k == "name":
        return t[1]
    if k == "in":
        lab = model.nodes[t[1]].label
        return rng.choice(["{%s}", "{ %s }", "{%s }"]) % lab
    if k == "call":
        return "%s(%s)" % (t[1], ", ".join(render(a, model, rng) for a in t[2]))
    return "(%s %s %s)" % (render(t[1], model, rng), k, render(t[2], model, rng))


def add_derived(d, model, desc, label, rng, to_cid=None):
    """Create the link described by desc, add it to d under `label` (or under the existing ComponentID `to_cid`,
    which replaces that attribute's definition in place); returns the ComponentID."""
    k = desc[0]
    target = to_cid if to_cid is not None else ComponentID(label)
    if k == "fn":
        link = ComponentLink([model.nodes[n].cid for n in desc[2]], target, using=FUNCS[desc[1]][1])
        d.add_component_link(link)
    elif k == "ident":
        link = ComponentLink([model.nodes[desc[1]].cid], target)
        d.add_component_link(link)
    elif k == "parsed":
        refs = {model.nodes[n].label: model.nodes[n].cid for n in model.nodes if model.nodes[n].cid is not None}
        cmd = render(desc[1], model, rng)
        link = ParsedComponentLink(target, ParsedCommand(cmd, refs))
        d.add_component_link(link)
    else:
        link = build_binary(desc, model)
        d.add_component_link(link, to_cid if to_cid is not None else label)
    return link.get_to_id(), link


def view_flags(view, exp):
    altered = isinstance(view, np.ndarray) or (isinstance(view, tuple) and len(view) == 1 and isinstance(view[0], np.ndarray))
    everything = view is None or view is Ellipsis
    return {"view_altered_by_join": altered, "result_0d": np.ndim(exp) == 0, "view_selects_everything": everything,
            "empty_result": np.size(exp) == 0}


def read(d, cid, view, route):
    if route == "get_data":
        return d.get_data(cid, view)
    if route == "flat" and isinstance(view, tuple) and len(view) >= 2:
        return d[(cid,) + view]
    if view is None:
        return d[cid]
    return d[cid, view]


def vidx(view):
    return Ellipsis if view is None else view


def make_dataset(rng, tier, max_dim=3, max_len=4, coords_choices=(None, None, "identity", "diagonal", "coupled_symmetric",
                                                                  "full", "coupled_triangular")):
    nd = rng.randint(1, max_dim)
    shape = tuple(rng.randint(1, max_len) for _ in range(nd))
    ck = rng.choice(coords_choices)
    cobj = make_coords(rng, nd, ck)
    d = Data(label="d", **({"coords": cobj} if cobj is not None else {}))
    model = Model(shape)
    arrays = [("v", "stored_float", rand_floats(rng, shape, p_special=0.2)),
              ("w w", "stored_float", injective_floats(rng, shape)),
              ("i", "stored_int", rand_ints(rng, shape))]
    for label, kind, arr in arrays:
        cid = d.add_component(arr, label)
        model.add(Node(label, kind, label, cid, full=np.array(arr)))
    for ax, pc in enumerate(d.pixel_component_ids):
        full = np.broadcast_to(np.arange(shape[ax]).reshape([-1 if j == ax else 1 for j in range(nd)]), shape)
        model.add(Node("p%d" % ax, "pixel", pc.label, pc, full=np.array(full)))
    for ax, wc in enumerate(d.world_component_ids):
        model.add(Node("W%d" % ax, "world", wc.label, wc, full=np.array(d[wc])))   # glue's own dtype (identity coordinates give integers)
    return d, model, shape, ck


# ---------------------------------------------------------------- expr cases
def run_expr(ctx, case):
    rng = ctx.rng
    d, model, shape, ck = make_dataset(rng, ctx.tier)
    nd = len(shape)
    size = int(np.prod(shape))
    ctx.count("expr_datasets")
    # the harness' own pixel arrays are what glue serves
    for n in list(model.nodes.values()):
        if n.kind == "pixel" and not np.array_equal(np.asarray(d[n.cid]), n.full):
            ctx.violation({"kind": "pixel_input_unexpected"}, {"shape": list(shape)})
            return
    views = [(vk, make_view(rng, shape, vk)) for vk in VIEW_KINDS]
    views += [(vk, make_view(rng, shape, vk)) for vk in ("int_slice_mix", "slice_tuple_full")]
    input_ok = {}

    def inputs_consistent(nid, vi, view):
        """input[view] == input_full[view] for the world inputs below nid (pixel/stored are C04's business but cheap)."""
        ok = True
        for m in {x for c in model.chain(nid) for x in leaves(model.nodes[c].desc)}:
            node = model.nodes[m]
            if node.kind not in ("world", "pixel"):
                continue
            if (m, vi) not in input_ok:
                try:
                    got = d[node.cid] if view is None else d[node.cid, view]
                    input_ok[(m, vi)] = compare(got, node.full[vidx(view)], node.full[vidx(view)]) is None
                except Exception:
                    input_ok[(m, vi)] = False
            ok = ok and input_ok[(m, vi)]
        return ok

    n_derived = 8
    for j in range(n_derived):
        pool = [n for n in model.nodes if model.cost(n) <= 40]   # nested derived inputs are recomputed: keep it bounded
        if rng.random() < 0.85:
            # a constant-only parsed command is a known defect under every restricting view; do not let it contaminate
            # (and thereby mask) most later attributes
            pool = [n for n in pool if not (model.nodes[n].desc is not None and model.flags(n)["chain_has_const_only_parsed"])]
        r = rng.random()
        if r < 0.55:
            # bias towards mixing a broadcast input with a stored one
            if rng.random() < 0.5:
                bro = [n for n in pool if model.nodes[n].kind in ("pixel", "world")]
                sto = [n for n in pool if model.nodes[n].kind.startswith("stored")]
                pool2 = [rng.choice(bro), rng.choice(sto)] + rng.sample(pool, min(2, len(pool)))
            else:
                pool2 = pool
            desc = gen_tree(rng, rng.randint(1, 5), pool2)
            lk = "binary"
        elif r < 0.75:
            name = rng.choice(sorted(FUNCS) + ["ident"])
            if name == "ident":
                desc = ["ident", rng.choice(pool)]
            else:
                desc = ["fn", name, [rng.choice(pool) for _ in range(FUNCS[name][0])]]
            lk = "function"
        else:
            if rng.random() < 0.15:
                desc = ["parsed", gen_const_parsed(rng)]
            else:
                desc = ["parsed", gen_parsed(rng, rng.randint(1, 4), pool)]
            lk = "parsed"
        nid = "D%d" % j
        label = rng.choice(["der%d", "der %d x", "D_%d"]) % j
        try:
            cid, link = add_derived(d, model, desc, label, rng)
        except Exception as e:   # noqa
            ctx.violation({"kind": "derived_add_failed", "link_kind": lk, "how": "exception:" + exc_name(e)},
                          {"desc": desc, "shape": list(shape), "error": repr(e)[:300]})
            continue
        model.add(Node(nid, "derived", label, cid, desc=desc))
        ctx.count("derived_added:" + lk)
        try:
            r0full = model.val(nid, 0.0)
            r1full = model.val(nid, PERT)
        except RefRaises:
            ctx.count("reference_raises_out_of_domain")
            del model.nodes[nid]
            model._cache.clear()
            try:
                d.remove_component(cid)
            except Exception:
                pass
            continue
        fl = model.flags(nid)
        if fl["has_broadcast_input"] and fl["has_stored_input"]:
            ctx.count("derived_mixing_broadcast_and_stored_inputs")
        if lk == "binary" and (desc[1][0] == "c" or desc[2][0] == "c"):
            ctx.count("binary_root_with_constant_operand:" + ("left" if desc[1][0] == "c" else "right"))
        kinds_desc = [desc, {m: model.nodes[m].kind for m in leaves(desc)}]
        for vi, (vk, view) in enumerate(views):
            if not inputs_consistent(nid, vi, view):
                ctx.count("read_skipped_input_view_inconsistent(C04/C15)")
                continue
            exp0 = r0full[vidx(view)]
            exp1 = r1full[vidx(view)]
            route = rng.choice(["getitem", "getitem", "get_data", "flat", "link"])
            try:
                if route == "link" and lk == "binary":
                    got = d[link] if view is None else d[link, view]
                else:
                    got = read(d, cid, view, route)
                how = compare(got, exp0, exp1)
            except Exception as e:   # noqa
                got = repr(e)[:200]
                how = "exception:" + exc_name(e)
            ctx.evaluation([kinds_desc, list(shape), describe_view(view)], size > 1 and n_ops(desc) > 0)
            ctx.count("value_compared:" + lk)
            ctx.count("value_view:" + vk)
            if fl["has_pow"]:
                ctx.count("value_compared_with_pow_tolerance")
            if how:
                sig = {"kind": "derived_value_mismatch", "how": how, "link_kind": lk, "view_kind": vk}
                sig.update(fl)
                sig.update(view_flags(view, exp0))
                sig.pop("has_pow")
                sig.pop("has_stored_input")
                ctx.violation(sig, {"shape": list(shape), "coords": ck, "desc": desc, "view": describe_view(view),
                                    "route": route, "got": got, "expected": exp0,
                                    "chain": {m: model.nodes[m].desc for m in model.chain(nid)},
                                    "inputs": {m: model.nodes[m].full for m in model.nodes if model.nodes[m].desc is None}})
        if rng.random() < 0.003:
            ctx.sample({"shape": list(shape), "coords": ck, "desc": desc, "full": r0full})


# ---------------------------------------------------------------- history cases
def run_hist(ctx, case):
    rng = ctx.rng
    d, model, shape, ck = make_dataset(rng, ctx.tier, max_dim=2, max_len=3,
                                       coords_choices=(None, None, "identity", "diagonal"))
    in_dc = rng.random() < 0.3
    if in_dc:
        dc = DataCollection([d])   # noqa: F841  (keeps the hub alive)
        ctx.count("histories_in_data_collection")
    ctx.count("histories")
    order = [c.label for c in d.components]          # labels, in glue's own initial order
    by_label = {n.label: n.nid for n in model.nodes.values()}
    order = [by_label[lab] for lab in order]
    nsteps = rng.randint(5, 14)
    counter = 0
    hist = []

    def fail(kind, extra, detail):
        sig = {"kind": kind, "in_data_collection": in_dc}
        sig.update(extra)
        det = {"shape": list(shape), "history": hist, "order_model": [model.nodes[n].label for n in order]}
        det.update(detail)
        ctx.violation(sig, det)

    def check_state(step_kind, nontrivial, extra_sig=None):
        """Order of components, derived set, values of every live derived attribute."""
        got = [c.label for c in d.components]
        exp = [model.nodes[n].label for n in order]
        ctx.evaluation([list(shape), hist], nontrivial)
        ctx.count("component_list_compared")
        if got != exp:
            missing = [x for x in exp if x not in got]
            extra = [x for x in got if x not in exp]
            kind = "dependant_survived_removal" if extra and step_kind == "remove" else \
                   "non_dependant_vanished" if missing else "order_changed" if not extra else "unexpected_component"
            sg = {"after": step_kind}
            sg.update(extra_sig or {})
            fail(kind, sg, {"got": got, "expected": exp})
            return False
        gd = [c.label for c in d.derived_components]
        ed = [model.nodes[n].label for n in order if model.nodes[n].desc is not None]
        if gd != ed:
            fail("derived_list_mismatch", {"after": step_kind}, {"got": gd, "expected": ed})
            return False
        ok = True
        for n in order:
            node = model.nodes[n]
            if node.kind == "world":
                continue
            try:
                r0, r1 = model.val(n, 0.0), model.val(n, PERT)
            except RefRaises:
                continue
            view = None if rng.random() < 0.5 else make_view(rng, shape, rng.choice(["slice_tuple_full", "int_slice_mix",
                                                                                    "all_int", "slice_tuple_short"]))
            try:
                g = d[node.cid] if view is None else d[node.cid, view]
                how = compare(g, r0[vidx(view)], r1[vidx(view)])
            except Exception as e:   # noqa
                how = "exception:" + exc_name(e)
                g = repr(e)[:200]
            ctx.evaluation()
            ctx.count("history_value_compared")
            if how:
                fl = model.flags(n) if node.desc is not None else {}
                sig = {"after": step_kind, "how": how, "attr_kind": node.kind, "result_0d": np.ndim(r0[vidx(view)]) == 0,
                       "chain_has_parsed": fl.get("chain_has_parsed", False),
                       "chain_has_const_only_parsed": fl.get("chain_has_const_only_parsed", False),
                       "view_selects_everything": view is None}
                fail("value_changed_in_history", sig, {"attr": node.label, "view": describe_view(view), "got": g,
                                                       "expected": r0[vidx(view)]})
        # a wrong read does not change the state: the history goes on (only structural mismatches end it)
        return ok

    after_shuffle = False
    for step in range(nsteps):
        live = [n for n in order if model.nodes[n].kind != "world"]
        removable = [n for n in order if model.nodes[n].kind in ("stored_float", "stored_int", "derived")]
        r = rng.random()
        if after_shuffle and rng.random() < 0.5 and len(removable) >= 2:
            r = 0.7          # a removal right after the storage order / a definition changed
        after_shuffle = False
        der = [n for n in live if model.nodes[n].desc is not None]
        if 0.40 <= r < 0.50 and len(order) > 2:
            # ---- reorder the components: a derived attribute may now be stored ahead of its inputs
            perm = list(order)
            q = rng.random()
            if q < 0.35:
                perm.reverse()
            elif q < 0.6 and der:
                # dependants first, in reverse order of creation, then everything else
                dd = [n for n in reversed(order) if model.nodes[n].desc is not None]
                perm = dd + [n for n in order if model.nodes[n].desc is None]
            else:
                rng.shuffle(perm)
            hist.append(["reorder", [model.nodes[n].label for n in perm]])
            try:
                d.reorder_components([model.nodes[n].cid for n in perm])
            except Exception as e:   # noqa
                fail("reorder_failed", {"how": "exception:" + exc_name(e)}, {"error": repr(e)[:300]})
                return
            order[:] = perm
            ctx.count("hist_reorder")
            if not check_state("reorder", False):
                return
            after_shuffle = True
            continue
        if 0.32 <= r < 0.40 and der:
            # ---- re-define an existing derived attribute under its own ComponentID (stays where it is stored),
            # preferably in terms of a derived attribute stored *after* it
            cands = [n for n in der if not model.nodes[n].renamed_with_dependants]
            target = rng.choice(cands) if cands else None
            pool = [n for n in live if target is not None and n not in model.closure(target) and model.cost(n) <= 30]
            if target is None or not pool:
                ctx.count("hist_redefine_not_possible")
                continue
            later = [n for n in pool if model.nodes[n].desc is not None and order.index(n) > order.index(target)]
            ins = [rng.choice(later) if later and rng.random() < 0.7 else rng.choice(pool) for _ in range(rng.randint(1, 2))]
            t = ["in", ins[0]]
            for x in ins[1:]:
                t = [rng.choice(["+", "-", "*"]), t, ["in", x]]
            kind = rng.random()
            if kind < 0.6:
                desc = [rng.choice(["*", "+"]), t, ["c", rng.choice([2, 0.5, 3])]]
            elif kind < 0.8:
                desc = ["fn", "lin1" if len(ins) == 1 else "mul2", ins]
            else:
                desc = ["parsed", ["*", t, ["c", 2]]]
            node = model.nodes[target]
            hist.append(["redefine", node.label, desc])
            try:
                add_derived(d, model, desc, node.label, rng, to_cid=node.cid)
            except Exception as e:   # noqa
                fail("derived_add_failed", {"how": "exception:" + exc_name(e), "redefine": True}, {"error": repr(e)[:300]})
                return
            node.desc = desc
            model._cache.clear()
            ctx.count("hist_redefine")
            if any(model.nodes[x].desc is not None and order.index(x) > order.index(target) for x in ins):
                ctx.count("hist_redefine_on_later_stored_derived")
            if not check_state("redefine", False):
                return
            after_shuffle = True
            continue
        if r < 0.5 or len(removable) < 2:
            # ---- add a derived attribute (chains and diamonds arise because inputs favour derived ones)
            k = rng.randint(1, 3)
            cheap = [n for n in live if model.cost(n) <= 60] or live
            cheap_der = [n for n in der if model.cost(n) <= 60]
            ins = [rng.choice(cheap_der) if cheap_der and rng.random() < 0.6 else rng.choice(cheap) for _ in range(k)]
            q = rng.random()
            if q < 0.6:
                t = ["in", ins[0]]
                for x in ins[1:]:
                    t = [rng.choice(["+", "-", "*"]), t, ["in", x]] if rng.random() < 0.7 else \
                        [rng.choice(["+", "-", "*"]), ["in", x], t]
                if len(ins) == 1:
                    t = [rng.choice(["*", "+", "-", "/"]), t, ["c", rng.choice([2, 0.5, 3])]] if rng.random() < 0.5 else \
                        [rng.choice(["*", "+", "-"]), ["c", rng.choice([2, 0.5, 3])], t]
                desc = t
            elif q < 0.8:
                name = {1: "lin1", 2: rng.choice(["mul2", "ravel2", "max2"]), 3: "where3"}[k]
                desc = ["fn", name, ins]
            else:
                t = ["in", ins[0]]
                for x in ins[1:]:
                    t = [rng.choice(["+", "-", "*"]), t, ["in", x]]
                desc = ["parsed", ["*", t, ["c", 2]] if rng.random() < 0.5 else ["call", "np.abs", [t]]]
            counter += 1
            nid = "D%d" % counter
            label = "d%d" % counter
            hist.append(["add", label, desc])
            try:
                cid, _ = add_derived(d, model, desc, label, rng)
            except Exception as e:   # noqa
                fail("derived_add_failed", {"how": "exception:" + exc_name(e)}, {"error": repr(e)[:300]})
                return
            model.add(Node(nid, "derived", label, cid, desc=desc))
            order.append(nid)
            ctx.count("hist_add")
            if not check_state("add", False):
                return
        elif r < 0.58:
            counter += 1
            label = "s%d" % counter
            arr = rand_floats(rng, shape, p_special=0.1)
            hist.append(["add_stored", label])
            cid = d.add_component(arr, label)
            model.add(Node(label, "stored_float", label, cid, full=np.array(arr)))
            order.append(label)
            if not check_state("add_stored", False):
                return
        elif r < 0.82:
            # ---- remove
            victim = rng.choice(removable)
            gone = model.closure(victim)
            direct = {n.nid for n in model.nodes.values() if n.desc is not None and victim in leaves(n.desc)}
            transitive = len(gone - direct - {victim}) > 0
            crosses = any(model.nodes[n].renamed_with_dependants for n in gone)
            # is some attribute of the closure stored ahead of a member of the closure it depends on?
            pos = {n: i for i, n in enumerate(order)}
            out_of_order = any(pos[m] > pos[n] for n in gone if model.nodes[n].desc is not None
                               for m in leaves(model.nodes[n].desc) if m in gone)
            hist.append(["remove", model.nodes[victim].label])
            try:
                d.remove_component(model.nodes[victim].cid)
            except Exception as e:   # noqa
                fail("remove_failed", {"how": "exception:" + exc_name(e)}, {"error": repr(e)[:300]})
                return
            order[:] = [n for n in order if n not in gone]
            for n in gone:
                del model.nodes[n]
            model._cache.clear()
            ctx.count("hist_remove")
            if len(gone) > 1:
                ctx.count("hist_remove_with_dependants")
            if transitive:
                ctx.count("hist_remove_with_transitive_dependants")
            if len(gone) > 1 and len([n for n in order if model.nodes[n].desc is not None]) > 0:
                ctx.count("hist_remove_with_dependants_and_surviving_derived")
            if out_of_order:
                ctx.count("hist_remove_with_dependant_stored_before_its_input")
            if not check_state("remove", len(gone) > 1, {"removal_closure_crosses_renamed_attribute": crosses,
                                                          "dependant_stored_before_its_input": out_of_order}):
                return
        else:
            # ---- update_id
            cand = removable
            nodep = [n for n in cand if len(model.closure(n)) == 1]
            if nodep and rng.random() < 0.6:
                target = rng.choice(nodep)
            else:
                target = rng.choice(cand)
            has_dep = len(model.closure(target)) > 1
            node = model.nodes[target]
            counter += 1
            newlabel = node.label + "_r%d" % counter
            new = ComponentID(newlabel, parent=d if rng.random() < 0.5 else None)
            hist.append(["update_id", node.label, newlabel])
            try:
                d.update_id(node.cid, new)
            except Exception as e:   # noqa
                fail("update_id_failed", {"how": "exception:" + exc_name(e)}, {"error": repr(e)[:300]})
                return
            renamed_kind = node.kind
            node.renamed_with_dependants = node.renamed_with_dependants or has_dep
            node.cid = new
            node.label = newlabel
            ctx.count("hist_update_id")
            ctx.count("hist_update_id_" + ("with_dependants" if has_dep else "without_dependants"))
            # order and the renamed attribute itself
            got = [c.label for c in d.components]
            exp = [model.nodes[n].label for n in order]
            ctx.evaluation([list(shape), hist], has_dep)
            ctx.count("component_list_compared")
            if got != exp:
                fail("order_changed", {"after": "update_id", "renamed_kind": renamed_kind}, {"got": got, "expected": exp})
                return
            broken = False
            for n in order:
                nn = model.nodes[n]
                if nn.kind == "world":
                    continue
                try:
                    r0, r1 = model.val(n, 0.0), model.val(n, PERT)
                except RefRaises:
                    continue
                is_dependant = n != target and n in model.closure(target)
                try:
                    how = compare(d[nn.cid], r0, r1)
                except Exception as e:   # noqa
                    how = "exception:" + exc_name(e)
                ctx.evaluation()
                ctx.count("history_value_compared")
                if is_dependant:
                    ctx.count("dependant_read_after_update_id")
                if how:
                    broken = True
                    fail("value_changed_by_update_id", {"how": how, "renamed_kind": renamed_kind,
                                                        "attr_is_dependant_of_renamed": is_dependant,
                                                        "attr_is_renamed": n == target,
                                                        "dependant_link_kind": {"fn": "function", "ident": "function",
                                                                                "parsed": "parsed"}.get(nn.desc[0], "binary")
                                                        if nn.desc is not None else None},
                         {"attr": nn.label})
            if broken:
                ctx.count("history_ended_after_update_id_broke_dependants")
                return
    ctx.count("histories_completed")


def run_case(ctx, case):
    UNSTABLE[0] = 0
    if case[0] == "expr":
        run_expr(ctx, case)
    else:
        run_hist(ctx, case)
    if UNSTABLE[0]:
        ctx.count("elements_left_out_reference_unstable_under_pow_perturbation", UNSTABLE[0])


def floors(counters, tier):
    out = []
    need = {"derived_mixing_broadcast_and_stored_inputs": 300, "hist_remove_with_transitive_dependants": 30,
            "hist_remove_with_dependants_and_surviving_derived": 30, "hist_update_id_without_dependants": 40,
            "hist_update_id_with_dependants": 30, "value_compared:binary": 5000, "value_compared:function": 1500,
            "value_compared:parsed": 1500, "component_list_compared": 1500, "history_value_compared": 5000,
            "binary_root_with_constant_operand:left": 30, "binary_root_with_constant_operand:right": 30,
            "histories_in_data_collection": 50, "hist_reorder": 100, "hist_redefine_on_later_stored_derived": 10,
            "hist_remove_with_dependant_stored_before_its_input": 20}
    for k, lo in need.items():
        if counters.get(k, 0) < lo:
            out.append("fewer than %d %s" % (lo, k))
    for vk in VIEW_KINDS:
        if counters.get("value_view:" + vk, 0) < 500:
            out.append("fewer than 500 derived reads with view kind %s" % vk)
    return out
