"""C11 - key joins propagate selections by key equality (1-1, n-n, 1-n, n-1; chains; cycles).

Shape: input-space sweep with short query histories.  A *join graph* (2-4
generated tables, a tree or a graph with a cycle, every edge with its own key
columns, shape and storage-dtype pairing) is built on real `Data` objects with
`Data.join_on_key` (or `JoinLink` through a `DataCollection`).  A shuffled list
of queries (selection defined on one table or on an unrelated table, asked of
every other table, with and without a view, interleaved compatible and
incompatible, optionally followed by removal of a JoinLink and more queries) is
answered by the real `Data.get_mask`.  The oracle propagates the selected row
set hop by hop along the simple path(s) of the join graph with Python sets of
value-normalised key tuples.
"""
import itertools

import numpy as np

from glue.core import Data, DataCollection
from glue.core.exceptions import IncompatibleAttribute
from glue.core.link_helpers import JoinLink
from glue.core.subset import ElementSubsetState, MaskSubsetState

from vf.ctx import stable_hash
from vf.common import VIEW_KINDS, make_view, describe_view, apply_view, same_array

ID = "C11"
LEVEL = "exploration"
BUDGET_S = {"quick": 35.0, "thorough": 420.0}
RULE = ("cases are join graphs over 2-4 generated tables (1-d, some 2-d; 1-8 elements) - trees (pairs, chains, stars), "
        "graphs with one cycle, two separately joined components - where every edge draws a shape (1-1, n-n with 2-3 "
        "columns, 1-n, n-1), a storage-dtype pairing (same dtype among int64/int32/float64/float32/str; int vs float; "
        "int32 vs int64; float32 vs float64; unequal string widths; -0.0 vs 0.0), the registering side and the "
        "registration route (join_on_key with names or ComponentIDs, JoinLink). Each graph gets a shuffled history of "
        "queries: selection kinds (threshold, range, or, empty, all, key equality) on each table or on an unrelated "
        "table, asked of every table without a view and of some with a view of every supported kind; some graphs then "
        "lose a JoinLink and are queried again. An evaluation is one get_mask outcome compared with the oracle; it is "
        "non-trivial when the expected full mask has selected and unselected rows, or when IncompatibleAttribute is "
        "expected on a graph of >= 3 tables; distinct = distinct (graph descriptor, query) fingerprints.")
ASSUMPTIONS = ["'equals by value' is Python equality of the stored numbers/strings (1 == 1.0, -0.0 == 0.0, float32 values "
               "that are exactly representable); NaN keys, empty strings and mixed string/number key pairs are not generated",
               "on a join graph with a cycle and an evaluable table the statement does not say which path is used: the "
               "result of propagation along any simple path is accepted",
               "a table whose nearest neighbour on the path already deviates is not reported again: each query is "
               "attributed to the first hop whose output is not the hop function of its observed input",
               "the selection on the source table itself (Data.get_mask without joins) is C01/C04's business; if it "
               "deviates from numpy the query is skipped and tallied"]
ANCHORS = ["glue.core.joins:get_mask_with_key_joins", "glue.core.joins:concatenate_arrays", "glue.core.data:Data.join_on_key",
           "glue.core.data:Data.get_mask", "glue.core.link_manager:LinkManager.add_link",
           "glue.core.link_manager:LinkManager.remove_link"]

SHAPES = ["1-1", "n-n", "1-n", "n-1"]
INT_POOL = [-1, 0, 1, 2, 3, 4]
FLOAT_POOL = [-1.0, 0.0, 0.5, 1.0, 2.0, 3.0, 4.0]
STR_POOL = ["a", "b", "cc", "dd", "eee"]
BIG_INT_POOL = list(range(-2, 9))
BIG_FLOAT_POOL = [-1.0, -0.5, 0.0, 0.5, 1.0, 1.5, 2.0, 2.5, 3.0, 4.0, 5.0]
BIG_STR_POOL = ["a", "b", "cc", "dd", "eee", "f", "gg", "hhh", "ab", "ba"]
SAME_DTYPES = ["int64", "int64", "float64", "str", "int32", "float32"]
PAIRINGS = ["same", "same", "same", "int_vs_float", "int_width", "float_width", "str_width", "neg_zero"]


class DepthExceeded(BaseException):
    """Raised by the recursion-depth monitor (logical bound: a key-join lookup never needs to be nested deeper than
    the number of tables in the graph)."""


class _Monitor:
    depth = 0
    limit = 0
    max_seen = 0
    installed = False


def setup(ctx):
    import glue.core.data as gdata
    orig = gdata.get_mask_with_key_joins

    def monitored(data, key_joins, subset_state, view=None):
        _Monitor.depth += 1
        _Monitor.max_seen = max(_Monitor.max_seen, _Monitor.depth)
        try:
            if _Monitor.limit and _Monitor.depth > _Monitor.limit:
                raise DepthExceeded()
            return orig(data, key_joins, subset_state, view=view)
        finally:
            _Monitor.depth -= 1
    gdata.get_mask_with_key_joins = monitored
    _Monitor.installed = True


# ---------------------------------------------------------------- generation (descriptors are plain data)
def gen_column(rng, n, kind, width=None, negzero=None, pool_size=None):
    """kind in int64/int32/float64/float32/str -> {"dtype":..., "values":[...]} (flat list of n values).
    pool_size: draw from the first pool_size values of the big pools (large tables, controls duplication)."""
    ipool, fpool, spool = INT_POOL, FLOAT_POOL, STR_POOL
    if pool_size is not None:
        ipool, fpool, spool = BIG_INT_POOL[:pool_size + 1], BIG_FLOAT_POOL[:pool_size + 1], BIG_STR_POOL[:pool_size]
    if kind.startswith("int"):
        vals = [rng.choice(ipool) for _ in range(n)]
        return {"dtype": kind, "values": vals}
    if kind.startswith("float"):
        vals = [rng.choice(fpool) for _ in range(n)]
        if negzero == "neg":
            vals = [(-0.0 if v == 0.0 else v) for v in vals]
            if n and not any(v == 0.0 for v in vals):
                vals[rng.randrange(n)] = -0.0
        elif negzero == "pos":
            if n and not any(v == 0.0 for v in vals):
                vals[rng.randrange(n)] = 0.0
        return {"dtype": kind, "values": vals}
    if kind == "str":
        vals = [rng.choice(spool) for _ in range(n)]
        w = 3 if width is None else max(3, width)
        return {"dtype": "<U%d" % w, "values": vals}
    raise ValueError(kind)


def column_array(col, shape):
    dt = col["dtype"]
    return np.array(col["values"], dtype=dt).reshape(shape)


def pair_class(ca, cb):
    da, db = np.dtype(ca["dtype"]), np.dtype(cb["dtype"])
    if da == db:
        if da.kind == "f":
            def signs(vals):
                return {("neg" if np.signbit(v) else "pos") for v in vals if v == 0.0}
            sa, sb = signs(ca["values"]), signs(cb["values"])
            if ("neg" in sa and "pos" in sb) or ("pos" in sa and "neg" in sb):
                return "neg_zero"
        return "same"
    kinds = {da.kind, db.kind}
    if kinds == {"i", "f"}:
        return "int_vs_float"
    if kinds == {"i"}:
        return "int_width"
    if kinds == {"f"}:
        return "float_width"
    if kinds == {"U"}:
        return "str_width"
    return "other"


def gen_edge_columns(rng, na, nb, shape, pairing, pool_size=None):
    """Key columns for an edge between tables with na / nb elements.  Returns (cols_a, cols_b) lists of column
    descriptors (len 1 or k according to the shape)."""
    if shape == "1-1":
        ka, kb = 1, 1
    elif shape == "n-n":
        ka = kb = rng.choice([2, 2, 3])
    elif shape == "1-n":
        ka, kb = 1, rng.choice([2, 3])
    else:
        ka, kb = rng.choice([2, 3]), 1
    kmax = max(ka, kb)
    # the odd pairing (X on side a, Y on side b) is applied to >= 1 position; every other position pairs equal dtypes
    odd = set(rng.sample(range(kmax), rng.randint(1, kmax))) if pairing != "same" else set()
    kwx, kwy = {}, {}
    if pairing == "same":
        x = y = rng.choice(SAME_DTYPES)
    elif pairing == "int_vs_float":
        x, y = rng.choice(["int64", "int32"]), rng.choice(["float64", "float64", "float32"])
    elif pairing == "int_width":
        x, y = "int32", "int64"
    elif pairing == "float_width":
        x, y = "float32", "float64"
    elif pairing == "str_width":
        x, y, kwy = "str", "str", {"width": rng.choice([4, 6])}
    elif pairing == "neg_zero":
        x = y = rng.choice(["float64", "float64", "float32"])
        kwx, kwy = {"negzero": "neg"}, {"negzero": "pos"}
    else:
        raise ValueError(pairing)
    if rng.random() < 0.5:
        x, y, kwx, kwy = y, x, kwy, kwx
    cols_a, cols_b = [], []
    for i in range(kmax):
        if ka == kb:
            if i in odd:
                cols_a.append(gen_column(rng, na, x, pool_size=pool_size, **kwx))
                cols_b.append(gen_column(rng, nb, y, pool_size=pool_size, **kwy))
            else:
                z = rng.choice(SAME_DTYPES)
                cols_a.append(gen_column(rng, na, z, pool_size=pool_size))
                cols_b.append(gen_column(rng, nb, z, pool_size=pool_size))
        elif ka == 1:
            # single column (dtype x) on side a; side b: y on the odd positions, x elsewhere
            if i == 0:
                cols_a.append(gen_column(rng, na, x, pool_size=pool_size, **kwx))
            cols_b.append(gen_column(rng, nb, y, pool_size=pool_size, **kwy) if i in odd else gen_column(rng, nb, x, pool_size=pool_size, **kwx))
        else:
            if i == 0:
                cols_b.append(gen_column(rng, nb, y, pool_size=pool_size, **kwy))
            cols_a.append(gen_column(rng, na, x, pool_size=pool_size, **kwx) if i in odd else gen_column(rng, na, y, pool_size=pool_size, **kwy))
    return cols_a, cols_b


def edge_class(cols_a, cols_b):
    if len(cols_a) == len(cols_b):
        pairs = list(zip(cols_a, cols_b))
    elif len(cols_a) == 1:
        pairs = [(cols_a[0], b) for b in cols_b]
    else:
        pairs = [(a, cols_b[0]) for a in cols_a]
    cl = sorted({pair_class(a, b) for a, b in pairs} - {"same"})
    return "+".join(cl) if cl else "same"


TOPOLOGIES = ["pair", "pair", "pair", "chain", "chain", "star", "cycle", "two_components"]


def gen_graph(rng, tier, large=False):
    """large=True: 60-300 rows per table, key tuples heavily duplicated (beyond numpy's small-array paths)."""
    topo = rng.choice(TOPOLOGIES) if not large else rng.choice(["pair", "pair", "chain"])
    if topo == "pair":
        nt = 2
        edges = [(0, 1)]
    elif topo == "chain":
        nt = rng.choice([3, 3, 4]) if not large else 3
        order = list(range(nt))
        rng.shuffle(order)
        edges = [(order[i], order[i + 1]) for i in range(nt - 1)]
    elif topo == "star":
        nt = rng.choice([3, 4])
        c = rng.randrange(nt)
        edges = [(c, j) for j in range(nt) if j != c]
        rng.shuffle(edges)
    elif topo == "cycle":
        nt = rng.choice([3, 3, 4])
        order = list(range(nt))
        rng.shuffle(order)
        k = rng.choice([3, nt])
        cyc = order[:k]
        edges = [(cyc[i], cyc[(i + 1) % k]) for i in range(k)]
        for extra in order[k:]:
            edges.append((rng.choice(cyc), extra))
        rng.shuffle(edges)
    else:
        nt = 4
        edges = [(0, 1), (2, 3)]
    max_len = 8 if tier == "quick" else 10
    tables = []
    for t in range(nt):
        if large:
            shape = [rng.randint(60, 300)]
        elif rng.random() < 0.15:
            shape = [rng.randint(1, 3), rng.randint(1, 3)]
        else:
            shape = [rng.randint(1, max_len)]
        n = int(np.prod(shape))
        perm = list(range(n))
        rng.shuffle(perm)
        tables.append({"shape": shape, "v": [float(p) for p in perm], "cols": {}})
    edescs = []
    for ei, (a, b) in enumerate(edges):
        if rng.random() < 0.5:
            a, b = b, a
        shape = rng.choice(SHAPES) if not large else rng.choice(["n-n", "n-n", "n-n", "1-1", "1-n", "n-1"])
        pairing = rng.choice(PAIRINGS)
        if topo == "cycle":
            pairing = "same"
        na, nb = len(tables[a]["v"]), len(tables[b]["v"])
        cols_a, cols_b = gen_edge_columns(rng, na, nb, shape, pairing, pool_size=rng.choice([3, 5, 9]) if large else None)
        names_a, names_b = [], []
        for i, c in enumerate(cols_a):
            name = "k%d_%d" % (ei, i)
            tables[a]["cols"][name] = c
            names_a.append(name)
        for i, c in enumerate(cols_b):
            name = "k%d_%d" % (ei, i)
            tables[b]["cols"][name] = c
            names_b.append(name)
        via = "join_on_key"
        if shape == "1-1" and rng.random() < 0.35:
            via = "JoinLink"
        edescs.append({"a": a, "b": b, "cols_a": names_a, "cols_b": names_b, "shape": shape,
                       "dtype_pair": edge_class(cols_a, cols_b), "via": via,
                       "caller": rng.choice(["a", "b"]), "ids": rng.choice(["names", "cids"]),
                       "single_as_scalar": rng.random() < 0.5})
    return {"topology": topo, "tables": tables, "edges": edescs, "large": large, "in_collection": rng.random() < 0.5 or
            any(e["via"] == "JoinLink" for e in edescs)}


def gen_selection(rng, table, large=False):
    n = len(table["v"])
    if large:
        # v is a permutation of 0..n-1: "v > n-k-0.5" selects exactly k rows
        k = rng.choice([1, n, rng.randint(20, min(100, n)), rng.randint(20, min(100, n)), rng.randint(20, min(100, n)),
                        rng.randint(2, 19), rng.randint(min(100, n), n)])
        return {"op": "gt", "thr": n - k - 0.5}
    r = rng.random()
    if r < 0.4:
        return {"op": "gt", "thr": rng.randrange(-1, n) + 0.5}
    if r < 0.55:
        lo = rng.randrange(0, n) - 0.5
        return {"op": "range", "lo": lo, "hi": lo + rng.randint(1, max(1, n // 2))}
    if r < 0.7:
        return {"op": "or", "lt": rng.randrange(0, n) - 0.5, "gt": rng.randrange(0, n) + 0.5}
    if r < 0.8:
        return {"op": "empty"}
    if r < 0.87:
        return {"op": "all"}
    numeric = [k for k, c in sorted(table["cols"].items()) if not c["dtype"].startswith("<U")]
    if numeric:
        k = rng.choice(numeric)
        return {"op": "key_eq", "col": k, "value": rng.choice(table["cols"][k]["values"])}
    return {"op": "gt", "thr": rng.randrange(-1, n) + 0.5}


# ---------------------------------------------------------------- oracle
def norm(x):
    """value-normalised key element: Python number (1 == 1.0, -0.0 == 0.0, equal hashes) or str."""
    if isinstance(x, str):
        return ("s", x)
    return ("n", x)   # python int/float compare and hash by value


def select_rows(table, sel):
    v = np.array(table["v"])
    op = sel["op"]
    if op == "gt":
        return v > sel["thr"]
    if op == "range":
        return (v > sel["lo"]) & (v < sel["hi"])
    if op == "or":
        return (v < sel["lt"]) | (v > sel["gt"])
    if op == "empty":
        return np.zeros(len(v), dtype=bool)
    if op == "all":
        return np.ones(len(v), dtype=bool)
    if op == "key_eq":
        return np.array([x == sel["value"] for x in table["cols"][sel["col"]]["values"]], dtype=bool)
    raise ValueError(op)


def hop(left_table, left_cols, right_table, right_cols, right_mask):
    """Rows of `left` whose key equals, by value, a key of some selected row of `right` (flat bool list)."""
    L = [[norm(x) for x in left_table["cols"][c]["values"]] for c in left_cols]
    R = [[norm(x) for x in right_table["cols"][c]["values"]] for c in right_cols]
    nl = len(left_table["v"])
    sel = [j for j, m in enumerate(right_mask) if m]
    if len(L) == len(R):          # 1-1 and n-n: tuple equality
        keys = {tuple(col[j] for col in R) for j in sel}
        out = [tuple(col[i] for col in L) in keys for i in range(nl)]
    elif len(L) == 1:             # any of several values on the other side
        keys = {col[j] for col in R for j in sel}
        out = [L[0][i] in keys for i in range(nl)]
    else:                         # any of this row's several keys
        keys = {R[0][j] for j in sel}
        out = [any(col[i] in keys for col in L) for i in range(nl)]
    return np.array(out, dtype=bool)


def adjacency(desc, live_edges):
    adj = {}
    for ei in live_edges:
        e = desc["edges"][ei]
        adj.setdefault(e["a"], []).append((e["b"], ei))
        adj.setdefault(e["b"], []).append((e["a"], ei))
    return adj


def simple_paths(adj, src, dst):
    """All simple paths dst -> ... -> src as lists of (node, edge-to-next)."""
    out = []

    def rec(node, seen, path):
        if node == src:
            out.append(list(path))
            return
        for nxt, ei in adj.get(node, []):
            if nxt not in seen:
                path.append((node, nxt, ei))
                rec(nxt, seen | {nxt}, path)
                path.pop()
    rec(dst, {dst}, [])
    return out


def edge_sides(desc, ei, left, right):
    e = desc["edges"][ei]
    if e["a"] == left and e["b"] == right:
        return e["cols_a"], e["cols_b"]
    return e["cols_b"], e["cols_a"]


def edge_shape_from(desc, ei, left):
    """The join shape as seen from the receiving (left) table."""
    e = desc["edges"][ei]
    cl, cr = edge_sides(desc, ei, left, e["b"] if e["a"] == left else e["a"])
    if len(cl) == len(cr):
        return "1-1" if len(cl) == 1 else "n-n"
    return "1-n" if len(cl) == 1 else "n-1"


def propagate(desc, path, src_mask):
    """Expected flat mask at the head of `path` (list of (node, next, edge) ending at the source)."""
    mask = src_mask
    for node, nxt, ei in reversed(path):
        cl, cr = edge_sides(desc, ei, node, nxt)
        mask = hop(desc["tables"][node], cl, desc["tables"][nxt], cr, mask)
    return mask


# ---------------------------------------------------------------- real objects
class Built:
    def __init__(self, desc):
        self.desc = desc
        self.desc_hash = stable_hash(desc, 16)
        self.datas = []
        for t, tab in enumerate(desc["tables"]):
            d = Data(label="t%d" % t)
            shape = tuple(tab["shape"])
            d.add_component(np.array(tab["v"], dtype=float).reshape(shape), "v")
            for name, col in tab["cols"].items():
                d.add_component(column_array(col, shape), name)
            self.datas.append(d)
            nel = int(np.prod(shape))
            d.add_component(np.array(["x", "yy"] * ((nel + 1) // 2))[:nel].reshape(shape), "sv")   # only used by fault queries
        self.faults_so_far = 0
        self.foreign = Data(label="foreign", z=np.array([1.0, 2.0, 3.0]))
        self.dc = DataCollection(list(self.datas) + [self.foreign]) if desc["in_collection"] else None
        self.joinlinks = {}
        for ei, e in enumerate(desc["edges"]):
            A, B = self.datas[e["a"]], self.datas[e["b"]]
            if e["via"] == "JoinLink":
                if e["caller"] == "a":
                    jl = JoinLink(cids1=[A.id[e["cols_a"][0]]], cids2=[B.id[e["cols_b"][0]]], data1=A, data2=B)
                else:
                    jl = JoinLink(cids1=[B.id[e["cols_b"][0]]], cids2=[A.id[e["cols_a"][0]]], data1=B, data2=A)
                self.dc.add_link(jl)
                self.joinlinks[ei] = jl
                continue

            def ids(d, names):
                if e["ids"] == "cids":
                    out = tuple(d.id[n] for n in names)
                else:
                    out = tuple(names)
                return out[0] if len(out) == 1 and e["single_as_scalar"] else out
            if e["caller"] == "a":
                A.join_on_key(B, ids(A, e["cols_a"]), ids(B, e["cols_b"]))
            else:
                B.join_on_key(A, ids(B, e["cols_b"]), ids(A, e["cols_a"]))

    def state(self, src, sel):
        if src == "foreign":
            return self.foreign.id["z"] > 1.5
        d = self.datas[src]
        if sel["op"] == "fault":
            n = d.size
            if sel["fault"] == "str_gt_number":
                return d.id["sv"] > 3
            if sel["fault"] == "element_out_of_range":
                return ElementSubsetState(indices=[n + 5, n + 9], data=d)
            if sel["fault"] == "mask_wrong_shape":
                return MaskSubsetState(np.ones(n + 2, dtype=bool), d.pixel_component_ids)
            raise ValueError(sel)
        v = d.id["v"]
        op = sel["op"]
        if op == "gt":
            return v > sel["thr"]
        if op == "range":
            return (v > sel["lo"]) & (v < sel["hi"])
        if op == "or":
            return (v < sel["lt"]) | (v > sel["gt"])
        if op == "empty":
            return v > 1e9
        if op == "all":
            return v > -1e9
        if op == "key_eq":
            return d.id[sel["col"]] == sel["value"]
        raise ValueError(op)


def observe(data, state, view, ntables):
    """('mask', array) | ('incompatible',) | ('exception', name) - the real call, with the depth monitor armed."""
    _Monitor.limit = ntables + 1
    _Monitor.depth = 0
    _Monitor.max_seen = 0
    try:
        if view is None:
            m = data.get_mask(state)
        else:
            m = data.get_mask(state, view=view)
        return ("mask", np.asarray(m))
    except IncompatibleAttribute:
        return ("incompatible",)
    except DepthExceeded:
        return ("exception", "recursion_deeper_than_number_of_tables")
    except RecursionError:
        return ("exception", "RecursionError")
    except Exception as exc:  # noqa
        return ("exception", type(exc).__name__)
    finally:
        _Monitor.limit = 0
        _Monitor.depth = 0


def diff_kind(got, exp):
    got = np.asarray(got).astype(bool).ravel()
    exp = np.asarray(exp).astype(bool).ravel()
    if got.shape != exp.shape:
        return "shape"
    missing = bool(np.any(exp & ~got))
    extra = bool(np.any(got & ~exp))
    return "missing+extra" if (missing and extra) else ("missing" if missing else ("extra" if extra else "none"))


def sel_class(mask):
    n = int(np.sum(mask))
    return "empty" if n == 0 else ("all" if n == len(mask) else "partial")


def run_graph(ctx, desc, rng):
    b = Built(desc)
    nt = len(desc["tables"])
    live = list(range(len(desc["edges"])))
    phases = [("initial", None)]
    removable = sorted(b.joinlinks)
    if removable and rng.random() < 0.6:
        phases.append(("after_joinlink_removed", rng.choice(removable)))
    ctx.count("graphs")
    ctx.count("topology:" + desc["topology"])
    for e in desc["edges"]:
        ctx.count("edge_shape:" + e["shape"])
        ctx.count("edge_dtype_pair:" + e["dtype_pair"])
        ctx.count("edge_shape_dtype:%s:%s" % (e["shape"], e["dtype_pair"]))
        ctx.count("edge_via:" + e["via"])
    for phase, remove_edge in phases:
        if remove_edge is not None:
            try:
                b.dc.remove_link(b.joinlinks[remove_edge])
            except Exception as exc:  # noqa
                ctx.violation({"kind": "exception_removing_joinlink", "exception": type(exc).__name__},
                              {"graph": desc, "edge": remove_edge, "error": repr(exc)[:300]})
                return
            live.remove(remove_edge)
            ctx.count("joinlink_removals")
        adj = adjacency(desc, live)
        cyclic = len(live) >= 1 and _has_cycle(nt, [desc["edges"][ei] for ei in live])
        # query history: every (source, target) pair once without a view, some with views, plus foreign sources
        queries = []
        sources = list(range(nt))
        rng.shuffle(sources)
        large = desc.get("large", False)
        for s in sources[: (2 if nt <= 3 else 3)]:
            for _rep in range(2 if large else 1):
                sel = gen_selection(rng, desc["tables"][s], large)
                for t in range(nt):
                    if t != s:
                        queries.append((s, sel, t, None))
                        if rng.random() < (0.25 if large else 0.5):
                            queries.append((s, sel, t, rng.choice(VIEW_KINDS[1:])))
        # faults: selections whose evaluation on their own table raises something other than IncompatibleAttribute,
        # asked through the joins and interleaved with the valid ones
        if rng.random() < 0.5:
            for _f in range(rng.randint(1, 3)):
                s, t = rng.sample(range(nt), 2)
                queries.append((s, {"op": "fault", "fault": rng.choice(FAULTS)}, t, None if rng.random() < 0.8 else
                                rng.choice(VIEW_KINDS[1:])))
        for t in range(nt):
            if rng.random() < 0.6:
                queries.append(("foreign", None, t, None if rng.random() < 0.7 else rng.choice(VIEW_KINDS[1:])))
        rng.shuffle(queries)
        for (s, sel, t, vkind) in queries:
            one_query(ctx, b, desc, adj, cyclic, phase, s, sel, t, vkind, rng)


FAULTS = ["str_gt_number", "element_out_of_range", "element_out_of_range", "mask_wrong_shape"]


def fault_query(ctx, b, desc, base_sig, fp, detail, s, sel, t, view, paths):
    nt = len(desc["tables"])
    state = b.state(s, sel)
    own = observe(b.datas[s], state, None, nt)      # join-free evaluation on the selection's own table
    got = observe(b.datas[t], state, view, nt)
    b.faults_so_far += 1
    ctx.count("fault_queries")
    ctx.count("fault:" + sel["fault"])
    if not paths:
        ctx.count("fault_without_join_path:" + got[0])
        return
    if len(paths[0]) >= 2:
        ctx.count("fault_through_chain")
    if sel["fault"] == "mask_wrong_shape" or own[0] != "exception":
        # not a fault of the table's own evaluation (glue hands a mis-shaped mask through): outcome only tallied
        ctx.count("fault_outcome_tallied:%s" % (got[1] if got[0] == "exception" else got[0]))
        return
    ctx.evaluation(fp, nontrivial=True)
    if got == own:
        ctx.count("fault_surfaced_same_exception")
        ctx.count("fault_surfaced:" + own[1])
    else:
        ctx.violation(dict(base_sig, kind="fault_outcome_differs_from_join_free_evaluation", fault=sel["fault"],
                           expected_exception=own[1], got=got[0], exception=got[1] if got[0] == "exception" else None),
                      detail(observed=got, join_free=own))


def _neg_int_key(desc, e):
    for side, names in ((e["a"], e["cols_a"]), (e["b"], e["cols_b"])):
        for c in names:
            col = desc["tables"][side]["cols"][c]
            if col["dtype"].startswith("int") and any(v < 0 for v in col["values"]):
                return True
    return False


def _has_cycle(nt, edges):
    parent = list(range(nt))

    def find(x):
        while parent[x] != x:
            x = parent[x]
        return x
    for e in edges:
        ra, rb = find(e["a"]), find(e["b"])
        if ra == rb:
            return True
        parent[ra] = rb
    return False


def one_query(ctx, b, desc, adj, cyclic, phase, s, sel, t, vkind, rng):
    nt = len(desc["tables"])
    T = b.datas[t]
    tshape = tuple(desc["tables"][t]["shape"])
    view = make_view(rng, tshape, vkind) if vkind else None
    vdesc = describe_view(view)
    large = desc.get("large", False)
    base_sig = {"topology": desc["topology"], "phase": phase, "view_kind": vkind or "none", "in_collection": desc["in_collection"],
                "after_fault": b.faults_so_far > 0, "large_tables": large}
    paths = [] if s == "foreign" else simple_paths(adj, s, t)
    fp = [b.desc_hash, phase, s, sel, t, vdesc]
    detail = lambda **kw: dict({"graph": desc, "phase": phase, "source": s, "selection": sel, "target": t, "view": vdesc}, **kw)
    if sel is not None and sel["op"] == "fault":
        fault_query(ctx, b, desc, base_sig, fp, detail, s, sel, t, view, paths)
        return
    state = b.state(s, sel)

    if not paths:
        # nothing can evaluate the selection for this table: IncompatibleAttribute, on cycles too
        got = observe(T, state, view, nt)
        ctx.evaluation(fp, nontrivial=nt >= 3)
        ctx.count("eval_expected_incompatible")
        if cyclic:
            ctx.count("eval_expected_incompatible_on_cyclic_graph")
        if phase != "initial":
            ctx.count("eval_after_joinlink_removed")
        if got[0] != "incompatible":
            sig = dict(base_sig, kind="expected_incompatible", got=got[0], cyclic=cyclic,
                       exception=got[1] if got[0] == "exception" else None,
                       source="foreign" if s == "foreign" else "unjoined_table")
            ctx.violation(sig, detail(observed=got))
        return

    src_tab = desc["tables"][s]
    src_mask = select_rows(src_tab, sel)
    # the source's own answer must be the plain selection (otherwise this is not a join question)
    own = observe(b.datas[s], state, None, nt)
    if own[0] != "mask" or not same_array(own[1].ravel(), src_mask):
        ctx.count("source_selection_deviates_skipped")
        return
    exp_set = []
    for p in paths:
        m = propagate(desc, p, src_mask)
        if not any(np.array_equal(m, o) for o in exp_set):
            exp_set.append(m)
    got = observe(T, state, view, nt)
    nontrivial = any(0 < int(m.sum()) < len(m) for m in exp_set)
    ctx.evaluation(fp, nontrivial=nontrivial)
    first = paths[0]
    hop_edge = first[0][2]
    hshape = edge_shape_from(desc, hop_edge, t)
    hclass = desc["edges"][hop_edge]["dtype_pair"]
    ctx.count("eval_mask")
    if b.faults_so_far:
        ctx.count("eval_mask_after_fault")
        if len(first) >= 2:
            ctx.count("eval_mask_after_fault_through_chain")
    if large:
        nsel = int(src_mask.sum())
        ctx.count("eval_large")
        ctx.count("eval_large_shape:" + hshape)
        ctx.count("eval_large_selected:" + ("one" if nsel == 1 else "all" if nsel == len(src_mask) else
                                            "20_or_more" if nsel >= 20 else "few"))
        if hshape == "n-n" and nsel >= 25:
            ctx.count("eval_large_nn_many_selected_duplicated_keys")
    ctx.count("eval_hops:%d" % min(len(first), 3))
    if len(paths) == 1:
        ctx.count("eval_shape:" + hshape)
        ctx.count("eval_shape_dtype:%s:%s" % (hshape, hclass))
    else:
        ctx.count("eval_multiple_paths_any_accepted")
    ctx.count("eval_view:" + (vkind or "none"))
    ctx.count("eval_selection:" + sel_class(src_mask))
    if phase != "initial":
        ctx.count("eval_after_joinlink_removed")
    if len(first) >= 2:
        ctx.count("eval_through_chain")

    def expected_view(m):
        return apply_view(m.reshape(tshape), view)

    if got[0] == "mask" and any(same_array(got[1], expected_view(m)) and got[1].dtype == bool for m in exp_set):
        if rng.random() < 0.002:
            ctx.sample({"topology": desc["topology"], "hop_shape": hshape, "dtype_pair": hclass, "view": vdesc,
                        "expected": exp_set[0].astype(int).tolist(), "observed": np.asarray(got[1]).astype(int).tolist()})
        return

    if len(paths) > 1:
        nn_str = False
        for _node, _nxt, _ei in [p[0] for p in paths]:
            _e = desc["edges"][_ei]
            if edge_shape_from(desc, _ei, t) == "n-n" and any(
                    desc["tables"][_e["a"]]["cols"][c]["dtype"].startswith("<U") for c in _e["cols_a"]):
                nn_str = True
        sig = dict(base_sig, kind="mask_mismatch_on_cyclic_graph" if got[0] == "mask" else "failed_on_cyclic_graph",
                   got=got[0], exception=got[1] if got[0] == "exception" else None,
                   scalar_view=np.ndim(expected_view(exp_set[0])) == 0, target_has_nn_edge_with_str_key=nn_str)
        ctx.violation(sig, detail(observed=got, expected_any_of=[m.astype(int).tolist() for m in exp_set]))
        return

    # unique path: attribute to the first hop whose output is not the hop function of its observed input
    node, nxt, ei = first[0]
    if len(first) >= 2:
        up = observe(b.datas[nxt], state, None, nt)
        if up[0] == "mask" and up[1].dtype == bool and up[1].size == len(desc["tables"][nxt]["v"]):
            cl, cr = edge_sides(desc, ei, node, nxt)
            local = hop(desc["tables"][node], cl, desc["tables"][nxt], cr, up[1].ravel())
            exp_up = propagate(desc, first[1:], src_mask)
            if not np.array_equal(up[1].ravel(), exp_up):
                if got[0] == "mask" and same_array(got[1], expected_view(local)):
                    ctx.count("downstream_of_an_upstream_divergence_not_reported_again")
                    return
        elif up[0] != "mask":
            if got[0] == up[0]:
                ctx.count("downstream_of_an_upstream_divergence_not_reported_again")
                return
    exp = exp_set[0]
    e = desc["edges"][ei]
    str_key = any(desc["tables"][e["a"]]["cols"][c]["dtype"].startswith("<U") for c in e["cols_a"])
    sig = dict(base_sig, shape=hshape, dtype_pair=hclass, hops=min(len(first), 3), via=e["via"],
               selection=sel_class(src_mask), str_key=str_key, scalar_view=np.ndim(expected_view(exp_set[0])) == 0,
               neg_int_key=_neg_int_key(desc, e))
    if got[0] == "mask":
        ev = expected_view(exp)
        if got[1].dtype != bool:
            sig.update(kind="mask_not_boolean", error=str(got[1].dtype))
        else:
            sig.update(kind="mask_mismatch", error=diff_kind(got[1], ev) if np.shape(got[1]) == np.shape(ev) else "shape")
        ctx.violation(sig, detail(observed=got[1], expected=ev.astype(int).tolist(), expected_full=exp.astype(int).tolist()))
    elif got[0] == "incompatible":
        sig.update(kind="unexpected_incompatible")
        ctx.violation(sig, detail(expected_full=exp.astype(int).tolist()))
    else:
        sig.update(kind="exception", exception=got[1])
        ctx.violation(sig, detail(expected_full=exp.astype(int).tolist()))


# ---------------------------------------------------------------- driver interface
N_BLOCKS = {"quick": 320, "thorough": 16000}
PER_BLOCK = 9        # small graphs per block, plus one graph with large tables


def cases(tier, seed):
    for i in range(N_BLOCKS[tier]):
        yield ["graphs", i]


def run_case(ctx, case):
    if not _Monitor.installed:
        setup(ctx)
    for _ in range(PER_BLOCK):
        desc = gen_graph(ctx.rng, ctx.tier)
        run_graph(ctx, desc, ctx.rng)
    desc = gen_graph(ctx.rng, ctx.tier, large=True)
    run_graph(ctx, desc, ctx.rng)
    ctx.count("graphs_with_large_tables")


def floors(counters, tier):
    out = []
    for sh in SHAPES:
        if counters.get("eval_shape:" + sh, 0) < 1000:
            out.append("fewer than 1000 mask comparisons for join shape %s" % sh)
        for cl in ["same", "int_vs_float", "int_width", "float_width", "str_width", "neg_zero"]:
            if counters.get("eval_shape_dtype:%s:%s" % (sh, cl), 0) < 100:
                out.append("fewer than 100 mask comparisons for shape %s with dtype pairing %s" % (sh, cl))
    for k, n in [("eval_through_chain", 1500), ("eval_expected_incompatible_on_cyclic_graph", 150),
                 ("eval_expected_incompatible", 2000), ("eval_multiple_paths_any_accepted", 500),
                 ("eval_after_joinlink_removed", 500), ("eval_selection:empty", 800), ("eval_selection:partial", 2000),
                 ("joinlink_removals", 40), ("fault_surfaced_same_exception", 100), ("fault_through_chain", 40),
                 ("eval_mask_after_fault", 1500), ("eval_mask_after_fault_through_chain", 300),
                 ("eval_large", 600), ("eval_large_shape:n-n", 250), ("eval_large_nn_many_selected_duplicated_keys", 100),
                 ("eval_large_selected:one", 30), ("eval_large_selected:all", 30)]:
        if counters.get(k, 0) < n:
            out.append("fewer than %d %s" % (n, k))
    for vk in VIEW_KINDS[1:]:
        if counters.get("eval_view:" + vk, 0) < 150:
            out.append("fewer than 150 comparisons with view kind %s" % vk)
    return out
