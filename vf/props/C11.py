"""C11 - key joins propagate selections by key equality (1-1, n-n, 1-n, n-1; chains; cycles).

Shape: input-space sweep with short query histories.  A *join graph* (2-4
generated tables, a tree or a graph with a cycle, every edge with its own key
columns, shape and storage-dtype pairing) is built on real `Data` objects with
`Data.join_on_key` (or `JoinLink` through a `DataCollection`).  A shuffled list
of queries (selection defined on one table or on an unrelated table, asked of
every other table, with and without a view, interleaved compatible and
incompatible, optionally followed by removal of a JoinLink and more queries) is
answered by the real `Data.get_mask`.  The oracle propagates the selected row
set hop by hop along the simple path(s) of the join graph with Python sets of
value-normalised key tuples.
"""
import itertools

import numpy as np

from glue.core import Data, DataCollection
from glue.core.exceptions import IncompatibleAttribute
from glue.core.link_helpers import JoinLink
from glue.core.subset import ElementSubsetState, MaskSubsetState, RangeSubsetState
from glue.core.hub import HubListener
from glue.core.message import SubsetUpdateMessage
from glue.core.link_helpers import LinkSame

from vf.ctx import stable_hash
from vf.common import VIEW_KINDS, make_view, describe_view, apply_view, same_array

ID = "C11"
LEVEL = "exploration"
BUDGET_S = {"quick": 35.0, "thorough": 420.0}
RULE = ("cases are join graphs over 2-4 generated tables (1-d, some 2-d; 1-8 elements) - trees (pairs, chains, stars), "
        "graphs with one cycle, two separately joined components - where every edge draws a shape (1-1, n-n with 2-3 "
        "columns, 1-n, n-1), a storage-dtype pairing (same dtype among int64/int32/float64/float32/str; int vs float; "
        "int32 vs int64; float32 vs float64; unequal string widths; -0.0 vs 0.0), the registering side and the "
        "registration route (join_on_key with names or ComponentIDs, JoinLink). Each graph gets a shuffled history of "
        "queries: selection kinds (threshold, range, or, empty, all, key equality) on each table or on an unrelated "
        "table, asked of every table without a view and of some with a view of every supported kind; some graphs then "
        "lose a JoinLink and are queried again. An evaluation is one get_mask outcome compared with the oracle; it is "
        "non-trivial when the expected full mask has selected and unselected rows, or when IncompatibleAttribute is "
        "expected on a graph of >= 3 tables; distinct = distinct (graph descriptor, query) fingerprints.")
ASSUMPTIONS = ["'equals by value' is Python equality of the stored numbers/strings (1 == 1.0, -0.0 == 0.0, float32 values "
               "that are exactly representable); NaN keys, empty strings and mixed string/number key pairs are not generated",
               "on a join graph with a cycle and an evaluable table the statement does not say which path is used: the "
               "result of propagation along any simple path is accepted",
               "a table whose nearest neighbour on the path already deviates is not reported again: each query is "
               "attributed to the first hop whose output is not the hop function of its observed input",
               "the selection on the source table itself (Data.get_mask without joins) is C01/C04's business; if it "
               "deviates from numpy the query is skipped and tallied"]
ANCHORS = ["glue.core.joins:get_mask_with_key_joins", "glue.core.joins:concatenate_arrays", "glue.core.data:Data.join_on_key",
           "glue.core.data:Data.get_mask", "glue.core.link_manager:LinkManager.add_link",
           "glue.core.link_manager:LinkManager.remove_link"]

SHAPES = ["1-1", "n-n", "1-n", "n-1"]
NEG_VIEW_KINDS = ["negative_int", "backward_slice", "negative_index_arrays"]
ALL_VIEW_KINDS = VIEW_KINDS[1:] + NEG_VIEW_KINDS


def make_view_ext(rng, shape, kind):
    if kind not in NEG_VIEW_KINDS:
        return make_view(rng, shape, kind)
    nd = len(shape)
    if kind == "negative_int":
        v = [(-rng.randint(1, n)) if rng.random() < 0.6 else slice(None) for n in shape]
        if all(isinstance(x, slice) for x in v):
            v[0] = -rng.randint(1, shape[0])
        return tuple(v)
    if kind == "backward_slice":
        out = []
        for n in shape:
            a, b_ = rng.randrange(0, n), rng.randrange(0, n)
            out.append(rng.choice([slice(None, None, -1), slice(None, None, -2), slice(max(a, b_), None, -1),
                                   slice(max(a, b_), min(a, b_), -1), slice(-1, None, -1)]))
        return tuple(out)
    k = rng.randint(1, 6)
    return tuple(np.array([rng.randrange(-n, n) for _ in range(k)]) for n in shape)
INT_POOL = [-1, 0, 1, 2, 3, 4]
FLOAT_POOL = [-1.0, 0.0, 0.5, 1.0, 2.0, 3.0, 4.0]
STR_POOL = ["a", "b", "cc", "dd", "eee"]
# wide pools (about n/2 distinct keys for 60-300 rows): many DISTINCT selected keys and duplicated unselected keys
WIDE_INT_POOL = list(range(0, 120))
WIDE_FLOAT_POOL = [0.5 * k for k in range(120)]
WIDE_STR_POOL = ["k%03d" % k for k in range(120)]
BIG_INT_POOL = list(range(-2, 9))
BIG_FLOAT_POOL = [-1.0, -0.5, 0.0, 0.5, 1.0, 1.5, 2.0, 2.5, 3.0, 4.0, 5.0]
BIG_STR_POOL = ["a", "b", "cc", "dd", "eee", "f", "gg", "hhh", "ab", "ba"]
SAME_DTYPES = ["int64", "int64", "float64", "str", "str", "int32", "float32", "int8", "uint8", "uint16", "int16", ">i4", ">f8",
               "object"]
PAIRINGS = ["same", "same", "same", "same", "int_vs_float", "int_width", "float_width", "str_width", "neg_zero",
            "uint_vs_int", "byte_order", "object_vs_U", "mixed_columns", "mixed_columns"]
PAIRING_CLASSES = ["same", "int_vs_float", "int_width", "float_width", "str_width", "neg_zero", "uint_vs_int", "byte_order",
                   "object_vs_U"]
try:
    import dask.array  # noqa
    HAVE_DASK = True
except Exception:  # noqa
    HAVE_DASK = False


class DepthExceeded(BaseException):
    """Raised by the recursion-depth monitor (logical bound: a key-join lookup never needs to be nested deeper than
    the number of tables in the graph)."""


class _Monitor:
    last_container = None
    depth = 0
    limit = 0
    max_seen = 0
    installed = False


def setup(ctx):
    import glue.core.data as gdata
    orig = gdata.get_mask_with_key_joins

    def monitored(data, key_joins, subset_state, view=None):
        _Monitor.depth += 1
        _Monitor.max_seen = max(_Monitor.max_seen, _Monitor.depth)
        try:
            if _Monitor.limit and _Monitor.depth > _Monitor.limit:
                raise DepthExceeded()
            return orig(data, key_joins, subset_state, view=view)
        finally:
            _Monitor.depth -= 1
    gdata.get_mask_with_key_joins = monitored
    _Monitor.installed = True


# ---------------------------------------------------------------- generation (descriptors are plain data)
STR_PREFIX_POOL = ["", "a", "ab", "abc", "b", "ba"]
SCALES = ["unit"] * 12 + ["large", "large", "tiny", "near_equal", "extreme"]
NUM_POOLS = {
    "unit": [-1, 0, 1, 2, 3, 4, 0.5],
    "large": [10 ** 12, 10 ** 12 + 1, -10 ** 12, 2 ** 40, 2 ** 40 + 2 ** 20, 65535, 65536, 255, 256, 0, 2.5e11, 1e12 + 0.5],
    "tiny": [1e-10, 2e-10, 1e-10 * (1 + 1e-9), -1e-10, 0.0, 1.0, 1e-300],
    "near_equal": [1.0, 1.0 + 1e-12, 1.0 - 1e-12, 1e6, 1e6 * (1 + 1e-13), 0.1 + 0.2, 0.3, 3],
    "extreme": [127, 128, -128, -129, 32767, 32768, 2 ** 31 - 1, 2 ** 31, -2 ** 31, 2 ** 53, 2 ** 53 + 1, -1, 0, 200, -56, 40000,
                -25536, 1.5],
}
LAYOUTS = ["contiguous"] * 8 + ["strided", "reversed", "readonly", "fortran", "broadcast"]


def is_str(col):
    return col["dtype"].startswith("<U") or col["dtype"] == "object"


def storable(v, dt):
    dt = np.dtype(dt)
    if dt.kind in "iu":
        if isinstance(v, float) and v != int(v):
            return False
        info = np.iinfo(dt)
        return info.min <= v <= info.max
    return bool(np.isfinite(np.array(v, dtype=dt)))


def gen_column(rng, n, kind, width=None, negzero=None, pool_size=None, scale="unit", str_pool="normal", partner=None):
    """kind: numpy dtype name (int8..int64, uint8..uint32, float32/64, '>i4', '>i8', '>f4', '>f8'), 'str' or 'object'
    -> {"dtype", "values" (flat list of n values AS STORED), "layout", "storage"}.
    pool_size: draw from the first pool_size values of the big pools (large tables, controls duplication).
    partner: dtype name of the column this one is compared with (values are drawn so that both can store most)."""
    if kind in ("str", "object"):
        spool = STR_PREFIX_POOL if str_pool == "prefix" else STR_POOL
        if pool_size == "wide":
            spool = WIDE_STR_POOL
            width = max(4, width or 4)
        elif pool_size is not None:
            spool = BIG_STR_POOL[:pool_size]
        vals = [rng.choice(spool) for _ in range(n)]
        if kind == "object":
            col = {"dtype": "object", "values": vals}
        else:
            w = 3 if width is None else max(3, width)
            col = {"dtype": "<U%d" % w, "values": vals}
    else:
        dt = np.dtype(kind)
        if pool_size == "wide":
            pool = WIDE_INT_POOL if dt.kind in "iu" else WIDE_FLOAT_POOL
        elif pool_size is not None:
            pool = (BIG_INT_POOL if dt.kind in "iu" else BIG_FLOAT_POOL)[:pool_size + 1]
        else:
            pool = NUM_POOLS[scale]
        pool = [v for v in pool if storable(v, dt)]
        if partner is not None and partner not in ("str", "object") and rng.random() < 0.8:
            both = [v for v in pool if storable(v, partner)]
            pool = both if len(both) >= 2 else pool
        if len(pool) < 2:
            pool = [0, 1]
        vals = [rng.choice(pool) for _ in range(n)]
        if dt.kind == "f":
            if negzero == "neg":
                vals = [(-0.0 if v == 0.0 else v) for v in vals]
                if n and not any(v == 0.0 for v in vals):
                    vals[rng.randrange(n)] = -0.0
            elif negzero == "pos":
                if n and not any(v == 0.0 for v in vals):
                    vals[rng.randrange(n)] = 0.0
        vals = np.array(vals, dtype=dt).tolist() if n else []     # the values as stored (float32 rounding etc.)
        col = {"dtype": kind, "values": vals}
    layout = rng.choice(LAYOUTS) if pool_size is None else "contiguous"
    if layout == "broadcast":
        if n == 0:
            layout = "contiguous"
        else:
            col["values"] = [col["values"][0]] * n       # a stride-0 column is constant
    col["layout"] = layout
    col["scale"] = scale if (pool_size is None and kind not in ("str", "object")) else ("big_pool" if pool_size else str_pool)
    col["storage"] = "numpy"
    if (layout == "contiguous" and kind not in ("str", "object") and np.dtype(kind).isnative and HAVE_DASK
            and n > 0 and rng.random() < 0.025):
        col["storage"] = "dask"
    return col


def column_array(col, shape):
    """the array handed to glue: logical content = col['values'], memory layout / container as requested"""
    dt = col["dtype"]
    shape = tuple(shape)
    if dt == "object":
        base = np.empty(len(col["values"]), dtype=object)
        base[:] = col["values"]
        base = base.reshape(shape)
    else:
        base = np.array(col["values"], dtype=dt).reshape(shape)
    layout = col.get("layout", "contiguous")
    if layout == "strided":
        big = np.zeros(shape[:-1] + (shape[-1] * 2,), dtype=base.dtype)
        big[..., ::2] = base
        arr = big[..., ::2]
    elif layout == "reversed":
        arr = np.ascontiguousarray(base[..., ::-1])[..., ::-1]
    elif layout == "readonly":
        arr = base
        arr.setflags(write=False)
    elif layout == "fortran":
        arr = np.asfortranarray(base)
    elif layout == "broadcast":
        arr = np.broadcast_to(base.ravel()[0], shape)
    else:
        arr = base
    if col.get("storage") == "dask":
        import dask.array as da
        return da.from_array(arr, chunks=max(1, arr.shape[0] // 2))
    return arr


def pair_class(ca, cb):
    da, db = np.dtype(ca["dtype"]), np.dtype(cb["dtype"])
    kinds = {da.kind, db.kind}
    if "O" in kinds:
        return "object_str" if da == db else "object_vs_U"
    if da == db:
        if da.kind == "f":
            def signs(vals):
                return {("neg" if np.signbit(v) else "pos") for v in vals if v == 0.0}
            sa, sb = signs(ca["values"]), signs(cb["values"])
            if ("neg" in sa and "pos" in sb) or ("pos" in sa and "neg" in sb):
                return "neg_zero"
        return "same"
    if da.kind == db.kind and da.itemsize == db.itemsize and da.kind in "iuf":
        return "byte_order"
    if kinds in ({"i", "f"}, {"u", "f"}):
        return "int_vs_float"
    if kinds == {"i"}:
        return "int_width"
    if kinds == {"u"}:
        return "uint_width"
    if kinds == {"u", "i"}:
        return "uint_vs_int"
    if kinds == {"f"}:
        return "float_width"
    if kinds == {"U"}:
        return "str_width"
    return "other"


MIXED_VARIANTS = {
    # name: (dtype and pool of the single key column, [(dtype, pool) of the several key columns on the other side])
    "int_next_to_str:int_key": (("int64", [1, 2, 3, 5]), [("int64", [1, 2, 4, 5]), ("str", ["a", "b", "cc"])]),
    "int_next_to_str:str_key": (("str", ["a", "b", "dd"]), [("int64", [1, 2, 4, 5]), ("str", ["a", "b", "cc"])]),
    "big_ids_next_to_float": (("int64", [2 ** 53 + 1, 2 ** 53 + 2, 2 ** 53 + 3, 5, 3]),
                              [("int64", [2 ** 53 + 1, 2 ** 53 + 3, 2 ** 53 + 5, 7]), ("float64", [0.5, 5.0, 1.0, 3.0])]),
    "int8_next_to_uint64": (("int64", [-1, 5, 7, 100, 2]), [("int8", [-1, 5, 100, -7]), ("uint64", [5, 7, 2 ** 63, 9])]),
    "str_widths_side_by_side": (("str", ["a", "b", "cc", "eee"]), [("str", ["a", "cc", "dd"]), ("str6", ["b", "eee", "ffffff"])]),
}


def gen_mixed_columns(rng, na, nb, shape, pool_size=None):
    """1-n / n-1 edge whose SEVERAL key columns have different dtypes side by side; membership is per column by value"""
    variant = rng.choice(sorted(MIXED_VARIANTS))
    (sdt, spool), many = MIXED_VARIANTS[variant]
    many = list(many)
    if rng.random() < 0.5:
        many.reverse()

    def col(n, dt, pool):
        if dt in ("str", "str6"):
            c = {"dtype": "<U6" if dt == "str6" else "<U3", "values": [rng.choice(pool) for _ in range(n)]}
        else:
            c = {"dtype": dt, "values": np.array([rng.choice(pool) for _ in range(n)], dtype=dt).tolist() if n else []}
        c.update(layout="contiguous", storage="numpy", scale="mixed_columns", mixed=variant)
        return c
    if shape == "1-n":
        return [col(na, sdt, spool)], [col(nb, dt, pool) for dt, pool in many]
    return [col(na, dt, pool) for dt, pool in many], [col(nb, sdt, spool)]


def gen_edge_columns(rng, na, nb, shape, pairing, pool_size=None):
    """Key columns for an edge between tables with na / nb elements.  Returns (cols_a, cols_b) lists of column
    descriptors (len 1 or k according to the shape)."""
    if pairing == "mixed_columns":
        if shape in ("1-n", "n-1"):
            return gen_mixed_columns(rng, na, nb, shape, pool_size)
        pairing = "same"
    if shape == "1-1":
        ka, kb = 1, 1
    elif shape == "n-n":
        ka = kb = rng.choice([2, 2, 3])
    elif shape == "1-n":
        ka, kb = 1, rng.choice([2, 3])
    else:
        ka, kb = rng.choice([2, 3]), 1
    kmax = max(ka, kb)
    # the odd pairing (X on side a, Y on side b) is applied to >= 1 position; every other position pairs equal dtypes
    odd = set(rng.sample(range(kmax), rng.randint(1, kmax))) if pairing != "same" else set()
    kwx, kwy = {}, {}
    scale = rng.choice(SCALES) if pool_size is None else "unit"
    common = {"pool_size": pool_size, "scale": scale, "str_pool": rng.choice(["normal", "normal", "prefix"])}
    if pairing == "same" and pool_size == "wide":
        x = y = rng.choice(["float64", "float64", "str", "str", "int64", "float32"])
    elif pairing == "same":
        x = y = rng.choice(SAME_DTYPES)
    elif pairing == "int_vs_float":
        x, y = rng.choice(["int64", "int32", "int16", "uint8"]), rng.choice(["float64", "float64", "float32", ">f8"])
    elif pairing == "int_width":
        x, y = rng.choice([("int32", "int64"), ("int8", "int16"), ("int16", "int64"), ("int8", "int32")])
    elif pairing == "float_width":
        x, y = rng.choice([("float32", "float64"), ("float32", ">f8")])
    elif pairing == "uint_vs_int":
        x, y = rng.choice([("uint8", "int8"), ("uint8", "int16"), ("uint16", "int16"), ("uint16", "int32"), ("uint32", "int64"),
                           ("uint8", "int64")])
    elif pairing == "byte_order":
        x, y = rng.choice([(">i4", "int32"), (">i8", "int64"), (">f8", "float64"), (">f4", "float32")])
    elif pairing == "object_vs_U":
        x, y = "object", "str"
    elif pairing == "str_width":
        x, y, kwy = "str", "str", {"width": rng.choice([4, 6])}
    elif pairing == "neg_zero":
        x = y = rng.choice(["float64", "float64", "float32"])
        kwx, kwy = {"negzero": "neg"}, {"negzero": "pos"}
    else:
        raise ValueError(pairing)
    if rng.random() < 0.5:
        x, y, kwx, kwy = y, x, kwy, kwx
    cols_a, cols_b = [], []
    for i in range(kmax):
        if ka == kb:
            if i in odd:
                cols_a.append(gen_column(rng, na, x, partner=y, **common, **kwx))
                cols_b.append(gen_column(rng, nb, y, partner=x, **common, **kwy))
            else:
                z = rng.choice(["int64", "float64", "str", "int32"])
                cols_a.append(gen_column(rng, na, z, **common))
                cols_b.append(gen_column(rng, nb, z, **common))
        elif ka == 1:
            # single column (dtype x) on side a; side b: y on the odd positions, x elsewhere
            if i == 0:
                cols_a.append(gen_column(rng, na, x, partner=y, **common, **kwx))
            cols_b.append(gen_column(rng, nb, y, partner=x, **common, **kwy) if i in odd else gen_column(rng, nb, x, partner=y, **common, **kwx))
        else:
            if i == 0:
                cols_b.append(gen_column(rng, nb, y, partner=x, **common, **kwy))
            cols_a.append(gen_column(rng, na, x, partner=y, **common, **kwx) if i in odd else gen_column(rng, na, y, partner=x, **common, **kwy))
    return cols_a, cols_b


def edge_class(cols_a, cols_b):
    mixed = [c["mixed"] for c in list(cols_a) + list(cols_b) if c.get("mixed")]
    if mixed and len(cols_a) != len(cols_b):
        return "mixed_columns:" + mixed[0].split(":")[0]
    if len(cols_a) == len(cols_b):
        pairs = list(zip(cols_a, cols_b))
    elif len(cols_a) == 1:
        pairs = [(cols_a[0], b) for b in cols_b]
    else:
        pairs = [(a, cols_b[0]) for a in cols_a]
    cl = sorted({pair_class(a, b) for a, b in pairs} - {"same"})
    return "+".join(cl) if cl else "same"


TOPOLOGIES = ["pair", "pair", "pair", "chain", "chain", "star", "cycle", "two_components"]


def gen_graph(rng, tier, large=False):
    """large=True: 60-300 rows per table, key tuples heavily duplicated (beyond numpy's small-array paths)."""
    topo = rng.choice(TOPOLOGIES) if not large else rng.choice(["pair", "pair", "chain"])
    if topo == "pair":
        nt = 2
        edges = [(0, 1)]
    elif topo == "chain":
        nt = rng.choice([3, 3, 4]) if not large else 3
        order = list(range(nt))
        rng.shuffle(order)
        edges = [(order[i], order[i + 1]) for i in range(nt - 1)]
    elif topo == "star":
        nt = rng.choice([3, 4])
        c = rng.randrange(nt)
        edges = [(c, j) for j in range(nt) if j != c]
        rng.shuffle(edges)
    elif topo == "cycle":
        nt = rng.choice([3, 3, 4])
        order = list(range(nt))
        rng.shuffle(order)
        k = rng.choice([3, nt])
        cyc = order[:k]
        edges = [(cyc[i], cyc[(i + 1) % k]) for i in range(k)]
        for extra in order[k:]:
            edges.append((rng.choice(cyc), extra))
        rng.shuffle(edges)
    else:
        nt = 4
        edges = [(0, 1), (2, 3)]
    max_len = 8 if tier == "quick" else 10
    tables = []
    for t in range(nt):
        if large:
            shape = [rng.randint(60, 300)]
        elif rng.random() < 0.03:
            shape = [0]
        elif rng.random() < 0.15:
            shape = [rng.randint(1, 3), rng.randint(1, 3)]
        else:
            shape = [rng.randint(1, max_len)]
        n = int(np.prod(shape))
        perm = list(range(n))
        rng.shuffle(perm)
        tables.append({"shape": shape, "v": [float(p) for p in perm], "cols": {}, "first_keys": []})
    edescs = []
    for ei, (a, b) in enumerate(edges):
        if rng.random() < 0.5:
            a, b = b, a
        shape = rng.choice(SHAPES) if not large else rng.choice(["n-n", "n-n", "1-1", "1-1", "1-n", "n-1"])
        pairing = rng.choice(PAIRINGS)
        if topo == "cycle":
            pairing = "same"
        na, nb = len(tables[a]["v"]), len(tables[b]["v"])
        psize = None
        if large:
            psize = "wide" if (shape == "1-1" and rng.random() < 0.75) or rng.random() < 0.15 else rng.choice([3, 5, 9])
            if psize == "wide":
                pairing = rng.choice(["same", "same", "float_width", "str_width", "int_vs_float", "neg_zero"])
        cols_a, cols_b = gen_edge_columns(rng, na, nb, shape, pairing, pool_size=psize)
        names_a, names_b = [], []
        for side, cols, names in ((a, cols_a, names_a), (b, cols_b, names_b)):
            tab = tables[side]
            for i, c in enumerate(cols):
                name = "k%d_%d" % (ei, i)
                r = rng.random() if not c.get("mixed") else 0.5
                if not large and i == 0 and r < 0.15 and tab["first_keys"] and is_str(tab["cols"][tab["first_keys"][0]]) == is_str(c):
                    name = tab["first_keys"][0]              # the same column object serves two joins
                    cols[i] = tab["cols"][name]
                    names.append(name)
                    continue
                if (not large and i == 1 and len(cols) == len(cols_a) == len(cols_b) and r < 0.08
                        and is_str(cols[0]) == is_str(cols[1])):
                    names.append(names[0])                   # the same column twice in one key tuple
                    cols[i] = tab["cols"][names[0]]
                    continue
                if not large and not is_str(c) and len(tab["shape"]) == 1 and c["storage"] == "numpy":
                    if r > 0.95 and np.dtype(c["dtype"]).isnative:
                        c["key_kind"] = "derived"            # key = DerivedComponent (hidden base column * 1)
                    elif r > 0.9:
                        c.update(key_kind="pixel", dtype="float64", layout="contiguous",
                                 values=[float(j) for j in range(len(tab["v"]))])   # key = the row number
                tab["cols"][name] = c
                names.append(name)
            if names and not tab["first_keys"]:
                tab["first_keys"].append(names[0])
        via = "join_on_key"
        if shape == "1-1" and rng.random() < 0.35:
            via = "JoinLink"
        edescs.append({"a": a, "b": b, "cols_a": names_a, "cols_b": names_b, "shape": shape,
                       "dtype_pair": edge_class(cols_a, cols_b), "via": via,
                       "caller": rng.choice(["a", "b"]), "ids": rng.choice(["names", "cids"]),
                       "single_as_scalar": rng.random() < 0.5})
    sanitize_columns({"tables": tables, "topology": topo})
    for e in edescs:
        e["dtype_pair"] = edge_class([tables[e["a"]]["cols"][n] for n in e["cols_a"]],
                                     [tables[e["b"]]["cols"][n] for n in e["cols_b"]])
    in_coll = rng.random() < 0.5 or any(e["via"] == "JoinLink" for e in edescs)
    link_source = rng.randrange(nt) if (in_coll and rng.random() < 0.35) else None
    return {"topology": topo, "tables": tables, "edges": edescs, "large": large, "link_source": link_source,
            "in_collection": in_coll}


def gen_selection(rng, table, large=False):
    n = len(table["v"])
    if large:
        # v is a permutation of 0..n-1: "v > n-k-0.5" selects exactly k rows
        k = rng.choice([1, n, rng.randint(20, min(100, n)), rng.randint(20, min(100, n)), rng.randint(20, min(100, n)),
                        rng.randint(2, 19), rng.randint(min(100, n), n)])
        return {"op": "gt", "thr": n - k - 0.5}
    if n == 0:
        return rng.choice([{"op": "all"}, {"op": "empty"}, {"op": "gt", "thr": 0.5}])
    r = rng.random()
    if r < 0.4:
        return {"op": "gt", "thr": rng.randrange(-1, n) + 0.5}
    if r < 0.55:
        lo = rng.randrange(0, n) - 0.5
        return {"op": "range", "lo": lo, "hi": lo + rng.randint(1, max(1, n // 2))}
    if r < 0.7:
        return {"op": "or", "lt": rng.randrange(0, n) - 0.5, "gt": rng.randrange(0, n) + 0.5}
    if r < 0.76:
        return {"op": "empty"}
    if r < 0.8:
        return {"op": "all"}
    if r < 0.83:
        return {"op": "not_gt", "thr": rng.randrange(-1, n) + 0.5}
    if r < 0.86:
        return {"op": "sv_eq", "value": rng.choice(["x", "yy"])}
    if r < 0.89:
        lo = float(rng.randrange(0, n))
        return {"op": "range_state", "lo": lo, "hi": lo + rng.randint(0, max(1, n // 2))}
    numeric = [k for k, c in sorted(table["cols"].items()) if not is_str(c) and c["values"]]
    if numeric:
        k = rng.choice(numeric)
        return {"op": "key_eq", "col": k, "value": rng.choice(table["cols"][k]["values"])}
    return {"op": "gt", "thr": rng.randrange(-1, n) + 0.5}


# ---------------------------------------------------------------- oracle
def norm(x):
    """value-normalised key element: Python number (1 == 1.0, -0.0 == 0.0, equal hashes) or str."""
    if isinstance(x, str):
        return ("s", x)
    return ("n", x)   # python int/float compare and hash by value


def select_rows(table, sel):
    v = np.array(table["v"])
    op = sel["op"]
    if op == "gt":
        return v > sel["thr"]
    if op == "range":
        return (v > sel["lo"]) & (v < sel["hi"])
    if op == "or":
        return (v < sel["lt"]) | (v > sel["gt"])
    if op == "not_gt":
        return ~(v > sel["thr"])
    if op == "sv_eq":
        return np.array([("x", "yy")[i % 2] == sel["value"] for i in range(len(v))], dtype=bool)
    if op == "range_state":
        return (v >= sel["lo"]) & (v <= sel["hi"])
    if op == "empty":
        return np.zeros(len(v), dtype=bool)
    if op == "all":
        return np.ones(len(v), dtype=bool)
    if op == "key_eq":
        return np.array([x == sel["value"] for x in table["cols"][sel["col"]]["values"]], dtype=bool)
    raise ValueError(op)


def hop(left_table, left_cols, right_table, right_cols, right_mask):
    """Rows of `left` whose key equals, by value, a key of some selected row of `right` (flat bool list)."""
    L = [[norm(x) for x in left_table["cols"][c]["values"]] for c in left_cols]
    R = [[norm(x) for x in right_table["cols"][c]["values"]] for c in right_cols]
    nl = len(left_table["v"])
    sel = [j for j, m in enumerate(right_mask) if m]
    if len(L) == len(R):          # 1-1 and n-n: tuple equality
        keys = {tuple(col[j] for col in R) for j in sel}
        out = [tuple(col[i] for col in L) in keys for i in range(nl)]
    elif len(L) == 1:             # any of several values on the other side
        keys = {col[j] for col in R for j in sel}
        out = [L[0][i] in keys for i in range(nl)]
    else:                         # any of this row's several keys
        keys = {R[0][j] for j in sel}
        out = [any(col[i] in keys for col in L) for i in range(nl)]
    return np.array(out, dtype=bool)


def adjacency(desc, live_edges):
    adj = {}
    for ei in live_edges:
        e = desc["edges"][ei]
        adj.setdefault(e["a"], []).append((e["b"], ei))
        adj.setdefault(e["b"], []).append((e["a"], ei))
    return adj


def simple_paths(adj, src, dst):
    """All simple paths dst -> ... -> src as lists of (node, edge-to-next)."""
    out = []

    def rec(node, seen, path):
        if node == src:
            out.append(list(path))
            return
        for nxt, ei in adj.get(node, []):
            if nxt not in seen:
                path.append((node, nxt, ei))
                rec(nxt, seen | {nxt}, path)
                path.pop()
    rec(dst, {dst}, [])
    return out


def edge_sides(desc, ei, left, right):
    e = desc["edges"][ei]
    if e["a"] == left and e["b"] == right:
        return e["cols_a"], e["cols_b"]
    return e["cols_b"], e["cols_a"]


def edge_shape_from(desc, ei, left):
    """The join shape as seen from the receiving (left) table."""
    e = desc["edges"][ei]
    cl, cr = edge_sides(desc, ei, left, e["b"] if e["a"] == left else e["a"])
    if len(cl) == len(cr):
        return "1-1" if len(cl) == 1 else "n-n"
    return "1-n" if len(cl) == 1 else "n-1"


def propagate(desc, path, src_mask):
    """Expected flat mask at the head of `path` (list of (node, next, edge) ending at the source)."""
    mask = src_mask
    for node, nxt, ei in reversed(path):
        cl, cr = edge_sides(desc, ei, node, nxt)
        mask = hop(desc["tables"][node], cl, desc["tables"][nxt], cr, mask)
    return mask


# ---------------------------------------------------------------- real objects
class Built:
    def __init__(self, desc):
        self.desc = desc
        self.desc_hash = stable_hash(desc, 16)
        self.datas = []
        for t, tab in enumerate(desc["tables"]):
            d = Data(label="t%d" % t)
            shape = tuple(tab["shape"])
            d.add_component(np.array(tab["v"], dtype=float).reshape(shape), "v")
            for name, col in tab["cols"].items():
                self.add_key_column(d, name, col, shape)
            self.datas.append(d)
            nel = int(np.prod(shape))
            d.add_component(np.array(["x", "yy"] * ((nel + 1) // 2))[:nel].reshape(shape), "sv")   # only used by fault queries
        self.faults_so_far = 0
        self.rejoined_edge = None
        self.foreign = Data(label="foreign", z=np.array([1.0, 2.0, 3.0]))
        self.dc = DataCollection(list(self.datas) + [self.foreign]) if desc["in_collection"] else None
        self.link_x = None
        if self.dc is not None and desc.get("link_source") is not None:
            # a selection defined on another dataset's attribute that the source table reaches through a component link
            self.linked = Data(label="linked", x=np.array([5.0, 6.0, 7.0, 8.0]))
            self.dc.append(self.linked)
            self.link_x = self.linked.id["x"]
            self.dc.add_link(LinkSame(self.link_x, self.datas[desc["link_source"]].id["v"]))
        self.joinlinks = {}
        for ei, e in enumerate(desc["edges"]):
            if e["via"] == "JoinLink":
                jl = self.make_joinlink(e, e["caller"])
                self.dc.add_link(jl)
                self.joinlinks[ei] = jl
                continue
            self.join(e)

    def make_joinlink(self, e, first_side):
        A, B = self.datas[e["a"]], self.datas[e["b"]]
        ca, cb = self.cid(e["a"], e["cols_a"][0]), self.cid(e["b"], e["cols_b"][0])
        if first_side == "a":
            return JoinLink(cids1=[ca], cids2=[cb], data1=A, data2=B)
        return JoinLink(cids1=[cb], cids2=[ca], data1=B, data2=A)

    def join(self, e):
        A, B = self.datas[e["a"]], self.datas[e["b"]]

        def ids(t, names):
            special = any(self.desc["tables"][t]["cols"][n].get("key_kind") == "pixel" for n in names)
            if e["ids"] == "cids" or special:
                out = tuple(self.cid(t, n) for n in names)
            else:
                out = tuple(names)
            return out[0] if len(out) == 1 and e["single_as_scalar"] else out
        if e["caller"] == "a":
            A.join_on_key(B, ids(e["a"], e["cols_a"]), ids(e["b"], e["cols_b"]))
        else:
            B.join_on_key(A, ids(e["b"], e["cols_b"]), ids(e["a"], e["cols_a"]))

    @staticmethod
    def add_key_column(d, name, col, shape):
        kind = col.get("key_kind", "main")
        if kind == "pixel":
            return
        if kind == "derived":
            d.add_component(column_array(col, shape), name + "_base")
            d.add_component_link(d.id[name + "_base"] * 1, name)
        else:
            d.add_component(column_array(col, shape), name)

    def cid(self, t, name):
        col = self.desc["tables"][t]["cols"][name]
        d = self.datas[t]
        if col.get("key_kind") == "pixel":
            return d.pixel_component_ids[0]
        return d.id[name]

    def state(self, src, sel):
        if src == "foreign":
            return self.foreign.id["z"] > 1.5
        d = self.datas[src]
        if sel["op"] == "fault":
            n = d.size
            if sel["fault"] == "str_gt_number":
                return d.id["sv"] > 3
            if sel["fault"] == "element_out_of_range":
                return ElementSubsetState(indices=[n + 5, n + 9], data=d)
            if sel["fault"] == "mask_wrong_shape":
                return MaskSubsetState(np.ones(n + 2, dtype=bool), d.pixel_component_ids)
            raise ValueError(sel)
        v = self.link_x if sel.get("via_link") else d.id["v"]
        op = sel["op"]
        if op == "not_gt":
            return ~(v > sel["thr"])
        if op == "sv_eq":
            return d.id["sv"] == sel["value"]
        if op == "range_state":
            return RangeSubsetState(sel["lo"], sel["hi"], att=v)
        if op == "gt":
            return v > sel["thr"]
        if op == "range":
            return (v > sel["lo"]) & (v < sel["hi"])
        if op == "or":
            return (v < sel["lt"]) | (v > sel["gt"])
        if op == "empty":
            return v > 1e9
        if op == "all":
            return v > -1e9
        if op == "key_eq":
            return self.cid(src, sel["col"]) == sel["value"]
        raise ValueError(op)


def observe(data, state, view, ntables):
    """('mask', array) | ('incompatible',) | ('exception', name) - the real call, with the depth monitor armed."""
    _Monitor.limit = ntables + 1
    _Monitor.depth = 0
    _Monitor.max_seen = 0
    try:
        if view is None:
            m = data.get_mask(state)
        else:
            m = data.get_mask(state, view=view)
        _Monitor.last_container = type(m).__name__
        return ("mask", np.asarray(m))
    except IncompatibleAttribute:
        return ("incompatible",)
    except DepthExceeded:
        return ("exception", "recursion_deeper_than_number_of_tables")
    except RecursionError:
        return ("exception", "RecursionError")
    except Exception as exc:  # noqa
        return ("exception", type(exc).__name__)
    finally:
        _Monitor.limit = 0
        _Monitor.depth = 0


def observe_subset(data, state, view, ntables):
    """the same question asked the way a viewer asks it: through a Subset of the table"""
    sub = data.new_subset()
    try:
        sub.subset_state = state
        _Monitor.limit = ntables + 1
        _Monitor.depth = 0
        try:
            m = sub.to_mask(view) if view is not None else sub.to_mask()
            _Monitor.last_container = type(m).__name__
            return ("mask", np.asarray(m))
        except IncompatibleAttribute:
            return ("incompatible",)
        except DepthExceeded:
            return ("exception", "recursion_deeper_than_number_of_tables")
        except Exception as exc:  # noqa
            return ("exception", type(exc).__name__)
        finally:
            _Monitor.limit = 0
            _Monitor.depth = 0
    finally:
        try:
            sub.delete()
        except Exception:  # noqa
            pass


class _Reader(HubListener):
    def __init__(self):
        self.result = None


def group_query(ctx, b, desc, adj, phase, s, sel, rng):
    """A subset group of the collection gets the selection; a hub listener reads every table's subset mask from
    INSIDE the first SubsetUpdateMessage delivery (re-entrant read while the change is being broadcast), and the
    masks are read again afterwards."""
    nt = len(desc["tables"])
    state = b.state(s, sel)
    src_mask = select_rows(desc["tables"][s], sel)
    reader = _Reader()
    grp = b.dc.new_subset_group(label="g")
    by_table = {}
    for sub in grp.subsets:
        for t, d in enumerate(b.datas):
            if sub.data is d:
                by_table[t] = sub

    def read_all():
        out = {}
        for t, sub in by_table.items():
            _Monitor.limit, _Monitor.depth = nt + 1, 0
            try:
                out[t] = ("mask", np.asarray(sub.to_mask()))
            except IncompatibleAttribute:
                out[t] = ("incompatible",)
            except DepthExceeded:
                out[t] = ("exception", "recursion_deeper_than_number_of_tables")
            except Exception as exc:  # noqa
                out[t] = ("exception", type(exc).__name__)
            finally:
                _Monitor.limit, _Monitor.depth = 0, 0
        return out

    def handler(msg):
        if reader.result is None and msg.subset in list(by_table.values()):
            reader.result = read_all()
    b.dc.hub.subscribe(reader, SubsetUpdateMessage, handler=handler)
    try:
        grp.subset_state = state
        after = read_all()
    finally:
        b.dc.hub.unsubscribe_all(reader)
        b.dc.remove_subset_group(grp)
    ctx.count("group_queries")
    if reader.result is None:
        ctx.count("group_query_no_message_seen")
    for where, res in (("in_handler", reader.result or {}), ("after_broadcast", after)):
        for t, got in res.items():
            tab = desc["tables"][t]
            if t == s:
                exp_set = [src_mask]
            else:
                paths = simple_paths(adj, s, t)
                exp_set = []
                for p_ in paths:
                    m = propagate(desc, p_, src_mask)
                    if not any(np.array_equal(m, o) for o in exp_set):
                        exp_set.append(m)
                if not paths:
                    exp_set = []          # nothing can evaluate it: Subset.to_mask lets IncompatibleAttribute through
            ctx.evaluation([b.desc_hash, phase, "group", where, s, sel, t], nontrivial=any(0 < int(m.sum()) < len(m) for m in exp_set))
            ctx.count("eval_group_" + where)
            if got[0] == "mask" and any(same_array(got[1].ravel(), m) for m in exp_set):
                continue
            if not exp_set and got[0] == "incompatible":
                ctx.count("eval_group_expected_incompatible")
                continue
            if _graph_has(desc, lambda c: c["dtype"] == "object" or c.get("storage") == "dask") or \
                    any(edge_lossy(desc, e_) for e_ in desc["edges"]):
                ctx.count("group_mismatch_on_graph_with_object_or_dask_key_not_reported")
                continue
            ctx.violation({"kind": "subset_group_mask_mismatch", "where": where, "got": got[0], "phase": phase,
                           "exception": got[1] if got[0] == "exception" else None, "topology": desc["topology"],
                           "target_is_source": t == s, "join_path_exists": t == s or bool(simple_paths(adj, s, t))},
                          {"graph": desc, "source": s, "selection": sel, "target": t, "observed": got,
                           "expected_any_of": [m.astype(int).tolist() for m in exp_set]})


def _graph_has(desc, pred):
    return any(pred(c) for tab in desc["tables"] for c in tab["cols"].values())


def diff_kind(got, exp):
    got = np.asarray(got).astype(bool).ravel()
    exp = np.asarray(exp).astype(bool).ravel()
    if got.shape != exp.shape:
        return "shape"
    missing = bool(np.any(exp & ~got))
    extra = bool(np.any(got & ~exp))
    return "missing+extra" if (missing and extra) else ("missing" if missing else ("extra" if extra else "none"))


def sel_class(mask):
    n = int(np.sum(mask))
    return "empty" if n == 0 else ("all" if n == len(mask) else "partial")


def sanitize_columns(desc):
    """dask-backed key columns only in 1-d tables; graphs with a cycle get plain columns (no object dtype, no dask)"""
    for tab in desc["tables"]:
        for c in tab["cols"].values():
            if len(tab["shape"]) != 1 or desc["topology"] == "cycle":
                c["storage"] = "numpy"
            if desc["topology"] == "cycle" and c["dtype"] == "object":
                c["dtype"] = "<U3"
            if desc["topology"] == "cycle" and not is_str(c) and np.dtype(c["dtype"]).kind in "iu":
                c["values"] = [v if abs(v) <= 2 ** 53 else 3 for v in c["values"]]   # no lossy int/float pairs on cycles


def rejoin(ctx, b, desc, ei, rng):
    """join_on_key called AGAIN for an already joined pair, with new key columns and possibly another shape: the later
    call defines the join (both directions)."""
    e = desc["edges"][ei]
    ta, tb = desc["tables"][e["a"]], desc["tables"][e["b"]]
    shape = rng.choice(SHAPES)
    pairing = "same" if desc["topology"] == "cycle" else rng.choice(PAIRINGS)
    cols_a, cols_b = gen_edge_columns(rng, len(ta["v"]), len(tb["v"]), shape, pairing,
                                      pool_size=rng.choice([3, 5, 9]) if desc.get("large") else None)
    names = {"a": [], "b": []}
    for side, tab, cols in (("a", ta, cols_a), ("b", tb, cols_b)):
        for i, c in enumerate(cols):
            name = "r%d_%d" % (ei, i)
            tab["cols"][name] = c
            names[side].append(name)
    sanitize_columns(desc)
    for side, tab, t in (("a", ta, e["a"]), ("b", tb, e["b"])):
        for name in names[side]:
            b.add_key_column(b.datas[t], name, tab["cols"][name], tuple(tab["shape"]))
    e.update(cols_a=names["a"], cols_b=names["b"], shape=shape, caller=rng.choice(["a", "b"]),
             dtype_pair=edge_class([ta["cols"][n] for n in names["a"]], [tb["cols"][n] for n in names["b"]]))
    b.join(e)
    b.rejoined_edge = ei
    b.desc_hash = stable_hash(desc, 16)


def run_graph(ctx, desc, rng):
    b = Built(desc)
    nt = len(desc["tables"])
    live = list(range(len(desc["edges"])))
    phases = [("initial", None, None)]
    removable = sorted(b.joinlinks)
    if removable and rng.random() < 0.75:
        ei = rng.choice(removable)
        phases.append(("after_joinlink_removed", ei, rng.choice(["same_object", "equal_object", "flipped_equal_object"])))
        if rng.random() < 0.5:
            phases.append(("after_joinlink_readded", ei, None))
    rejoinable = [i for i, e in enumerate(desc["edges"]) if e["via"] == "join_on_key"]
    if rejoinable and rng.random() < 0.3:
        phases.append(("after_rejoin", rng.choice(rejoinable), None))
    ctx.count("graphs")
    ctx.count("topology:" + desc["topology"])
    for e in desc["edges"]:
        ctx.count("edge_shape:" + e["shape"])
        ctx.count("edge_dtype_pair:" + e["dtype_pair"])
        ctx.count("edge_shape_dtype:%s:%s" % (e["shape"], e["dtype_pair"]))
        ctx.count("edge_via:" + e["via"])
    for tab in desc["tables"]:
        if len(tab["v"]) == 0:
            ctx.count("tables_with_zero_rows")
        for c in tab["cols"].values():
            ctx.count("column_layout:" + c.get("layout", "contiguous"))
            ctx.count("column_storage:" + c.get("storage", "numpy"))
            ctx.count("column_key_kind:" + c.get("key_kind", "main"))
            ctx.count("column_dtype:" + c["dtype"])
            ctx.count("column_value_pool:" + c.get("scale", "unit"))
    for phase, edge, how in phases:
        try:
            if phase == "after_joinlink_removed":
                e = desc["edges"][edge]
                obj = b.joinlinks[edge]
                if how == "equal_object":
                    obj = b.make_joinlink(e, e["caller"])
                elif how == "flipped_equal_object":
                    obj = b.make_joinlink(e, "b" if e["caller"] == "a" else "a")
                b.dc.remove_link(obj)
                live.remove(edge)
                ctx.count("joinlink_removals")
                ctx.count("joinlink_removed_by:" + how)
            elif phase == "after_joinlink_readded":
                e = desc["edges"][edge]
                e["caller"] = rng.choice(["a", "b"])
                jl = b.make_joinlink(e, e["caller"])
                b.dc.add_link(jl)
                b.joinlinks[edge] = jl
                live.append(edge)
                ctx.count("joinlink_readded")
            elif phase == "after_rejoin":
                rejoin(ctx, b, desc, edge, rng)
                ctx.count("rejoined_edges")
        except Exception as exc:  # noqa
            ctx.violation({"kind": "exception_in_join_history_step", "phase": phase, "how": how, "exception": type(exc).__name__},
                          {"graph": desc, "edge": edge, "error": repr(exc)[:300]})
            return
        adj = adjacency(desc, live)
        cyclic = len(live) >= 1 and _has_cycle(nt, [desc["edges"][ei] for ei in live])
        # query history: every (source, target) pair once without a view, some with views, plus foreign sources
        queries = []
        sources = list(range(nt))
        rng.shuffle(sources)
        large = desc.get("large", False)
        sels = []
        if phase == "after_rejoin":
            ends = [desc["edges"][edge]["a"], desc["edges"][edge]["b"]]
            sources = ends + [x for x in sources if x not in ends]
        for s in sources[: (2 if nt <= 3 else 3)]:
            for _rep in range(2 if large else 1):
                sel = gen_selection(rng, desc["tables"][s], large)
                if b.link_x is not None and s == desc.get("link_source") and sel["op"] in ("gt", "range", "or", "not_gt", "range_state") \
                        and rng.random() < 0.7:
                    sel["via_link"] = True
                sels.append((s, sel))
                for t in range(nt):
                    if t != s:
                        queries.append((s, sel, t, None))
                        if rng.random() < (0.25 if large else 0.5):
                            queries.append((s, sel, t, rng.choice(ALL_VIEW_KINDS)))
        # faults: selections whose evaluation on their own table raises something other than IncompatibleAttribute,
        # asked through the joins and interleaved with the valid ones
        if rng.random() < 0.5:
            for _f in range(rng.randint(1, 3)):
                s, t = rng.sample(range(nt), 2)
                queries.append((s, {"op": "fault", "fault": rng.choice(FAULTS)}, t, None if rng.random() < 0.8 else
                                rng.choice(ALL_VIEW_KINDS)))
        for t in range(nt):
            if rng.random() < 0.6:
                queries.append(("foreign", None, t, None if rng.random() < 0.7 else rng.choice(ALL_VIEW_KINDS)))
        rng.shuffle(queries)
        for (s, sel, t, vkind) in queries:
            one_query(ctx, b, desc, adj, cyclic, phase, s, sel, t, vkind, rng)
        if b.dc is not None and sels and rng.random() < 0.35:
            s, sel = rng.choice(sels)
            group_query(ctx, b, desc, adj, phase, s, sel, rng)


FAULTS = ["str_gt_number", "element_out_of_range", "element_out_of_range", "mask_wrong_shape"]


def fault_query(ctx, b, desc, base_sig, fp, detail, s, sel, t, view, paths):
    nt = len(desc["tables"])
    state = b.state(s, sel)
    own = observe(b.datas[s], state, None, nt)      # join-free evaluation on the selection's own table
    got = observe(b.datas[t], state, view, nt)
    b.faults_so_far += 1
    ctx.count("fault_queries")
    ctx.count("fault:" + sel["fault"])
    if not paths:
        ctx.count("fault_without_join_path:" + got[0])
        return
    if len(paths[0]) >= 2:
        ctx.count("fault_through_chain")
    if sel["fault"] == "mask_wrong_shape" or own[0] != "exception":
        # not a fault of the table's own evaluation (glue hands a mis-shaped mask through): outcome only tallied
        ctx.count("fault_outcome_tallied:%s" % (got[1] if got[0] == "exception" else got[0]))
        return
    ctx.evaluation(fp, nontrivial=True)
    if got == own:
        ctx.count("fault_surfaced_same_exception")
        ctx.count("fault_surfaced:" + own[1])
    else:
        ctx.violation(dict(base_sig, kind="fault_outcome_differs_from_join_free_evaluation", fault=sel["fault"],
                           expected_exception=own[1], got=got[0], exception=got[1] if got[0] == "exception" else None),
                      detail(observed=got, join_free=own))


def lossy_pair(ca, cb):
    """the two key columns hold a pair of numbers that differ by value but are equal after numpy's promotion of both
    columns to float64 (an integer beyond +-2**53 against a float column, or uint64 against a signed integer column)"""
    if is_str(ca) or is_str(cb):
        return False
    da, db = np.dtype(ca["dtype"]), np.dtype(cb["dtype"])
    if np.result_type(da, db).kind != "f":
        return False
    ua, ub = set(ca["values"]), set(cb["values"])
    big = [v for v in ua | ub if isinstance(v, int) and abs(v) > 2 ** 53]
    if not big:
        return False
    return any(x != y and float(x) == float(y) for x in ua for y in ub)


def edge_lossy(desc, e):
    ca = [desc["tables"][e["a"]]["cols"][n] for n in e["cols_a"]]
    cb = [desc["tables"][e["b"]]["cols"][n] for n in e["cols_b"]]
    if len(ca) == len(cb):
        pairs = list(zip(ca, cb))
    elif len(ca) == 1:
        pairs = [(ca[0], x) for x in cb]
    else:
        pairs = [(x, cb[0]) for x in ca]
    return any(lossy_pair(x, y) for x, y in pairs)


def _edge_has(desc, e, pred):
    return any(pred(desc["tables"][side]["cols"][c]) for side, names in ((e["a"], e["cols_a"]), (e["b"], e["cols_b"]))
               for c in names)


def _neg_int_key(desc, e):
    for side, names in ((e["a"], e["cols_a"]), (e["b"], e["cols_b"])):
        for c in names:
            col = desc["tables"][side]["cols"][c]
            if np.dtype(col["dtype"]).kind == "i" and any(v < 0 for v in col["values"]):
                return True
    return False


def _has_cycle(nt, edges):
    parent = list(range(nt))

    def find(x):
        while parent[x] != x:
            x = parent[x]
        return x
    for e in edges:
        ra, rb = find(e["a"]), find(e["b"])
        if ra == rb:
            return True
        parent[ra] = rb
    return False


def one_query(ctx, b, desc, adj, cyclic, phase, s, sel, t, vkind, rng):
    nt = len(desc["tables"])
    T = b.datas[t]
    tshape = tuple(desc["tables"][t]["shape"])
    if vkind in NEG_VIEW_KINDS and _graph_has(desc, lambda c: c.get("key_kind") == "pixel"):
        vkind = "index_arrays"     # pixel attributes are computed from the index values: negative indices are outside C04's domain
    if vkind and int(np.prod(tshape)) == 0 and vkind not in ("ellipsis", "bare_slice", "slice_tuple_full",
                                                             "empty_slice", "slice_tuple_short"):
        vkind = "slice_tuple_full"          # integer / index-array views do not exist on a zero-row table
    view = make_view_ext(rng, tshape, vkind) if vkind else None
    vdesc = describe_view(view)
    large = desc.get("large", False)
    base_sig = {"topology": desc["topology"], "phase": phase, "view_kind": vkind or "none", "in_collection": desc["in_collection"],
                "after_fault": b.faults_so_far > 0, "large_tables": large,
                "selection_through_link": bool(sel and sel.get("via_link"))}
    paths = [] if s == "foreign" else simple_paths(adj, s, t)
    fp = [b.desc_hash, phase, s, sel, t, vdesc]
    detail = lambda **kw: dict({"graph": desc, "phase": phase, "source": s, "selection": sel, "target": t, "view": vdesc}, **kw)
    if sel is not None and sel["op"] == "fault":
        fault_query(ctx, b, desc, base_sig, fp, detail, s, sel, t, view, paths)
        return
    state = b.state(s, sel)

    if not paths:
        # nothing can evaluate the selection for this table: IncompatibleAttribute, on cycles too
        got = observe(T, state, view, nt)
        ctx.evaluation(fp, nontrivial=nt >= 3)
        ctx.count("eval_expected_incompatible")
        if cyclic:
            ctx.count("eval_expected_incompatible_on_cyclic_graph")
        if phase != "initial":
            ctx.count("eval_after_joinlink_removed")
        if got[0] != "incompatible":
            sig = dict(base_sig, kind="expected_incompatible", got=got[0], cyclic=cyclic,
                       exception=got[1] if got[0] == "exception" else None,
                       source="foreign" if s == "foreign" else "unjoined_table")
            ctx.violation(sig, detail(observed=got))
        return

    src_tab = desc["tables"][s]
    src_mask = select_rows(src_tab, sel)
    # the source's own answer must be the plain selection (otherwise this is not a join question)
    own = observe(b.datas[s], state, None, nt)
    if own[0] != "mask" or not same_array(own[1].ravel(), src_mask):
        ctx.count("source_selection_deviates_skipped")
        return
    exp_set = []
    for p in paths:
        m = propagate(desc, p, src_mask)
        if not any(np.array_equal(m, o) for o in exp_set):
            exp_set.append(m)
    route = "subset" if rng.random() < 0.2 else "get_mask"
    got = observe(T, state, view, nt) if route == "get_mask" else observe_subset(T, state, view, nt)
    ctx.count("eval_route:" + route)
    if sel.get("via_link"):
        ctx.count("eval_selection_defined_through_component_link")
    ctx.count("eval_selection_op:" + sel["op"])
    nontrivial = any(0 < int(m.sum()) < len(m) for m in exp_set)
    ctx.evaluation(fp, nontrivial=nontrivial)
    first = paths[0]
    hop_edge = first[0][2]
    hshape = edge_shape_from(desc, hop_edge, t)
    hclass = desc["edges"][hop_edge]["dtype_pair"]
    ctx.count("eval_mask")
    if len(paths) == 1 and edge_lossy(desc, desc["edges"][hop_edge]):
        ctx.count("eval_int_above_2p53_compared_with_float_column")
        ctx.count("eval_int_above_2p53_compared_with_float_column:" + hshape)
    if hclass.startswith("mixed_columns"):
        ctx.count("eval_mixed_columns")
        ctx.count("eval_mixed_columns:%s:%s" % (hclass.split(":")[1], hshape))
    if phase == "after_rejoin" and len(first) == 1 and first[0][2] == b.rejoined_edge:
        ctx.count("eval_after_rejoin_over_the_rejoined_edge:" + ("a_reads_b" if t == desc["edges"][b.rejoined_edge]["a"] else "b_reads_a"))
    if b.faults_so_far:
        ctx.count("eval_mask_after_fault")
        if len(first) >= 2:
            ctx.count("eval_mask_after_fault_through_chain")
    if large:
        nsel = int(src_mask.sum())
        ctx.count("eval_large")
        ctx.count("eval_large_shape:" + hshape)
        ctx.count("eval_large_selected:" + ("one" if nsel == 1 else "all" if nsel == len(src_mask) else
                                            "20_or_more" if nsel >= 20 else "few"))
        if hshape == "n-n" and nsel >= 25:
            ctx.count("eval_large_nn_many_selected_duplicated_keys")
        if hshape == "1-1":
            e_ = desc["edges"][hop_edge]
            cl_, cr_ = edge_sides(desc, hop_edge, first[0][0], first[0][1])
            lcol = desc["tables"][first[0][0]]["cols"][cl_[0]]
            rcol = desc["tables"][first[0][1]]["cols"][cr_[0]]
            up_mask = propagate(desc, first[1:], src_mask) if len(first) >= 2 else src_mask
            selected = {norm(v) for v, m in zip(rcol["values"], up_mask) if m}
            seen, dup_unselected, dup_selected = set(), False, False
            for v in lcol["values"]:
                k_ = norm(v)
                if k_ in seen:
                    if k_ in selected:
                        dup_selected = True
                    else:
                        dup_unselected = True
                seen.add(k_)
            if len(selected) >= 14 and dup_unselected and dup_selected:
                kind_ = "str" if is_str(lcol) else ("float" if np.dtype(lcol["dtype"]).kind == "f" else "int")
                ctx.count("eval_large_11_many_distinct_selected_and_duplicated_unselected_left_keys")
                ctx.count("eval_large_11_many_distinct_selected_and_duplicated_unselected_left_keys:" + kind_)
                if len(first) >= 2:
                    ctx.count("eval_large_11_many_distinct_selected_and_duplicated_unselected_left_keys:through_chain")
    ctx.count("eval_hops:%d" % min(len(first), 3))
    if len(paths) == 1:
        ctx.count("eval_shape:" + hshape)
        ctx.count("eval_shape_dtype:%s:%s" % (hshape, hclass))
    else:
        ctx.count("eval_multiple_paths_any_accepted")
    ctx.count("eval_view:" + (vkind or "none"))
    ctx.count("eval_selection:" + sel_class(src_mask))
    if phase != "initial":
        ctx.count("eval_after_joinlink_removed")
    if len(first) >= 2:
        ctx.count("eval_through_chain")

    def expected_view(m):
        return apply_view(m.reshape(tshape), view)

    if got[0] == "mask" and any(same_array(got[1], expected_view(m)) and got[1].dtype == bool for m in exp_set):
        if rng.random() < 0.002:
            ctx.sample({"topology": desc["topology"], "hop_shape": hshape, "dtype_pair": hclass, "view": vdesc,
                        "expected": exp_set[0].astype(int).tolist(), "observed": np.asarray(got[1]).astype(int).tolist()})
        return

    if len(paths) > 1:
        nn_str = False
        for _node, _nxt, _ei in [p[0] for p in paths]:
            _e = desc["edges"][_ei]
            if edge_shape_from(desc, _ei, t) == "n-n" and any(
                    is_str(desc["tables"][_e["a"]]["cols"][c]) for c in _e["cols_a"]):
                nn_str = True
        sig = dict(base_sig, kind="mask_mismatch_on_cyclic_graph" if got[0] == "mask" else "failed_on_cyclic_graph",
                   got=got[0], exception=got[1] if got[0] == "exception" else None,
                   scalar_view=np.ndim(expected_view(exp_set[0])) == 0, target_has_nn_edge_with_str_key=nn_str)
        ctx.violation(sig, detail(observed=got, expected_any_of=[m.astype(int).tolist() for m in exp_set]))
        return

    # unique path: attribute to the first hop whose output is not the hop function of its observed input
    node, nxt, ei = first[0]
    upstream_container = None
    if len(first) >= 2:
        up = observe(b.datas[nxt], state, None, nt)
        upstream_container = _Monitor.last_container if up[0] == "mask" else None
        if up[0] == "mask" and up[1].dtype == bool and up[1].size == len(desc["tables"][nxt]["v"]):
            cl, cr = edge_sides(desc, ei, node, nxt)
            local = hop(desc["tables"][node], cl, desc["tables"][nxt], cr, up[1].ravel())
            exp_up = propagate(desc, first[1:], src_mask)
            if not np.array_equal(up[1].ravel(), exp_up):
                if got[0] == "mask" and same_array(got[1], expected_view(local)):
                    ctx.count("downstream_of_an_upstream_divergence_not_reported_again")
                    return
        elif up[0] != "mask":
            if got[0] == up[0]:
                ctx.count("downstream_of_an_upstream_divergence_not_reported_again")
                return
    exp = exp_set[0]
    e = desc["edges"][ei]
    str_key = any(is_str(desc["tables"][e["a"]]["cols"][c]) for c in e["cols_a"])
    sig = dict(base_sig, shape=hshape, dtype_pair=hclass, hops=min(len(first), 3), via=e["via"],
               selection=sel_class(src_mask), str_key=str_key, scalar_view=np.ndim(expected_view(exp_set[0])) == 0,
               neg_int_key=_neg_int_key(desc, e), object_key=_edge_has(desc, e, lambda c: c["dtype"] == "object"),
               dask_key=_edge_has(desc, e, lambda c: c.get("storage") == "dask"),
               upstream_mask_container=upstream_container, int_above_2p53_vs_float=edge_lossy(desc, e),
               upstream_single_row=len(first) >= 2 and len(desc["tables"][nxt]["v"]) == 1)
    if got[0] == "mask":
        ev = expected_view(exp)
        if got[1].dtype != bool:
            sig.update(kind="mask_not_boolean", error=str(got[1].dtype))
        else:
            sig.update(kind="mask_mismatch", error=diff_kind(got[1], ev) if np.shape(got[1]) == np.shape(ev) else "shape")
        ctx.violation(sig, detail(observed=got[1], expected=ev.astype(int).tolist(), expected_full=exp.astype(int).tolist()))
    elif got[0] == "incompatible":
        sig.update(kind="unexpected_incompatible")
        ctx.violation(sig, detail(expected_full=exp.astype(int).tolist()))
    else:
        sig.update(kind="exception", exception=got[1])
        ctx.violation(sig, detail(expected_full=exp.astype(int).tolist()))


# ---------------------------------------------------------------- driver interface
N_BLOCKS = {"quick": 256, "thorough": 16000}
PER_BLOCK = 9        # small graphs per block, plus one graph with large tables


def cases(tier, seed):
    for i in range(N_BLOCKS[tier]):
        yield ["graphs", i]


def run_case(ctx, case):
    if not _Monitor.installed:
        setup(ctx)
    for _ in range(PER_BLOCK):
        desc = gen_graph(ctx.rng, ctx.tier)
        run_graph(ctx, desc, ctx.rng)
    desc = gen_graph(ctx.rng, ctx.tier, large=True)
    run_graph(ctx, desc, ctx.rng)
    ctx.count("graphs_with_large_tables")


def floors(counters, tier):
    out = []
    for sh in SHAPES:
        if counters.get("eval_shape:" + sh, 0) < 800:
            out.append("fewer than 800 mask comparisons for join shape %s" % sh)
        for cl in PAIRING_CLASSES:
            if counters.get("eval_shape_dtype:%s:%s" % (sh, cl), 0) < 50:
                out.append("fewer than 50 mask comparisons for shape %s with dtype pairing %s" % (sh, cl))
    need = [("eval_through_chain", 1200), ("eval_expected_incompatible_on_cyclic_graph", 120),
            ("eval_expected_incompatible", 1500), ("eval_multiple_paths_any_accepted", 400),
            ("eval_after_joinlink_removed", 500), ("eval_selection:empty", 600), ("eval_selection:partial", 2000),
            ("joinlink_removals", 40), ("fault_surfaced_same_exception", 100), ("fault_through_chain", 40),
            ("eval_mask_after_fault", 1500), ("eval_mask_after_fault_through_chain", 300),
            ("eval_large", 500), ("eval_large_shape:n-n", 200), ("eval_large_nn_many_selected_duplicated_keys", 100),
            ("eval_large_selected:one", 30), ("eval_large_selected:all", 30),
            ("eval_large_11_many_distinct_selected_and_duplicated_unselected_left_keys:float", 35),
            ("eval_large_11_many_distinct_selected_and_duplicated_unselected_left_keys:str", 20),
            ("eval_large_11_many_distinct_selected_and_duplicated_unselected_left_keys:int", 15),
            ("eval_large_11_many_distinct_selected_and_duplicated_unselected_left_keys:through_chain", 10),
            # adversarial widening round
            ("column_layout:strided", 200), ("column_layout:reversed", 200), ("column_layout:broadcast", 200),
            ("column_layout:fortran", 200), ("column_layout:readonly", 200), ("column_storage:dask", 20),
            ("column_key_kind:pixel", 100), ("column_key_kind:derived", 80), ("tables_with_zero_rows", 40),
            ("column_value_pool:large", 200), ("column_value_pool:tiny", 100), ("column_value_pool:near_equal", 100),
            ("column_value_pool:extreme", 100), ("column_value_pool:prefix", 150), ("column_dtype:object", 100),
            ("eval_route:subset", 800), ("eval_group_in_handler", 400), ("eval_group_after_broadcast", 400),
            ("eval_selection_defined_through_component_link", 150), ("rejoined_edges", 120),
            ("joinlink_removed_by:same_object", 12), ("joinlink_removed_by:equal_object", 12),
            ("joinlink_removed_by:flipped_equal_object", 12), ("joinlink_readded", 20),
            ("eval_mixed_columns", 400), ("eval_after_rejoin_over_the_rejoined_edge:a_reads_b", 60),
            ("eval_after_rejoin_over_the_rejoined_edge:b_reads_a", 60),
            ("eval_selection_op:not_gt", 120), ("eval_selection_op:sv_eq", 120), ("eval_selection_op:range_state", 120)]
    for k, n in need:
        if counters.get(k, 0) < n:
            out.append("fewer than %d %s" % (n, k))
    for var in ("int_next_to_str", "big_ids_next_to_float", "int8_next_to_uint64", "str_widths_side_by_side"):
        for sh in ("1-n", "n-1"):
            if counters.get("eval_mixed_columns:%s:%s" % (var, sh), 0) < 25:
                out.append("fewer than 25 comparisons for %s joins with key columns %s" % (sh, var))
    for vk in ALL_VIEW_KINDS:
        if counters.get("eval_view:" + vk, 0) < 100:
            out.append("fewer than 100 comparisons with view kind %s" % vk)
    return out
