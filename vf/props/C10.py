"""C10 - statistics and histograms equal their definition.

Shape: differential check of the REAL `Data.compute_statistic` /
`Data.compute_histogram` (and of `IndexedData.compute_statistic`,
`ProfileLayerState.profile`, `HistogramLayerState.histogram`) against the
naive reference in vf/lib_C10_oracle.py.  Every case builds a small dataset
(NaN / inf / negative / duplicate values, int, categorical, derived, pixel,
world attributes), picks a query aimed at one of the special-cased paths
(chunk loop, minimal sub-array + view recombination + padding,
SliceSubsetState shortcut, unbroadcast shortcut, empty selections / views) and
compares value and shape.  Reference values and reference masks are built
from the raw arrays the dataset was made of, not from glue.
"""
import math

import numpy as np

from glue.core import Data, DataCollection
from glue.core.coordinates import AffineCoordinates, IdentityCoordinates
from glue.core.data_derived import IndexedData
from glue.core.subset import MaskSubsetState, RangeSubsetState, SliceSubsetState

from vf.common import SPECIAL, describe_view, injective_floats, make_view, rand_cats, rand_ints, rand_slice
from vf.lib_C10_oracle import STATS, close, hist_consistent, ref_histogram, ref_statistic

ID = "C10"
LEVEL = "exploration"
BUDGET_S = {"quick": 40.0, "thorough": 400.0}
SHARDS = {"quick": 16, "thorough": 16}
EXHAUSTIVE = {"quick": False, "thorough": False}

N_STAT_BLOCKS = {"quick": 192, "thorough": 3200}
N_HIST_BLOCKS = {"quick": 96, "thorough": 1600}
N_VIEWER_BLOCKS = {"quick": 32, "thorough": 320}
DATASETS_PER_BLOCK = 8
QUERIES_PER_DATASET = 8
GRID_SHAPES = [(3, 4), (4, 2), (2, 3, 2), (3, 1, 3), (2, 2, 2, 2)]
GRID_SELECTIONS = ["none", "ineq", "mask", "pixrange_kept", "pixrange_other", "empty", "not_slice", "or", "pix_roi"]

RULE = ("random cases in blocks: a dataset (1-4 dimensions, axis lengths 1-4 (thorough 1-5), float column with "
        "NaN/+-inf/negative/duplicate values, injective float, int, categorical (1-d), derived, pixel and world "
        "attributes) x a statistic query (6 statistics, percentiles 0..100, selection kind in none / inequality / "
        "SliceSubsetState (with steps) / pixel range / mask / empty / and / or / not, view kind in none / Ellipsis / bare "
        "slice / slice tuple / short tuple / int-slice mix / all-int / empty slice, axis in none / int / partial tuple / "
        "all axes / (), finite, positive, n_chunk_max from 1 up) or a histogram query (attribute kind, weights, range "
        "kind incl. reversed / data-valued ends / integer-aligned edges, 1-12 bins, linear or log, selection kind; one in "
        "five over two attributes); "
        "every dataset also carries float32 / uint8 / int8 / big-endian float and int attributes, a magnitude attribute "
        "(scale 1e-10 .. 1e12 with values agreeing to a relative 1e-9), its float column in a random memory layout "
        "(C, Fortran, transposed, strided, reversed, stride-0 broadcast) and - 1-d - labels sharing prefixes; one query in "
        "five passes numpy scalars for axis / percentile / n_chunk_max / bins / range, one in a hundred names the attribute by "
        "its label; views also as () and as a list of slices; "
        "plus history blocks (4-7 subset-state objects, incl. s & s, s | t and a copy, reused for ~26 statistics / "
        "histograms each, interleaved with raising calls and repeated calls, masks re-read every 5 steps), viewer-history "
        "blocks (one histogram layer and one profile layer whose settings and subset state change step by step, incl. a "
        "range end moved by a relative 1e-12 across a data value), big blocks (300 .. 5000 rows, chunk limits far below / "
        "at / above the size with selections leaving chunks empty), dask blocks (the float column as a chunked dask array), "
        "plus pixel-aligned blocks (2-3 datasets without coordinates whose pixel axes are linked by LinkSame up to an axis "
        "permutation - identity, swaps, 3-d cyclic - with masks, all six statistics (view None and with views, every axis "
        "kind) and histograms of one dataset under a SliceSubsetState / PixelSubsetState defined on the other), "
        "plus magnitude blocks (an attribute spanning three decades below each of 0.003, 0.5, 1, 50, 3e4, 1e8, 2.5e8, 7e10, "
        "1e12, histogrammed 1-d / 2-d / through the viewer layer in log and linear space over its own min/max or two of "
        "its values), plus a grid over 5 fixed shapes x every kept axis x every n_chunk_max 1..size+1 x 8 selection kinds x 6 "
        "statistics that drives the chunk loop, and viewer-layer cases (ProfileLayerState.profile, "
        "HistogramLayerState.histogram, IndexedData.compute_statistic). One evaluation per compared call; the "
        "fingerprint is the structural query (attribute kind, statistic, selection kind, view kind, axis kind, filters, "
        "chunking class, shape; for histograms attribute kind, weights, range kind, bins, log, selection kind); "
        "non-trivial = at least two values qualify and (for statistics) a selection, view, axis or chunk limit is in play.")
ASSUMPTIONS = ["the reference in vf/lib_C10_oracle.py (sort, fsum, linear-interpolation percentile, floor binning) is the definition",
               "values agree when within 1e-9 relative to the largest expected magnitude or - for results that cancel - to the largest magnitude among the values that went in; no absolute floor; float32 attributes reduced without an axis are held to 6e-6 (float32 rounding)",
               "percentiles are passed as Python numbers, np.int64 or np.float64 (a float32 percentile makes numpy interpolate with float32 weights)",
               "a value within 1e-7 bin widths of an interior histogram edge may be counted in either neighbouring bin; totals must be exact",
               "two-attribute histograms with a value on an interior edge of either axis are compared by total only (tallied)",
               "finite=False: infinite values are ordinary values (sum / mean / min / max compared; lanes mixing +inf and -inf for sum / mean, and medians / percentiles over infinities, are tallied and not compared); NaN counts as missing whenever a selection or positive=True is in play, while finite=False without either (plain reducers, NaN propagates) on data with NaN is outside the statement; log histograms with a non-positive range end, zero-width ranges, ranges narrower than 1e-3 of their ends' magnitude and non-finite weights are outside the statement: tallied, not compared",
               "views are the supported domain (None, Ellipsis, bare slice on 1-d, tuples of non-negative ints and positive-step slices); index arrays, boolean masks, negative indices/steps and negative axes are not generated",
               "world attributes use identity or diagonal affine coordinates only (coupled coordinates are C15's subject); their reference values are read from Data.get_data on the full array",
               "datasets have no zero-length axis (zero-size views are generated instead); datetime attributes and random_subset are not driven"]
ANCHORS = ["glue.core.data:Data.compute_statistic", "glue.core.data:Data.compute_histogram",
           "glue.utils.array:compute_statistic", "glue.utils.array:nansum_with_nan_for_empty",
           "glue.utils.array:iterate_chunks", "glue.utils.array:unbroadcast",
           "glue.core.subset:SliceSubsetState.to_mask", "glue.core.subset:SliceSubsetState.to_array",
           "glue.core.data_derived:IndexedData.compute_statistic",
           "glue.viewers.profile.state:ProfileLayerState.update_profile",
           "glue.viewers.histogram.state:HistogramLayerState.update_histogram"]

PERCENTILES = [0, 10, 25, 50, 99.5, 100]
STAT_VIEW_KINDS = ["none", "none", "none", "ellipsis", "bare_slice", "empty_tuple", "list_of_slices", "negative_bounds",
                   "negative_bounds", "slice_tuple_full",
                   "slice_tuple_full",
                   "slice_tuple_short", "int_slice_mix", "int_slice_mix", "all_int", "empty_slice"]


# ---------------------------------------------------------------- datasets
class DS:
    """A dataset together with the raw arrays it was built from (the oracle's inputs)."""


def rand_special_floats(rng, shape, p_special=0.45):
    n = int(np.prod(shape))
    vals = [rng.choice(SPECIAL) if rng.random() < p_special else round(rng.uniform(-3, 3), 3) for _ in range(n)]
    return np.array(vals, dtype=float).reshape(shape)


LAYOUTS = ["c_contiguous", "c_contiguous", "fortran_copy", "transposed_view", "strided_view", "reversed_view",
           "broadcast_stride0"]
MAG_SCALES = [1e-10, 1e-7, 1.0, 1e6, 1e12]


def in_layout(arr, layout):
    """The same values in another memory layout (what the dataset is handed; glue must not care)."""
    if layout == "fortran_copy":
        return np.asfortranarray(arr)
    if layout == "transposed_view":
        return np.ascontiguousarray(arr.T).T
    if layout == "strided_view":
        return np.repeat(arr, 2, axis=arr.ndim - 1)[..., ::2]
    if layout == "reversed_view":
        return np.ascontiguousarray(arr[::-1])[::-1]
    if layout == "broadcast_stride0":
        # every slab along axis 0 equal to the first one, stored once (stride 0, read-only)
        return np.broadcast_to(arr[:1].copy(), arr.shape)
    return arr.copy()


def add_variant_components(rng, ds):
    """dtype / byte-order / magnitude variants of the attributes (audit themes 1 and 3)."""
    d, shape = ds.data, ds.shape
    n = ds.size
    special32 = [-2.0, -0.5, 0.0, 0.5, 3.0, float("nan"), float("inf"), 16777217.0, 1e-10, 0.1]
    f4 = np.array([rng.choice(special32) if rng.random() < 0.4 else rng.uniform(-3, 3) for _ in range(n)],
                  dtype="float32").reshape(shape)
    u1 = np.array([rng.choice([0, 255, 200, 1, 128]) if rng.random() < 0.5 else rng.randint(0, 255) for _ in range(n)],
                  dtype="uint8").reshape(shape)
    i1 = np.array([rng.choice([-128, 127, 0, -1]) if rng.random() < 0.5 else rng.randint(-128, 127) for _ in range(n)],
                  dtype="int8").reshape(shape)
    be = np.array([rng.choice(SPECIAL) if rng.random() < 0.3 else round(rng.uniform(-3, 3), 3) for _ in range(n)],
                  dtype=">f8").reshape(shape)
    bi = np.array([rng.randint(-5, 9) for _ in range(n)], dtype=">i4").reshape(shape)
    scale = rng.choice(MAG_SCALES)
    base = [rng.choice([1.0, 1.0 + 1e-9, 1.0 - 1e-9, 0.5, 0.25, -1.0, 0.0, 1e-3]) if rng.random() < 0.6
            else rng.uniform(-1, 1) for _ in range(n)]
    mg = (np.array(base) * scale).reshape(shape)
    ds.mag_scale = scale
    vi = np.array([rng.choice([np.inf, np.inf, -np.inf, np.nan, 1.0, 2.5, -1.0, 0.0]) if rng.random() < 0.7
                   else round(rng.uniform(-3, 3), 2) for _ in range(n)]).reshape(shape)
    for name, arr, kind in (("vi", vi, "float_inf_rich"), ("f4", f4, "float32"), ("u1", u1, "uint8"), ("i1", i1, "int8"), ("be", be, "float_big_endian"),
                            ("bi", bi, "int_big_endian"), ("mg", mg, "float_magnitude")):
        d.add_component(arr.copy(), name)
        ds.raw[name] = np.array(arr, dtype=float)
        ds.kinds[name] = kind


def make_dataset(rng, tier, shape=None, coords="random", with_collection=False, variants=True):
    ds = DS()
    if shape is None:
        nd = rng.choice([1, 1, 2, 2, 2, 3, 3, 3, 4])
        top = 4 if tier == "quick" else 5
        shape = tuple(rng.choice([1] + list(range(2, top + 1)) * 2) for _ in range(nd))
        if nd == 1:
            shape = (rng.randint(1, 9),)
    nd = len(shape)
    if coords == "random":
        coords = rng.choice(["none", "none", "identity", "diagonal"])
    kw = {}
    if coords == "identity":
        kw["coords"] = IdentityCoordinates(n_dim=nd)
    elif coords == "diagonal":
        m = np.eye(nd + 1)
        for i in range(nd):
            m[i, i] = rng.choice([0.5, 1.5, 2.0, -2.0])
            m[i, nd] = rng.choice([0.0, 1.0, -2.5])
        kw["coords"] = AffineCoordinates(m)
    d = Data(label="d", **kw)
    ds.data, ds.shape, ds.nd, ds.size, ds.coords = d, shape, nd, int(np.prod(shape)), coords
    ds.raw = {}
    ds.raw["v"] = rand_special_floats(rng, shape)
    ds.raw["w"] = injective_floats(rng, shape)
    ds.raw["i"] = rand_ints(rng, shape)
    ds.layout_v = rng.choice(LAYOUTS) if variants else "c_contiguous"
    d.add_component(in_layout(ds.raw["v"], ds.layout_v), "v")
    if ds.layout_v == "broadcast_stride0":
        ds.raw["v"] = np.array(d.get_data(d.id["v"]), dtype=float)
    for name in ("w", "i"):
        d.add_component(ds.raw[name].copy(), name)
    ds.kinds = {"v": "float", "w": "float_injective", "i": "int"}
    add_variant_components(rng, ds)
    if nd == 1:
        labels = rand_cats(rng, shape[0], cats=rng.choice([("a", "b", "c", "dd"), ("a", "ab", "abc", "b")]))
        d.add_component(labels, "c")
        cats = sorted(set(labels.tolist()))
        ds.raw["c"] = np.array([cats.index(x) for x in labels.tolist()], dtype=float)
        ds.kinds["c"] = "categorical"
    d.add_component_link(d.id["w"] * 2 + d.id["v"], "der")
    ds.raw["der"] = ds.raw["w"] * 2 + ds.raw["v"]
    ds.kinds["der"] = "derived"
    grid = np.indices(shape)
    for k in range(nd):
        ds.raw["pix%d" % k] = grid[k].astype(float)
        ds.kinds["pix%d" % k] = "pixel"
    if coords != "none":
        for k in range(nd):
            name = "world%d" % k
            ds.raw[name] = np.array(np.broadcast_to(d.get_data(d.world_component_ids[k]), shape), dtype=float)
            ds.kinds[name] = "world"
    ds.dc = DataCollection([d]) if with_collection else None
    return ds


def cid_of(ds, name):
    d = ds.data
    if name.startswith("pix"):
        return d.pixel_component_ids[int(name[3:])]
    if name.startswith("world"):
        return d.world_component_ids[int(name[5:])]
    return d.id[name]


def pick_attr(rng, ds, allow=("v", "v", "v", "i", "w", "der", "c", "pix", "pix", "world", "f4", "u1", "i1", "be", "bi",
                                "mg", "mg", "vi", "vi")):
    while True:
        a = rng.choice(allow)
        if a == "c" and ds.nd != 1:
            continue
        if a == "world" and ds.coords == "none":
            continue
        if a in ("pix", "world"):
            a = "%s%d" % (a, rng.randrange(ds.nd))
        return a


# ---------------------------------------------------------------- selections
def stat_view(rng, shape, kind):
    """Like common.make_view for the slice-based kinds, but empty slices only now and then (the empty_slice kind and
    about one slice in eight), so that most views leave something to reduce."""
    nd = len(shape)
    sl = lambda n: rand_slice(rng, n, allow_empty=rng.random() < 0.12)
    if kind == "bare_slice":
        return sl(shape[0]) if nd == 1 else (sl(shape[0]),)
    if kind == "negative_bounds":
        # positive steps, start / stop counted from the end; integers mixed in; now and then fewer entries than axes
        def nb(n):
            k = rng.randint(1, n + 1)
            return rng.choice([slice(-k, None), slice(-k, None), slice(None, -1), slice(-k, -1), slice(-k, n), slice(1, -1),
                               slice(-n - 2, None), slice(-k, None, 1)])
        v = [nb(n) if rng.random() < 0.8 else (rng.randrange(n) if rng.random() < 0.5 else slice(None)) for n in shape]
        if not any(isinstance(x, slice) and x.start is not None and x.start < 0 for x in v):
            i = rng.randrange(nd)
            v[i] = slice(-rng.randint(1, shape[i]), None)
        if nd > 1 and rng.random() < 0.2:
            v = v[:rng.randint(1, nd - 1)]
        return tuple(v)
    if kind == "empty_tuple":
        return ()
    if kind == "list_of_slices":
        return [sl(n) for n in shape]
    if kind == "slice_tuple_full":
        return tuple(sl(n) for n in shape)
    if kind == "slice_tuple_short":
        return tuple(sl(shape[i]) for i in range(rng.randint(1, nd)))
    if kind == "int_slice_mix":
        v = [rng.randrange(n) if rng.random() < 0.5 else sl(n) for n in shape]
        if all(isinstance(x, int) for x in v) and nd > 1:
            v[rng.randrange(nd)] = slice(None)
        if not any(isinstance(x, int) for x in v):
            i = rng.randrange(nd)
            v[i] = rng.randrange(shape[i])
        return tuple(v)
    return make_view(rng, shape, kind)


def rand_state_slices(rng, shape, allow_short=True):
    out = []
    for s in shape:
        a = rng.randrange(0, s + 1)
        b = rng.randrange(0, s + 2)
        if rng.random() < 0.8 and a >= b:
            a, b = (b, a + 1)
        st = rng.choice([None, None, 1, 2])
        out.append(rng.choice([slice(None), slice(a, b, st), slice(a, None, st), slice(None, b, st)]))
    if allow_short and len(out) > 1 and rng.random() < 0.2:
        out = out[:rng.randint(1, len(out) - 1)]
    return out


def make_selection(rng, ds, kind, kept_axis=None):
    """Returns (subset_state, reference mask over the full shape, kind)."""
    d, shape = ds.data, ds.shape
    w = ds.raw["w"]
    if kind == "none":
        return None, np.ones(shape, bool)
    if kind == "ineq":
        t = float(rng.choice(w.ravel().tolist())) if rng.random() < 0.7 else round(rng.uniform(-6, 6), 2)
        op = rng.choice([">=", "<", ">"])
        if op == ">=":
            return d.id["w"] >= t, w >= t
        if op == "<":
            return d.id["w"] < t, w < t
        return d.id["w"] > t, w > t
    if kind == "empty":
        return d.id["w"] < -100, np.zeros(shape, bool)
    if kind == "slice_state":
        sl = rand_state_slices(rng, shape)
        m = np.zeros(shape, bool)
        m[tuple(sl)] = True
        return SliceSubsetState(d, list(sl)), m
    if kind in ("pixrange", "pixrange_kept", "pixrange_other"):
        if kind == "pixrange_kept" and kept_axis is not None:
            k = kept_axis
        elif kind == "pixrange_other" and kept_axis is not None and ds.nd > 1:
            k = rng.choice([a for a in range(ds.nd) if a != kept_axis])
        else:
            k = rng.randrange(ds.nd)
        lo = rng.choice([-0.5, 0.5, 1.0, 1.5, round(rng.uniform(-1, shape[k]), 2)])
        hi = lo + rng.choice([0.0, 0.5, 1.0, 2.0, 5.0])
        pk = ds.raw["pix%d" % k]
        return RangeSubsetState(lo, hi, d.pixel_component_ids[k]), (pk >= lo) & (pk <= hi)
    if kind == "pix_roi":
        # a rectangle on two pixel axes: on 3-d / 4-d data glue evaluates it on one plane and returns a BROADCAST mask
        if ds.nd < 2:
            return make_selection(rng, ds, "pixrange", kept_axis)
        from glue.core.roi import RectangularROI
        from glue.core.subset import RoiSubsetState
        a, b = rng.sample(range(ds.nd), 2)
        if kept_axis is not None and rng.random() < 0.5 and ds.nd > 2:
            a, b = rng.sample([k for k in range(ds.nd) if k != kept_axis], 2)
        lim = []
        for k in (a, b):
            lo = rng.choice([-0.5, 0.5, 1.5]) if shape[k] > 1 else -0.5
            lim.append((lo, lo + rng.choice([1.0, 2.0, 3.0, 9.0])))
        pa, pb = ds.raw["pix%d" % a], ds.raw["pix%d" % b]
        m = (pa > lim[0][0]) & (pa < lim[0][1]) & (pb > lim[1][0]) & (pb < lim[1][1])
        st = RoiSubsetState(xatt=d.pixel_component_ids[a], yatt=d.pixel_component_ids[b],
                            roi=RectangularROI(xmin=lim[0][0], xmax=lim[0][1], ymin=lim[1][0], ymax=lim[1][1]))
        return st, m
    if kind == "mask":
        p = rng.choice([0.1, 0.4, 0.8])
        m = np.array([rng.random() < p for _ in range(ds.size)]).reshape(shape)
        return MaskSubsetState(m.copy(), d.pixel_component_ids), m
    if kind == "not_slice":
        s, m = make_selection(rng, ds, "slice_state")
        return ~s, ~m
    if kind in ("and", "or"):
        a, ma = make_selection(rng, ds, rng.choice(["ineq", "pixrange", "mask", "slice_state"]))
        b, mb = make_selection(rng, ds, rng.choice(["ineq", "pixrange", "mask"]))
        return (a & b, ma & mb) if kind == "and" else (a | b, ma | mb)
    raise ValueError(kind)


SEL_KINDS = ["none", "none", "none", "ineq", "ineq", "ineq", "slice_state", "slice_state", "slice_state", "pix_roi", "pix_roi",
             "pix_roi", "pixrange",
             "pixrange", "mask", "mask", "mask", "empty", "not_slice", "not_slice", "and", "and", "or", "or"]


def checked_selection(ctx, rng, ds, kind, kept_axis=None):
    """Selection + reference mask; cross-checked against Data.get_mask on the full array (a disagreement would be a
    defect of the selection machinery or of this harness, not of C10: tallied and the case dropped)."""
    st, m = make_selection(rng, ds, kind, kept_axis)
    if st is not None:
        try:
            gm = np.asarray(ds.data.get_mask(st))
            ok = gm.shape == m.shape and bool(np.array_equal(gm, m))
        except Exception:
            ok = False
        if not ok:
            ctx.count("excluded_reference_mask_disagrees_with_get_mask")
            return None
    return st, m


# ---------------------------------------------------------------- statistic queries
def axis_choice(rng, vnd):
    """(axis argument, axis kind) valid for an array of vnd dimensions."""
    if vnd == 0:
        return rng.choice([(None, "none"), (None, "none"), ((), "empty_tuple")])
    r = rng.random()
    if r < 0.3:
        return None, "none"
    if r < 0.36:
        return (), "empty_tuple"
    if r < 0.55:
        a = rng.randrange(vnd)
        if vnd == 1:
            return rng.choice([(a, "all_axes"), ((a,), "all_axes")])
        return rng.choice([(a, "partial"), ((a,), "partial")])
    if r < 0.7:
        return tuple(range(vnd)), "all_axes"
    if vnd == 1:
        return (0,), "all_axes"
    k = rng.randint(1, vnd - 1)
    return tuple(sorted(rng.sample(range(vnd), k))), "partial"


def view_features(view, shape):
    if view is None or view is Ellipsis:
        return {"view_has_int": False, "view_all_int": False, "view_has_step": False, "view_has_negative_bound": False}
    items = view if isinstance(view, tuple) else (view,)
    nint = sum(1 for x in items if isinstance(x, (int, np.integer)))
    return {"view_has_int": nint > 0, "view_all_int": nint == len(shape),
            "view_has_negative_bound": any(isinstance(x, slice) and ((x.start is not None and x.start < 0) or
                                                                     (x.stop is not None and x.stop < 0)) for x in items),
            "view_has_step": any(isinstance(x, slice) and x.step not in (None, 1) for x in items)}


def describe_state(state):
    if isinstance(state, SliceSubsetState):
        return "SliceSubsetState(%s)" % describe_view(tuple(state.slices))
    return repr(state)[:200]


def chunk_class(ds, view, axis, n_chunk_max, sel_kind):
    """Workload-side classification of the chunking configuration (from the public arguments only)."""
    if n_chunk_max is None:
        return "default"
    eligible = (view is None and isinstance(axis, tuple) and 0 < len(axis) == ds.nd - 1 and sel_kind != "slice_state")
    if eligible and ds.size > n_chunk_max:
        return "chunked_reduction"
    if ds.size > n_chunk_max:
        return "limit_below_size_other_axis_or_view"
    return "limit_not_below_size"


def random_stat_query(rng, ds):
    q = {}
    q["attr"] = pick_attr(rng, ds)
    q["stat"] = rng.choice(STATS)
    q["pct"] = rng.choice(PERCENTILES) if q["stat"] == "percentile" else None
    q["finite"] = rng.random() < (0.4 if q["attr"] == "vi" else 0.85)
    q["positive"] = rng.random() < (0.45 if q["attr"] == "vi" else 0.25)
    q["sel_kind"] = rng.choice(SEL_KINDS)
    aim = rng.random() < 0.25 and ds.nd >= 2
    if aim:
        keep = rng.randrange(ds.nd)
        q["view_kind"], q["view"] = "none", None
        q["axis"], q["axis_kind"] = tuple(a for a in range(ds.nd) if a != keep), "partial"
        q["n_chunk_max"] = rng.randint(1, max(1, ds.size - 1))
        q["kept_axis"] = keep
        if q["sel_kind"] == "slice_state" and rng.random() < 0.7:
            q["sel_kind"] = "not_slice"
    else:
        vk = rng.choice(STAT_VIEW_KINDS)
        if vk == "bare_slice" and ds.nd != 1:
            vk = "slice_tuple_short"
        q["view_kind"] = vk
        q["view"] = stat_view(rng, ds.shape, vk)
        vv = tuple(q["view"]) if isinstance(q["view"], list) else q["view"]
        vshape = np.empty(ds.shape, bool)[vv].shape if vv is not None else ds.shape
        q["axis"], q["axis_kind"] = axis_choice(rng, len(vshape))
        q["n_chunk_max"] = rng.choice([None, None, 1, 2, 3, 5, max(1, ds.size - 1), ds.size, ds.size + 1,
                                       rng.randint(1, ds.size + 1)])
        q["kept_axis"] = None
    return q


def structural(feats):
    """Signature base for failures that do not depend on the values (exceptions, shapes): the statistic, the filters
    and the memory layout of the attribute are left out so that one mechanism gives few signatures."""
    return {k: v for k, v in feats.items() if k not in ("stat", "finite", "positive", "attr_is_broadcast")}


def run_stat_query(ctx, rng, ds, q, api="compute_statistic", indexed=None, sel=None, extra_feats=None,
                   shortcut_slices=None):
    """Builds the selection (or takes a prepared (state, reference mask)), calls the real code, compares.
    `indexed` = (IndexedData, indices) for the derived-data API.  `shortcut_slices`: for a slice-based state, the
    slices in the axes of this dataset (used to tell the shortcut's known shape deviation from wrong values)."""
    if sel is None and q["view_kind"] == "negative_bounds" and indexed is None and rng.random() < 0.6:
        # a mask selection whose bounding box reaches the last element of the view along every axis
        m = np.array([rng.random() < 0.3 for _ in range(ds.size)]).reshape(ds.shape)
        last = []
        for n, item in zip(ds.shape, tuple(q["view"]) + (slice(None),) * (ds.nd - len(q["view"]))):
            idx = np.arange(n)[item]
            last.append(int(idx) if np.ndim(idx) == 0 else (int(idx[-1]) if idx.size else None))
        if None not in last:
            m[tuple(last)] = True
            q = dict(q, sel_kind="mask")
            sel = (MaskSubsetState(m.copy(), ds.data.pixel_component_ids), m)
            ctx.count("stat_negative_bounds_view_with_selection_reaching_its_end")
    if sel is None:
        sel = checked_selection(ctx, rng, ds, q["sel_kind"], q.get("kept_axis"))
    if sel is None:
        return
    state, fullmask = sel
    if q["sel_kind"] == "pix_roi" and state is not None:
        try:
            raw_mask = state.to_mask(ds.data, None)
            if 0 in getattr(raw_mask, "strides", ()) and raw_mask.size > 1:
                ctx.count("stat_selection_mask_is_broadcast_array")
                if q["view"] is None or (isinstance(q["view"], tuple) and all(isinstance(x, slice) for x in q["view"])):
                    ctx.count("stat_broadcast_mask_with_dimension_preserving_view")
        except Exception:
            pass
    if shortcut_slices is None and isinstance(state, SliceSubsetState) and state.reference_data is ds.data:
        shortcut_slices = list(state.slices)
    given_view = q["view"]
    view = tuple(given_view) if isinstance(given_view, list) else given_view
    full = ds.raw[q["attr"]]
    if indexed is not None:
        idata, indices = indexed
        oview = tuple(slice(None) if i is None else i for i in indices)
        base_vals, base_mask = full[oview], fullmask[oview]
    else:
        base_vals, base_mask = full, fullmask
    vals = base_vals if view is None else base_vals[view]
    mask = base_mask if view is None else base_mask[view]
    vals = np.asarray(vals, dtype=float)
    mask = np.asarray(mask, dtype=bool)
    keep = mask.copy()
    if q["finite"]:
        keep &= np.isfinite(vals)
    if q["positive"]:
        keep &= vals > 0
    nonfinite_in_view = not bool(np.all(np.isfinite(vals)))
    feats = {"api": api, "attr_kind": ds.kinds[q["attr"]], "stat": q["stat"], "selection": q["sel_kind"],
             "view_kind": q["view_kind"], "axis_kind": q["axis_kind"], "finite": q["finite"], "positive": q["positive"],
             "chunking": chunk_class(ds, view, q["axis"], q["n_chunk_max"], q["sel_kind"]),
             "view_zero_size": vals.size == 0, "selection_hits_view": bool(mask.any()) and q["sel_kind"] != "none",
             "selection_present": q["sel_kind"] != "none", "axis_given": q["axis"] is not None}
    feats.update(view_features(view, ds.shape))
    if extra_feats:
        feats.update(extra_feats)
    if indexed is not None:
        feats["view_has_int"] = True      # the derived dataset turns its indices into integers of the view
    # ---- domain
    if not q["finite"] and nonfinite_in_view:
        # finite=False: NaN is a missing value wherever glue reduces with the NaN-aware functions (a selection mask or
        # positive=True is in play); without either - and in the SliceSubsetState shortcut - the plain reducers run and
        # a NaN propagates, which the statement does not define: excluded.  Infinite values are ordinary values.
        plain_reducers = (not q["positive"]) and (q["sel_kind"] == "none" or
                                                  (q["sel_kind"] == "slice_state" and view is None and indexed is None))
        if plain_reducers and bool(np.isnan(vals[mask]).any()):
            ctx.count("excluded_finite_false_plain_reducers_with_nan")
            return
        keep &= ~np.isnan(vals)
        pinf, ninf = keep & (vals == np.inf), keep & (vals == -np.inf)
        if pinf.any() or ninf.any():
            if q["stat"] in ("median", "percentile"):
                ctx.count("excluded_finite_false_median_or_percentile_over_infinities")
                return
            axes_ = None if q["axis"] is None else tuple(q["axis"]) if isinstance(q["axis"], tuple) else (q["axis"],)
            lane = (lambda a: a.any()) if axes_ is None else (lambda a: a.any(axis=axes_) if axes_ else a)
            if q["stat"] in ("sum", "mean") and bool(np.any(lane(pinf) & lane(ninf))):
                ctx.count("excluded_finite_false_inf_minus_inf")
                return
            ctx.count("stat_finite_false_with_infinities")
            fin_lane = lane(keep & np.isfinite(vals))
            if bool(np.any((lane(pinf) | lane(ninf)) & ~fin_lane)):
                ctx.count("stat_finite_false_lane_with_only_infinite_values")
    cid = cid_of(ds, q["attr"])
    target = ds.data if indexed is None else indexed[0]
    if feats["attr_kind"] == "world":
        # reading a world attribute through an empty view fails in the data-access layer (C04's subject, listed there)
        try:
            target.get_data(cid, view=view)
            if q["sel_kind"] == "slice_state" and view is None and indexed is None:
                state.to_array(ds.data, cid)
        except Exception:
            ctx.count("excluded_world_attribute_unreadable_through_this_view_C04")
            return
    try:
        whole = target.get_data(cid)
        feats["attr_is_broadcast"] = bool(getattr(whole, "ndim", 0) and whole.size > 1 and 0 in whole.strides)
    except Exception:
        feats["attr_is_broadcast"] = None
    exp = ref_statistic(q["stat"], vals, keep, q["axis"], q["pct"])
    kw = dict(subset_state=state, axis=q["axis"], finite=q["finite"], positive=q["positive"], view=given_view)
    if q["pct"] is not None:
        kw["percentile"] = q["pct"]
    if q["n_chunk_max"] is not None:
        kw["n_chunk_max"] = q["n_chunk_max"]
    # the same arguments as numpy scalars / the attribute named by its label (audit themes 2 and 3)
    style = q.get("argument_style") or ("numpy_scalars" if rng.random() < 0.2 else "plain")
    feats["attribute_given_as"] = "component_id"
    feats["axis_is_numpy_integer"] = False
    if style != "plain":
        if "percentile" in kw:
            # (float32 percentiles are not generated: numpy then interpolates with float32 weights, 1e-8 relative)
            kw["percentile"] = np.int64(kw["percentile"]) if float(kw["percentile"]).is_integer() and rng.random() < 0.5 \
                else np.float64(kw["percentile"])
        if "n_chunk_max" in kw:
            kw["n_chunk_max"] = np.int64(kw["n_chunk_max"])
        if isinstance(kw["axis"], int):
            kw["axis"] = np.int64(kw["axis"])
            feats["axis_is_numpy_integer"] = True
        elif isinstance(kw["axis"], tuple):
            kw["axis"] = tuple(np.int64(a) for a in kw["axis"])
        kw["finite"], kw["positive"] = np.bool_(kw["finite"]), np.bool_(kw["positive"])
        ctx.count("stat_numpy_scalar_arguments")
    if q.get("argument_style") is None and rng.random() < 0.01 and indexed is None \
            and not q["attr"].startswith(("pix", "world")):
        cid = q["attr"]          # the documented alternative: the attribute named by its label
        feats["attribute_given_as"] = "label"
        ctx.count("stat_attribute_given_as_label")
    feats["scalar_arguments"] = "numpy" if style != "plain" else "python"
    nq = int(keep.sum())
    nontrivial = nq >= 2 and (q["sel_kind"] != "none" or view is not None or q["axis"] is not None
                              or feats["chunking"] == "chunked_reduction")
    ctx.evaluation(["stat", api, feats["attr_kind"], q["stat"], q["pct"], q["sel_kind"], q["view_kind"], q["axis_kind"],
                    q["finite"], q["positive"], feats["chunking"], list(ds.shape), feats["view_has_int"],
                    feats["view_has_step"]], nontrivial)
    ctx.count("stat_calls")
    ctx.count("stat_%s" % q["stat"])
    ctx.count("stat_sel_%s" % q["sel_kind"])
    ctx.count("stat_view_%s" % q["view_kind"])
    ctx.count("stat_axis_%s" % q["axis_kind"])
    ctx.count("stat_attr_%s" % feats["attr_kind"])
    if q["attr"] == "v":
        feats["attr_layout"] = ds.layout_v
        ctx.count("stat_layout_%s" % ds.layout_v)
    ctx.count("stat_chunking_%s" % feats["chunking"])
    if feats["view_zero_size"]:
        ctx.count("stat_zero_size_view")
    if nq == 0:
        ctx.count("stat_nothing_qualifies")
    if q["sel_kind"] == "slice_state" and view is None:
        ctx.count("stat_slice_state_shortcut_configuration")
    if feats["selection_hits_view"] and not (q["sel_kind"] == "slice_state" and view is None):
        ctx.count("stat_minimal_subarray_configuration")
        if q["axis"] is not None:
            ctx.count("stat_padding_configuration")

    def witness(extra):
        w = {"shape": ds.shape, "coords": ds.coords, "attr": q["attr"], "values": full, "statistic": q["stat"],
             "percentile": q["pct"], "selection_kind": q["sel_kind"], "selection": describe_state(state),
             "full_mask": fullmask, "view": describe_view(view), "axis": q["axis"], "finite": q["finite"],
             "positive": q["positive"], "n_chunk_max": q["n_chunk_max"], "expected": exp,
             "indices": None if indexed is None else list(indexed[1])}
        w.update(extra)
        return w
    try:
        got = target.compute_statistic(q["stat"], cid, **kw)
    except Exception as exc:
        sig = structural(feats)
        sig.update({"kind": "exception", "exc": type(exc).__name__})
        ctx.violation(sig, witness({"error": repr(exc)[:300]}))
        ctx.count("stat_raised")
        return
    try:
        g = np.asarray(got, dtype=float)
    except Exception:
        sig = structural(feats)
        sig.update({"kind": "not_numeric"})
        ctx.violation(sig, witness({"got": repr(got)[:300]}))
        return
    ctx.count("stat_compared")
    # float32 attributes are reduced in float32 when no axis is given: agreement to float32 rounding, not float64's
    rtol = 6e-6 if feats["attr_kind"] == "float32" else 1e-9
    kept = vals[keep]
    kept = kept[np.isfinite(kept)]
    vscale = float(np.max(np.abs(kept))) if kept.size else 0.0
    if g.shape != exp.shape:
        sig = structural(feats)
        sig.update({"kind": "shape_mismatch", "got_scalar": g.ndim == 0})
        if shortcut_slices is not None and view is None and indexed is None:
            # the SliceSubsetState shortcut reduces the selected sub-array (known shape deviation); its values must
            # still be the reduction of exactly the selected sub-array
            sl = tuple(shortcut_slices)
            sub, ksub = vals[sl], keep[sl]
            # (an empty sub-array reduces to NaN cells of the sub-array's reduced shape, possibly an empty array)
            esub = ref_statistic(q["stat"], sub, ksub, q["axis"], q["pct"])
            ok_sub = g.shape == esub.shape and close(g, esub, rtol, vscale)
            if sub.size == 0:
                ctx.count("stat_shortcut_empty_subarray_compared")
            ctx.count("stat_shortcut_subarray_compared")
            if not ok_sub:
                sig = dict(feats)
                sig.update({"kind": "shortcut_result_is_not_the_reduction_of_the_selected_subarray"})
        ctx.violation(sig, witness({"got": g, "got_shape": g.shape, "expected_shape": exp.shape}))
        return
    if not close(g, exp, rtol, vscale):
        sig = dict(feats)
        nan_e, nan_g = np.isnan(exp), np.isnan(g)
        if np.any(nan_e & ~nan_g):
            kind = "value_where_nan_expected"
        elif np.any(nan_g & ~nan_e):
            kind = "nan_where_value_expected"
        else:
            kind = "value_mismatch"
        sig.update({"kind": kind})
        ctx.violation(sig, witness({"got": g}))
        return
    if ctx.rng.random() < 0.0006:
        ctx.sample({"api": api, "shape": ds.shape, "attr": q["attr"], "statistic": q["stat"], "selection": q["sel_kind"],
                    "view": describe_view(view), "axis": q["axis"], "n_chunk_max": q["n_chunk_max"], "result": g})


def run_stat_block(ctx, tier):
    rng = ctx.rng
    for _ in range(DATASETS_PER_BLOCK):
        ds = make_dataset(rng, tier)
        for _ in range(QUERIES_PER_DATASET):
            run_stat_query(ctx, rng, ds, random_stat_query(rng, ds))
    ctx.count("stat_blocks")


def run_grid(ctx, tier, shape_i, sel_kind):
    """Every kept axis x every n_chunk_max x every statistic on a fixed shape, view None: drives the chunk loop."""
    rng = ctx.rng
    shape = GRID_SHAPES[shape_i]
    ds = make_dataset(rng, tier, shape=shape)
    for keep in range(ds.nd):
        axis = tuple(a for a in range(ds.nd) if a != keep)
        for n_chunk_max in range(1, ds.size + 2):
            for stat in STATS:
                q = {"attr": pick_attr(rng, ds, ("v", "v", "i", "der", "pix")), "stat": stat,
                     "pct": rng.choice(PERCENTILES) if stat == "percentile" else None,
                     "finite": True, "positive": rng.random() < 0.15, "sel_kind": sel_kind, "view_kind": "none",
                     "view": None, "axis": axis, "axis_kind": "partial", "n_chunk_max": n_chunk_max, "kept_axis": keep}
                run_stat_query(ctx, rng, ds, q)
    ctx.count("grid_blocks")


# ---------------------------------------------------------------- histogram queries
def random_hist_query(rng, ds, selected=None):
    """`selected`: reference mask of the selection the query will be run with (ranges are then aimed at the selected values)."""
    q = {}
    q["attr"] = pick_attr(rng, ds, ("v", "v", "i", "i", "w", "der", "c", "pix", "f4", "u1", "i1", "be", "bi", "mg"))
    q["weights"] = rng.choice([None, None, None, None, "w", "w", "i", "i", "der"])
    q["sel_kind"] = rng.choice(SEL_KINDS)
    q["log"] = rng.choice([None, False, False, True])
    x = ds.raw[q["attr"]]
    if selected is not None and rng.random() < 0.75 and np.isfinite(x[selected]).any():
        x = x[selected]
    fin = x[np.isfinite(x)]
    pos = fin[fin > 0]
    base = pos if (q["log"] and pos.size) else fin
    rk = rng.choice(["data_minmax", "integers", "integers", "random", "random", "data_values", "subrange", "data_minmax"]
                    if rng.random() < 0.9 else ["zero_width", "nonpositive_log", "outside"])
    if base.size == 0 and rk in ("data_minmax", "data_values", "subrange"):
        rk = "random"
    if rk == "data_minmax":
        lo, hi = float(base.min()), float(base.max())
    elif rk == "integers":
        lo = float(math.floor(rng.choice(base.tolist())) - rng.randint(0, 2)) if base.size else float(rng.randint(-4, 3))
        hi = lo + rng.randint(1, 8)
    elif rk == "random":
        lo = round(rng.choice(base.tolist()) - rng.uniform(0, 3), 3) if base.size else round(rng.uniform(-4, 4), 3)
        hi = round(lo + rng.uniform(0.01, 8), 3)
    elif rk == "data_values":
        uniq = sorted(set(base.tolist()))
        lo, hi = sorted(rng.sample(uniq, 2)) if len(uniq) >= 2 else (uniq[0], uniq[0] + 1.0)
    elif rk == "subrange":
        a, b = float(base.min()), float(base.max())
        lo = a + (b - a) * 0.25
        hi = a + (b - a) * 0.75
    elif rk == "outside":
        lo, hi = 50.0, 60.0
    elif rk == "nonpositive_log":
        lo, hi = rng.choice([(-2.0, 3.0), (0.0, 4.0), (-3.0, -1.0)])
        q["log"] = True
    else:
        lo = hi = float(rng.choice(base.tolist())) if base.size else 1.0
    if q["log"] and rk not in ("nonpositive_log",):
        # a positive range for log bins
        if lo <= 0 or hi <= 0:
            lo, hi = abs(lo) + 0.25, abs(hi) + 0.25
            lo, hi = min(lo, hi), max(lo, hi)
            if rk in ("data_minmax", "data_values", "subrange"):
                rk = "shifted_positive"
    if hi == lo and rk != "zero_width":
        rk = "zero_width"
    q["range_kind"] = rk
    q["reversed"] = rng.random() < 0.2
    q["lo"], q["hi"] = lo, hi
    if rk == "integers" and rng.random() < 0.6 and not q["log"]:
        q["bins"] = int(hi - lo) * rng.choice([1, 1, 2])      # edges on integers
        q["bins_kind"] = "integer_edges"
    else:
        q["bins"] = rng.randint(1, 12)
        q["bins_kind"] = "free"
    return q


def log_precision(ds, attrs_logs):
    """Precision in which np.log10 evaluates the stored attribute(s) that are binned in log space ('float16' for 8-bit
    integers, 'float32' for 16-bit integers and float32, else 'float64'); None without a log axis."""
    worst = None
    for attr, log in attrs_logs:
        if not log:
            continue
        try:
            stored = ds.data.get_data(cid_of(ds, attr))
            if hasattr(stored, "codes"):
                stored = stored.codes
            dt = np.log10(np.ones(1, dtype=np.asarray(stored).dtype)).dtype.name
        except Exception:
            dt = "float64"
        if worst is None or int(dt[5:]) < int(worst[5:]):
            worst = dt
    return worst


def too_narrow(lo, hi, log):
    """Ranges so narrow that the 10-ulp widening of the upper end is no longer negligible against one bin
    (|end| * 1e-14 / width approaching the 1e-7 edge tolerance) are kept out of the comparison."""
    if log:
        lo, hi = math.log10(lo), math.log10(hi)
    return (hi - lo) < 1e-3 * max(1.0, abs(lo), abs(hi))


def hist_reference(ds, q, fullmask):
    """Returns None (out of the statement) or (definite, ambiguous, total, n_in_range)."""
    x = ds.raw[q["attr"]]
    lo, hi = q["lo"], q["hi"]
    keep = fullmask & ~np.isnan(x) & (x >= lo) & (x <= hi)
    xs = x[keep]
    ws = None if q["weights"] is None else ds.raw[q["weights"]][keep]
    definite, ambiguous, total = ref_histogram(xs, ws, lo, hi, q["bins"], bool(q["log"]))
    return definite, ambiguous, total, int(keep.sum())


def hist_feats(ds, q, api):
    return {"api": api, "attr_kind": ds.kinds[q["attr"]], "weighted": q["weights"] is not None,
            "weights_kind": None if q["weights"] is None else ds.kinds[q["weights"]], "log": bool(q["log"]),
            "selection": q["sel_kind"], "range_kind": q["range_kind"], "reversed_range": q["reversed"],
            "bins_kind": q["bins_kind"]}


def run_hist_query(ctx, rng, ds, q, api="compute_histogram", layer_call=None, sel=None):
    if sel is None:
        sel = checked_selection(ctx, rng, ds, q["sel_kind"])
    if sel is None:
        return
    state, fullmask = sel
    feats = hist_feats(ds, q, api)
    feats["one_element_after_selection"] = int(fullmask.sum()) == 1
    if layer_call is None:
        q["numpy_scalars"] = rng.random() < 0.2
        q["by_label"] = rng.random() < 0.01 and not q["attr"].startswith(("pix", "world"))
        if q["numpy_scalars"]:
            ctx.count("hist_numpy_scalar_arguments")
    feats["attribute_given_as"] = "label" if q.get("by_label") else "component_id"
    feats["scalar_arguments"] = "numpy" if q.get("numpy_scalars") else "python"
    lo, hi = q["lo"], q["hi"]
    # ---- domain
    if lo == hi:
        ctx.count("excluded_hist_zero_width_range")
        return
    if q["log"] and (lo <= 0 or hi <= 0):
        ctx.count("excluded_hist_log_nonpositive_range")
        return
    if too_narrow(lo, hi, q["log"]):
        ctx.count("excluded_hist_range_narrower_than_1e-3_relative")
        return
    if q["weights"] is not None and not np.all(np.isfinite(ds.raw[q["weights"]])):
        ctx.count("excluded_hist_nonfinite_weights")
        return
    definite, ambiguous, total, nin = hist_reference(ds, q, fullmask)
    feats["has_edge_coincident"] = bool(ambiguous)
    feats["log_axis_precision"] = log_precision(ds, [(q["attr"], q["log"])])
    top = math.log10(hi) if q["log"] else hi        # the upper end in the space the bins live in
    feats["upper_end"] = "negative" if top < 0 else ("zero" if top == 0 else "positive")
    xfull = ds.raw[q["attr"]]
    feats["has_value_at_upper_end"] = bool(np.any(fullmask & (xfull == hi)))
    if feats["has_value_at_upper_end"]:
        ctx.count("hist_value_at_%s_%supper_end" % (feats["upper_end"], "log_" if q["log"] else ""))
    rng_arg = (hi, lo) if q["reversed"] else (lo, hi)
    ctx.evaluation(["hist", api, feats["attr_kind"], feats["weights_kind"], feats["log"], q["sel_kind"], q["range_kind"],
                    q["reversed"], q["bins"], q["bins_kind"], list(ds.shape)], nin >= 2)
    ctx.count("hist_calls")
    ctx.count("hist_sel_%s" % q["sel_kind"])
    ctx.count("hist_range_%s" % q["range_kind"])
    ctx.count("hist_log" if q["log"] else "hist_linear")
    ctx.count("hist_weighted" if q["weights"] else "hist_unweighted")
    if q["reversed"]:
        ctx.count("hist_reversed_range")
    if nin == 0:
        ctx.count("hist_nothing_in_range")
    if ambiguous:
        ctx.count("hist_cases_with_edge_coincident_values")
        ctx.count("edge_coincident_values", len(ambiguous))

    def witness(extra):
        w = {"shape": ds.shape, "attr": q["attr"], "values": ds.raw[q["attr"]], "weights": q["weights"],
             "weight_values": None if q["weights"] is None else ds.raw[q["weights"]], "range": rng_arg,
             "bins": q["bins"], "log": q["log"], "selection_kind": q["sel_kind"], "selection": describe_state(state),
             "full_mask": fullmask, "definite": definite, "edge_coincident": ambiguous, "total": total}
        w.update(extra)
        return w
    try:
        if layer_call is not None:
            got = layer_call(state, rng_arg)
        else:
            kw = dict(range=[rng_arg], bins=[q["bins"]], subset_state=state)
            if q["log"] is not None:
                kw["log"] = [q["log"]]
            if q["weights"] is not None:
                kw["weights"] = cid_of(ds, q["weights"])
            xcid = cid_of(ds, q["attr"])
            if q.get("numpy_scalars"):
                kw["bins"] = [np.int64(q["bins"])]
                kw["range"] = [(np.float64(rng_arg[0]), np.float64(rng_arg[1]))]
            if q.get("by_label"):
                xcid = q["attr"]
            got = ds.data.compute_histogram([xcid], **kw)
        g = np.asarray(got, dtype=float)
    except Exception as exc:
        sig = dict(feats)
        sig.update({"kind": "exception", "exc": type(exc).__name__})
        ctx.violation(sig, witness({"error": repr(exc)[:300]}))
        ctx.count("hist_raised")
        return
    ctx.count("hist_compared")
    if g.shape != (q["bins"],):
        sig = dict(feats)
        sig.update({"kind": "shape_mismatch"})
        ctx.violation(sig, witness({"got": g}))
        return
    scale = max(1.0, abs(total), float(np.max(np.abs(g))) if g.size else 0.0)
    if not np.all(np.isfinite(g)) or abs(float(g.sum()) - total) > 1e-9 * scale * max(1, q["bins"]):
        sig = dict(feats)
        # would the result be right if the values equal to the upper end were left out?
        q2 = dict(q)
        alt_mask = fullmask & ~(xfull == hi)
        d2, a2, t2, _ = hist_reference(ds, q2, alt_mask)
        dropped_top = bool(np.all(np.isfinite(g)) and abs(float(g.sum()) - t2) <= 1e-9 * scale * max(1, q["bins"])
                           and hist_consistent(g.tolist(), d2, a2, q["weights"] is not None) is not False)
        sig.update({"kind": "total_mismatch", "explained_by_dropping_values_equal_to_upper_end": dropped_top,
                    "nonfinite_bins": not bool(np.all(np.isfinite(g)))})
        ctx.violation(sig, witness({"got": g, "got_total": float(g.sum())}))
        return
    ok = hist_consistent(g.tolist(), definite, ambiguous, q["weights"] is not None)
    if ok is None:
        ctx.count("excluded_hist_weighted_many_edge_values_undecided")
        return
    if not ok:
        sig = dict(feats)
        d2, a2, t2, _ = hist_reference(ds, dict(q), fullmask & ~(xfull == hi))
        if q["weights"] is not None and hist_consistent(g.tolist(), d2, a2, True):
            # values equal to the upper end are missing; their weights happen to cancel in the total
            sig.update({"kind": "total_mismatch", "explained_by_dropping_values_equal_to_upper_end": True,
                        "nonfinite_bins": False, "weight_sum_coincides": True})
        else:
            sig.update({"kind": "bin_mismatch"})
        ctx.violation(sig, witness({"got": g}))
        return
    if ctx.rng.random() < 0.0006:
        ctx.sample({"api": api, "shape": ds.shape, "attr": q["attr"], "range": rng_arg, "bins": q["bins"], "log": q["log"],
                    "weights": q["weights"], "selection": q["sel_kind"], "result": g})


def run_hist2d_query(ctx, rng, ds, qx, qy, sel):
    """Two-attribute histogram.  Bins are compared only when no selected value sits on an interior edge of either axis
    (otherwise only the total is compared and the case is tallied)."""
    state, fullmask = sel
    axes = [qx, qy]
    weights = qx["weights"]
    if any(a["lo"] == a["hi"] for a in axes):
        ctx.count("excluded_hist_zero_width_range")
        return
    if any(a["log"] and (a["lo"] <= 0 or a["hi"] <= 0) for a in axes):
        ctx.count("excluded_hist_log_nonpositive_range")
        return
    if any(too_narrow(a["lo"], a["hi"], a["log"]) for a in axes):
        ctx.count("excluded_hist_range_narrower_than_1e-3_relative")
        return
    if weights is not None and not np.all(np.isfinite(ds.raw[weights])):
        ctx.count("excluded_hist_nonfinite_weights")
        return
    raws = [ds.raw[a["attr"]] for a in axes]
    tops = [math.log10(a["hi"]) if a["log"] else a["hi"] for a in axes]
    neg = [k for k in (0, 1) if tops[k] < 0]
    marked = neg if neg else [0, 1]
    at_top = np.zeros(ds.shape, bool)
    for k in marked:
        at_top |= raws[k] == axes[k]["hi"]

    def reference(mask):
        keep = mask.copy()
        for a, r in zip(axes, raws):
            keep &= ~np.isnan(r) & (r >= a["lo"]) & (r <= a["hi"])
        wt = np.ones(int(keep.sum())) if weights is None else ds.raw[weights][keep].astype(float)
        counts = np.zeros((qx["bins"], qy["bins"]))
        idx = []
        namb = 0
        for a, r in zip(axes, raws):
            t = (np.log10(r[keep]) - math.log10(a["lo"])) / (math.log10(a["hi"]) - math.log10(a["lo"])) * a["bins"] \
                if a["log"] else (r[keep] - a["lo"]) / (a["hi"] - a["lo"]) * a["bins"]
            k = np.round(t)
            amb = (np.abs(t - k) <= 1e-7) & (k > 0) & (k < a["bins"])
            namb += int(amb.sum())
            b = np.floor(t)
            b = np.where(np.abs(t - k) <= 1e-7, np.where(k <= 0, 0, np.minimum(k, a["bins"] - 1)), b)
            idx.append(np.clip(b, 0, a["bins"] - 1).astype(int))
        for i, j, wi in zip(idx[0].tolist(), idx[1].tolist(), wt.tolist()):
            counts[i, j] += wi
        return counts, namb, float(math.fsum(wt.tolist())), int(keep.sum())
    exp, namb, total, nin = reference(fullmask)
    feats = {"api": "compute_histogram_2d", "attr_kind": ds.kinds[qx["attr"]], "attr_kind_y": ds.kinds[qy["attr"]],
             "weighted": weights is not None, "weights_kind": None if weights is None else ds.kinds[weights],
             "log": bool(qx["log"] or qy["log"]), "selection": qx["sel_kind"], "range_kind": qx["range_kind"],
             "range_kind_y": qy["range_kind"], "reversed_range": bool(qx["reversed"] or qy["reversed"]),
             "has_edge_coincident": namb > 0,
             "log_axis_precision": log_precision(ds, [(qx["attr"], qx["log"]), (qy["attr"], qy["log"])]),
             "upper_end": "negative" if neg else ("zero" if 0 in tops else "positive"),
             "has_value_at_upper_end": bool(np.any(fullmask & at_top))}
    ranges = [(a["hi"], a["lo"]) if a["reversed"] else (a["lo"], a["hi"]) for a in axes]
    ctx.evaluation(["hist2d", feats["attr_kind"], feats["attr_kind_y"], feats["weights_kind"], bool(qx["log"]), bool(qy["log"]),
                    qx["sel_kind"], qx["range_kind"], qy["range_kind"], qx["bins"], qy["bins"], list(ds.shape)], nin >= 2)
    ctx.count("hist2d_calls")
    if nin == 0:
        ctx.count("hist2d_nothing_in_range")
    if namb:
        ctx.count("hist2d_cases_with_edge_coincident_values_total_only")

    def witness(extra):
        w = {"shape": ds.shape, "attrs": [qx["attr"], qy["attr"]], "x_values": raws[0], "y_values": raws[1],
             "weights": weights, "weight_values": None if weights is None else ds.raw[weights], "ranges": ranges,
             "bins": [qx["bins"], qy["bins"]], "log": [qx["log"], qy["log"]], "selection_kind": qx["sel_kind"],
             "selection": describe_state(state), "full_mask": fullmask, "expected": exp, "total": total}
        w.update(extra)
        return w
    try:
        kw = dict(range=ranges, bins=[qx["bins"], qy["bins"]], subset_state=state)
        if qx["log"] is not None or qy["log"] is not None:
            kw["log"] = [bool(qx["log"]), bool(qy["log"])]
        if weights is not None:
            kw["weights"] = cid_of(ds, weights)
        g = np.asarray(ds.data.compute_histogram([cid_of(ds, qx["attr"]), cid_of(ds, qy["attr"])], **kw), dtype=float)
    except Exception as exc:
        sig = dict(feats)
        sig.update({"kind": "exception", "exc": type(exc).__name__})
        ctx.violation(sig, witness({"error": repr(exc)[:300]}))
        return
    ctx.count("hist2d_compared")
    if g.shape != exp.shape:
        sig = dict(feats)
        sig.update({"kind": "shape_mismatch"})
        ctx.violation(sig, witness({"got": g}))
        return
    scale = max(1.0, abs(total), float(np.max(np.abs(g))) if g.size else 0.0)
    tol = 1e-9 * scale * g.size
    if not np.all(np.isfinite(g)) or abs(float(g.sum()) - total) > tol:
        e2, n2, t2, _ = reference(fullmask & ~at_top)
        dropped = bool(np.all(np.isfinite(g)) and abs(float(g.sum()) - t2) <= tol
                       and (n2 > 0 or np.allclose(g, e2, rtol=0, atol=tol)))
        sig = dict(feats)
        sig.update({"kind": "total_mismatch", "explained_by_dropping_values_equal_to_upper_end": dropped,
                    "nonfinite_bins": not bool(np.all(np.isfinite(g)))})
        ctx.violation(sig, witness({"got": g, "got_total": float(g.sum())}))
        return
    if namb == 0 and not np.allclose(g, exp, rtol=0, atol=tol):
        sig = dict(feats)
        e2, n2, t2, _ = reference(fullmask & ~at_top)
        if weights is not None and n2 == 0 and np.allclose(g, e2, rtol=0, atol=tol):
            # values equal to an upper end are missing; their weights happen to cancel in the total
            sig.update({"kind": "total_mismatch", "explained_by_dropping_values_equal_to_upper_end": True,
                        "nonfinite_bins": False, "weight_sum_coincides": True})
        else:
            sig.update({"kind": "bin_mismatch", "transposed_would_match": bool(g.T.shape == exp.shape and np.allclose(g.T, exp, rtol=0, atol=tol))})
        ctx.violation(sig, witness({"got": g}))


def hist_dataset(rng, tier):
    """Datasets for histograms: enough elements for bins to matter."""
    nd = rng.choice([1, 1, 2, 2, 3])
    if nd == 1:
        shape = (rng.randint(3, 14),)
    else:
        top = 4 if tier == "quick" else 5
        shape = tuple(rng.randint(2, top) for _ in range(nd))
    return make_dataset(rng, tier, shape=shape)


def run_hist_block(ctx, tier):
    rng = ctx.rng
    for _ in range(DATASETS_PER_BLOCK):
        ds = hist_dataset(rng, tier) if rng.random() < 0.8 else make_dataset(rng, tier)
        for _ in range(QUERIES_PER_DATASET):
            sel_kind = rng.choice(SEL_KINDS)
            sel = checked_selection(ctx, rng, ds, sel_kind)
            if sel is None:
                continue
            qx = random_hist_query(rng, ds, sel[1])
            qx["sel_kind"] = sel_kind
            if rng.random() < 0.2:
                qy = random_hist_query(rng, ds, sel[1])
                run_hist2d_query(ctx, rng, ds, qx, qy, sel)
            else:
                run_hist_query(ctx, rng, ds, qx, sel=sel)
    ctx.count("hist_blocks")


# ---------------------------------------------------------------- viewer layers and derived datasets
def run_viewer_block(ctx, tier):
    from glue.viewers.profile.state import ProfileLayerState, ProfileViewerState
    rng = ctx.rng
    for _ in range(4):
        ds = make_dataset(rng, tier, with_collection=True)
        d = ds.data
        # ---- IndexedData.compute_statistic
        if ds.nd >= 2:
            for _ in range(4):
                indices = [None] * ds.nd
                for k in rng.sample(range(ds.nd), rng.randint(1, ds.nd - 1)):
                    indices[k] = rng.randrange(ds.shape[k])
                indices = tuple(indices)
                try:
                    idata = IndexedData(d, indices)
                except Exception as exc:
                    ctx.violation({"api": "IndexedData", "kind": "constructor_exception", "exc": type(exc).__name__},
                                  {"shape": ds.shape, "indices": indices, "error": repr(exc)})
                    continue
                ishape = tuple(s for s, i in zip(ds.shape, indices) if i is None)
                q = {"attr": pick_attr(rng, ds, ("v", "i", "der")), "stat": rng.choice(STATS), "finite": True,
                     "positive": rng.random() < 0.2, "sel_kind": rng.choice(["none", "none", "none", "ineq", "mask", "empty"]),
                     "n_chunk_max": rng.choice([None, 1, 3]), "kept_axis": None}
                q["pct"] = rng.choice(PERCENTILES) if q["stat"] == "percentile" else None
                # IndexedData translates only full-length tuples (its view handling is C04's subject)
                vk = rng.choice(["none", "none", "slice_tuple_full"])
                q["view_kind"], q["view"] = vk, stat_view(rng, ishape, vk)
                vshape = np.empty(ishape, bool)[q["view"]].shape if q["view"] is not None else ishape
                q["axis"], q["axis_kind"] = axis_choice(rng, len(vshape))
                run_stat_query(ctx, rng, ds, q, api="IndexedData.compute_statistic", indexed=(idata, indices))
                ctx.count("indexed_data_calls")
        # ---- ProfileLayerState.profile
        for _ in range(5):
            sel_kind = rng.choice(["none", "ineq", "mask", "pixrange", "empty", "slice_state", "or"])
            sel = checked_selection(ctx, rng, ds, sel_kind)
            if sel is None:
                continue
            state, fullmask = sel
            attr = pick_attr(rng, ds, ("v", "v", "i", "der"))
            stat = rng.choice(["maximum", "minimum", "mean", "median", "sum"])
            k = rng.randrange(ds.nd)
            axes = tuple(a for a in range(ds.nd) if a != k)
            vals = ds.raw[attr]
            keep = fullmask & np.isfinite(vals)
            exp = ref_statistic(stat, vals, keep, axes)
            feats = {"api": "ProfileLayerState.profile", "attr_kind": ds.kinds[attr], "stat": stat, "selection": sel_kind,
                     "selection_hits_view": bool(fullmask.any()) and sel_kind != "none", "ndim": ds.nd}
            ctx.evaluation(["profile", feats["attr_kind"], stat, sel_kind, list(ds.shape), k], int(keep.sum()) >= 2)
            ctx.count("profile_calls")
            wit = {"shape": ds.shape, "attr": attr, "values": vals, "statistic": stat, "selection_kind": sel_kind,
                   "selection": describe_state(state), "full_mask": fullmask, "x_axis": k, "expected": exp}
            group = None
            try:
                vs = ProfileViewerState()
                if state is None:
                    layer = d
                else:
                    group = ds.dc.new_subset_group(subset_state=state, label="s")
                    layer = group.subsets[0]
                ls = ProfileLayerState(viewer_state=vs, layer=layer)
                vs.layers.append(ls)
                vs.x_att = d.pixel_component_ids[k]
                vs.function = stat
                ls.attribute = d.id[attr]
                prof = ls.profile
                if prof is None:
                    # the layer's cache is reset by its own limit update on the first read of a fresh layer
                    ctx.count("observed_profile_none_on_first_read")
                    prof = ls.profile
            except Exception as exc:
                sig = dict(feats)
                sig.update({"kind": "exception", "exc": type(exc).__name__})
                ctx.violation(sig, dict(wit, error=repr(exc)[:300]))
                continue
            finally:
                if group is not None:
                    ds.dc.remove_subset_group(group)
            if prof is None:
                ctx.count("excluded_profile_unavailable")
                continue
            x, y = prof
            y = np.asarray(y, dtype=float)
            ctx.count("profile_compared")
            if np.all(np.isnan(exp)):
                okp = len(y) == 0 or (y.shape == exp.shape and np.all(np.isnan(y)))
                kind = "profile_not_empty_where_nothing_qualifies"
            else:
                okp = y.shape == exp.shape and close(y, exp) and np.array_equal(np.asarray(x, float), np.arange(ds.shape[k]))
                kind = "shape_mismatch" if y.shape != exp.shape else "value_mismatch"
            if not okp:
                sig = dict(feats)
                sig.update({"kind": kind})
                ctx.violation(sig, dict(wit, got_x=x, got_y=y))
        # ---- HistogramLayerState.histogram
        for _ in range(5):
            q = random_hist_query(rng, ds)
            q["weights"] = None
            q["log"] = bool(q["log"])
            q["reversed"] = False
            if q["sel_kind"] in ("and",):
                q["sel_kind"] = "ineq"
            if q["attr"] == "c":
                q["attr"] = "i"
            run_hist_through_layer(ctx, rng, ds, q)
            ctx.count("histogram_layer_calls")
    ctx.count("viewer_blocks")


def run_hist_through_layer(ctx, rng, ds, q, sel=None):
    """The same histogram query through HistogramViewerState / HistogramLayerState (what the viewer plots)."""
    from glue.viewers.histogram.state import HistogramLayerState, HistogramViewerState
    group_box = []

    def layer_call(state, rng_arg):
        d = ds.data
        hv = HistogramViewerState()
        if state is None:
            layer = d
        else:
            group_box.append(ds.dc.new_subset_group(subset_state=state, label="s"))
            layer = group_box[0].subsets[0]
        hl = HistogramLayerState(viewer_state=hv, layer=layer)
        hv.layers.append(hl)
        hv.x_att = cid_of(ds, q["attr"])
        hv.x_log = bool(q["log"])
        hv.hist_x_min, hv.hist_x_max = rng_arg
        hv.hist_n_bin = q["bins"]
        edges, values = hl.histogram
        edges = np.asarray(edges, dtype=float)
        if edges.shape != (q["bins"] + 1,) or not close(edges[[0, -1]], np.array(sorted(rng_arg), dtype=float)):
            raise AssertionError("histogram edges do not span the requested range: %r" % (edges,))
        return values
    try:
        run_hist_query(ctx, rng, ds, q, api="HistogramLayerState.histogram", layer_call=layer_call, sel=sel)
    finally:
        for g in group_box:
            ds.dc.remove_subset_group(g)


# ---------------------------------------------------------------- histories of calls on the same objects
def fault_calls(ds, other):
    """Calls that are expected to raise (what they raise is not part of C10); valid calls must be unaffected afterwards."""
    d = ds.data
    v = d.id["v"]
    return [lambda: d.compute_statistic("nonsense", v),
            lambda: d.compute_statistic("percentile", v),
            lambda: d.compute_statistic("sum", v, axis=ds.nd + 2),
            lambda: d.compute_statistic("sum", other.id["zz"]),
            lambda: d.compute_statistic("sum", v, subset_state=other.id["zz"] > 0),
            lambda: d.compute_statistic("mean", v, view=(slice(None),) * (ds.nd + 1)),
            lambda: d.compute_histogram([v, v, v], range=[(0, 1)] * 3, bins=[2, 2, 2]),
            lambda: d.compute_histogram([other.id["zz"]], range=[(0, 1)], bins=[2]),
            lambda: d.compute_histogram([v], range=[(0, 1)], bins=[2], subset_state=other.id["zz"] > 0)]


def run_history_block(ctx, tier):
    """A few subset-state objects reused for many statistics / histograms of different attributes, filters, views and
    chunk limits, interleaved with raising calls and repeated calls; after every few steps each state's mask is read
    again and must be what it was."""
    rng = ctx.rng
    for _ in range(2):
        ds = make_dataset(rng, tier, with_collection=True)
        other = Data(zz=np.arange(3.), label="other")
        pool = []
        for kind in rng.sample(["ineq", "mask", "slice_state", "pixrange", "not_slice", "or", "and", "ineq", "mask"], 4):
            sel = checked_selection(ctx, rng, ds, kind)
            if sel is not None:
                pool.append((kind, sel[0], sel[1]))
        if not pool:
            continue
        # the same object referenced twice, and an equal-but-distinct copy
        k0, s0, m0 = pool[0]
        pool.append(("and", s0 & s0, m0.copy()))
        if len(pool) > 2:
            pool.append(("or", s0 | pool[1][1], m0 | pool[1][2]))
        try:
            pool.append((k0, s0.copy(), m0.copy()))
        except Exception:
            ctx.count("observed_subset_state_copy_failed")
        faults = fault_calls(ds, other)
        previous = "start"
        last = None
        for step in range(26):
            kind, state, mask = pool[rng.randrange(len(pool))]
            r = rng.random()
            extra = {"history": "reused_state", "previous_step": previous}
            if r < 0.15:
                try:
                    faults[rng.randrange(len(faults))]()
                    ctx.count("history_fault_call_returned")
                except Exception:
                    ctx.count("history_fault_call_raised")
                previous = "raising_call"
                continue
            if r < 0.3 and last is not None:
                # the same call again
                what, q, sel_, kind_ = last
                ctx.count("history_repeated_calls")
                extra["previous_step"] = "same_call"
                if what == "stat":
                    run_stat_query(ctx, rng, ds, q, sel=sel_, extra_feats=extra)
                else:
                    run_hist_query(ctx, rng, ds, q, sel=sel_)
                previous = "same_call"
                continue
            if r < 0.75:
                q = random_stat_query(rng, ds)
                q["sel_kind"] = kind
                ctx.count("history_stat_calls")
                run_stat_query(ctx, rng, ds, q, sel=(state, mask), extra_feats=extra)
                last = ("stat", q, (state, mask), kind)
                previous = "statistic"
            else:
                q = random_hist_query(rng, ds, mask)
                q["sel_kind"] = kind
                ctx.count("history_hist_calls")
                run_hist_query(ctx, rng, ds, q, sel=(state, mask))
                last = ("hist", q, (state, mask), kind)
                previous = "histogram"
            if step % 5 == 4:
                for kind2, st2, m2 in pool:
                    ctx.count("history_mask_rechecks")
                    try:
                        gm = np.asarray(ds.data.get_mask(st2))
                        same = gm.shape == m2.shape and bool(np.array_equal(gm, m2))
                        if same:
                            # what compute_statistic itself reads (possibly a memoized array)
                            gm = np.asarray(st2.to_mask(ds.data, None))
                            same = gm.shape == m2.shape and bool(np.array_equal(gm, m2))
                    except Exception as exc:
                        ctx.violation({"api": "get_mask", "kind": "exception", "exc": type(exc).__name__,
                                       "history": "after_statistics", "selection": kind2}, {"error": repr(exc)})
                        continue
                    if not same:
                        ctx.violation({"api": "get_mask", "kind": "selection_mask_changed_after_statistics",
                                       "history": "after_statistics", "selection": kind2},
                                      {"shape": ds.shape, "selection": describe_state(st2), "expected": m2, "got": gm})
    ctx.count("history_blocks")


def run_viewer_history_block(ctx, tier):
    """One histogram layer and one profile layer kept alive while their settings change step by step (attribute, bins,
    range, log, function, x axis, the subset's state); every read is compared.  Includes a range end moved by a
    relative 1e-12 across a data value (an 'unchanged within tolerance' shortcut would serve the old counts)."""
    from glue.viewers.histogram.state import HistogramLayerState, HistogramViewerState
    from glue.viewers.profile.state import ProfileLayerState, ProfileViewerState
    rng = ctx.rng
    for _ in range(2):
        ds = hist_dataset(rng, tier)
        ds.dc = DataCollection([ds.data])
        d = ds.data
        kind = rng.choice(["none", "ineq", "mask", "pixrange"])
        sel = checked_selection(ctx, rng, ds, kind)
        if sel is None:
            continue
        state, mask = sel
        group = None
        if state is None:
            layer = d
        else:
            group = ds.dc.new_subset_group(subset_state=state, label="s")
            layer = group.subsets[0]
        # ---- histogram layer
        hv = HistogramViewerState()
        hl = HistogramLayerState(viewer_state=hv, layer=layer)
        hv.layers.append(hl)
        prev_q = None
        for step in range(10):
            if prev_q is not None and rng.random() < 0.4 and ds.kinds[prev_q["attr"]] != "float32":
                # (not for float32 attributes: a 1e-12 step is far below their own resolution and numpy compares the
                #  range end with them in float32)
                # nudge: the upper end moves by 1e-12 relative just below / back onto the largest value in range
                q = dict(prev_q)
                x = ds.raw[q["attr"]]
                inr = x[mask & np.isfinite(x) & (x >= q["lo"]) & (x <= q["hi"])]
                if inr.size and inr.max() > q["lo"] and inr.max() != 0:
                    top = float(inr.max())
                    q["hi"] = top if q["hi"] != top else float(np.nextafter(top, -np.inf)) if rng.random() < 0.5 \
                        else top * (1 - 1e-12) if top > 0 else top * (1 + 1e-12)
                    q["range_kind"] = "nudged_by_1e-12"
                    ctx.count("viewer_history_nudged_range")
            else:
                q = random_hist_query(rng, ds, mask)
                q["weights"], q["reversed"], q["log"] = None, False, bool(q["log"])
                if q["attr"] == "c":
                    q["attr"] = "i"
            q["sel_kind"] = kind
            prev_q = q

            def layer_call(state_, rng_arg, q=q):
                hv.x_att = cid_of(ds, q["attr"])
                hv.x_log = q["log"]
                hv.hist_x_min, hv.hist_x_max = rng_arg
                hv.hist_n_bin = q["bins"]
                edges, values = hl.histogram
                if len(values) != q["bins"]:
                    raise AssertionError("histogram has %d bins, %d requested" % (len(values), q["bins"]))
                return values
            ctx.count("viewer_history_histogram_reads")
            run_hist_query(ctx, rng, ds, q, api="HistogramLayerState.histogram", layer_call=layer_call, sel=(state, mask))
        # ---- profile layer
        pv = ProfileViewerState()
        pl = ProfileLayerState(viewer_state=pv, layer=layer)
        pv.layers.append(pl)
        cur_mask, cur_kind = mask, kind
        for step in range(8):
            attr = pick_attr(rng, ds, ("v", "i", "der", "mg", "u1"))
            stat = rng.choice(["maximum", "minimum", "mean", "median", "sum"])
            k = rng.randrange(ds.nd)
            if group is not None and rng.random() < 0.35:
                sel2 = checked_selection(ctx, rng, ds, rng.choice(["ineq", "mask", "pixrange", "empty"]))
                if sel2 is not None:
                    group.subset_state = sel2[0]
                    cur_mask, cur_kind = sel2[1], "changed_in_place"
                    ctx.count("viewer_history_subset_state_changed")
            vals = ds.raw[attr]
            keep = cur_mask & np.isfinite(vals)
            axes = tuple(a for a in range(ds.nd) if a != k)
            exp = ref_statistic(stat, vals, keep, axes)
            ctx.evaluation(["profile_history", ds.kinds[attr], stat, cur_kind, list(ds.shape), k], int(keep.sum()) >= 2)
            ctx.count("viewer_history_profile_reads")
            feats = {"api": "ProfileLayerState.profile", "attr_kind": ds.kinds[attr], "stat": stat, "selection": cur_kind,
                     "history": "settings_changed_step_by_step", "ndim": ds.nd}
            try:
                pv.x_att = d.pixel_component_ids[k]
                pv.function = stat
                pl.attribute = d.id[attr]
                prof = pl.profile
                if prof is None:
                    prof = pl.profile
            except Exception as exc:
                ctx.violation(dict(feats, kind="exception", exc=type(exc).__name__), {"error": repr(exc)[:300]})
                continue
            if prof is None:
                ctx.count("excluded_profile_unavailable")
                continue
            y = np.asarray(prof[1], dtype=float)
            if np.all(np.isnan(exp)):
                ok = len(y) == 0 or (y.shape == exp.shape and bool(np.all(np.isnan(y))))
            else:
                kept = vals[keep]
                ok = y.shape == exp.shape and close(y, exp, 1e-9, float(np.max(np.abs(kept))) if kept.size else 0.0)
            if not ok:
                ctx.violation(dict(feats, kind="shape_mismatch" if y.shape != exp.shape and len(y) else "value_mismatch"),
                              {"shape": ds.shape, "attr": attr, "statistic": stat, "x_axis": k, "expected": exp, "got": y,
                               "full_mask": cur_mask})
        if group is not None:
            ds.dc.remove_subset_group(group)
    ctx.count("viewer_history_blocks")


# ---------------------------------------------------------------- larger datasets, dask-backed attributes
BIG_SHAPES = [(300,), (2000,), (5000,), (40, 30), (12, 10, 9), (6, 5, 4, 5), (150, 2)]


def run_big_block(ctx, tier, k):
    """Enough rows to leave numpy's small-array paths (medians / percentiles / histograms of hundreds to thousands of
    values with duplicates) and chunk limits far below, near and above the size, with selections that leave whole
    chunks without a selected value."""
    rng = ctx.rng
    shape = BIG_SHAPES[k % len(BIG_SHAPES)]
    ds = make_dataset(rng, tier, shape=shape)
    for j in range(10):
        q = random_stat_query(rng, ds)
        if j % 2 == 0 and ds.nd >= 2:
            keep = rng.randrange(ds.nd)
            q.update({"view_kind": "none", "view": None, "axis": tuple(a for a in range(ds.nd) if a != keep),
                      "axis_kind": "partial", "kept_axis": keep,
                      "n_chunk_max": rng.choice([1, 7, ds.size // 50 + 1, ds.size // 3, ds.size - 1, ds.size, ds.size + 1]),
                      "sel_kind": rng.choice(["pixrange_kept", "pixrange_kept", "ineq", "mask", "none", "or"])})
            ctx.count("big_chunked_with_possibly_empty_chunks")
        q["attr"] = pick_attr(rng, ds, ("v", "v", "i", "f4", "u1", "mg", "der"))
        ctx.count("big_stat_queries")
        run_stat_query(ctx, rng, ds, q)
    for j in range(5):
        sel_kind = rng.choice(["none", "ineq", "mask", "pixrange"])
        sel = checked_selection(ctx, rng, ds, sel_kind)
        if sel is None:
            continue
        qx = random_hist_query(rng, ds, sel[1])
        qx["sel_kind"] = sel_kind
        ctx.count("big_hist_queries")
        if j == 4:
            run_hist2d_query(ctx, rng, ds, qx, random_hist_query(rng, ds, sel[1]), sel)
        else:
            run_hist_query(ctx, rng, ds, qx, sel=sel)
    ctx.count("big_blocks")


def run_dask_block(ctx, tier):
    """The same float values stored as a dask array (chunked) instead of a numpy array."""
    import dask.array as da
    rng = ctx.rng
    for _ in range(3):
        ds = make_dataset(rng, tier)
        chunks = tuple(max(1, n // rng.choice([1, 2, 3])) for n in ds.shape)
        ds.data.add_component(da.from_array(ds.raw["v"].copy(), chunks=chunks), "dk")
        ds.raw["dk"] = ds.raw["v"]
        ds.kinds["dk"] = "dask_float"
        for j in range(8):
            if j % 3 == 2:
                sel_kind = rng.choice(["none", "ineq", "mask"])
                sel = checked_selection(ctx, rng, ds, sel_kind)
                if sel is None:
                    continue
                q = random_hist_query(rng, ds, sel[1])
                q["attr"], q["sel_kind"] = "dk", sel_kind
                x = ds.raw["dk"][sel[1]]
                x = x[np.isfinite(x)]
                if q["range_kind"] not in ("integers", "random", "outside", "zero_width", "nonpositive_log") and x.size:
                    q["lo"], q["hi"], q["range_kind"] = float(x.min()), float(x.max()), "data_minmax"
                    if q["log"] and q["lo"] <= 0:
                        q["log"] = False
                ctx.count("dask_hist_queries")
                run_hist_query(ctx, rng, ds, q, sel=sel)
            else:
                q = random_stat_query(rng, ds)
                q["attr"] = "dk"
                ctx.count("dask_stat_queries")
                run_stat_query(ctx, rng, ds, q)
    ctx.count("dask_blocks")


# ---------------------------------------------------------------- pixel-aligned datasets
PERMS = {2: [((0, 1), "identity"), ((1, 0), "swap"), ((1, 0), "swap")],
         3: [((0, 1, 2), "identity"), ((0, 2, 1), "swap"), ((2, 1, 0), "swap"), ((1, 0, 2), "swap"),
             ((1, 2, 0), "cyclic"), ((2, 0, 1), "cyclic"), ((1, 2, 0), "cyclic"), ((2, 0, 1), "cyclic")]}


def run_aligned_block(ctx, tier):
    """Datasets without coordinates whose pixel axes are linked one to one (LinkSame) up to an axis permutation;
    statistics / masks / histograms of an attribute of dataset B (or C) under a SliceSubsetState / PixelSubsetState
    defined on dataset A.  Axis i of B is axis perm[i] of A."""
    from glue.core.link_helpers import LinkSame
    from glue.viewers.image.pixel_selection_subset_state import PixelSubsetState
    rng = ctx.rng
    for _ in range(3):
        nd = rng.choice([2, 3, 3])
        top = 4 if tier == "quick" else 5
        lens = list(range(2, top + 1))
        rng.shuffle(lens)
        shape_a = tuple(lens[:nd]) if rng.random() < 0.7 else tuple(rng.randint(1, top) for _ in range(nd))
        ds_a = make_dataset(rng, tier, shape=shape_a, coords="none", with_collection=True)
        others = []
        for label in ("b", "c")[:rng.choice([1, 1, 2])]:
            perm, pname = rng.choice(PERMS[nd])
            ds_b = make_dataset(rng, tier, shape=tuple(shape_a[p] for p in perm), coords="none")
            ds_b.data.label = label
            ds_a.dc.append(ds_b.data)
            for i in range(nd):
                ds_a.dc.add_link(LinkSame(ds_b.data.pixel_component_ids[i], ds_a.data.pixel_component_ids[perm[i]]))
            ds_b.dc = ds_a.dc
            others.append((ds_b, perm, pname))
        for ds_b, perm, pname in others:
            order = ds_b.data.pixel_aligned_data.get(ds_a.data)
            if order is None or list(order) != list(perm):
                ctx.count("excluded_aligned_pair_not_recognised_as_pixel_aligned")
                continue
            ctx.count("aligned_pairs_%s" % pname)
            for k in range(12):
                # a slice-based selection on A, seen from B
                if rng.random() < 0.3:
                    sl_a = [slice(None)] * nd
                    for ax in rng.sample(range(nd), rng.randint(1, nd)):
                        p0 = rng.randrange(shape_a[ax])
                        sl_a[ax] = slice(p0, p0 + 1)
                    state, cls = PixelSubsetState(ds_a.data, list(sl_a)), "PixelSubsetState"
                else:
                    sl_a = rand_state_slices(rng, shape_a, allow_short=False)
                    state, cls = SliceSubsetState(ds_a.data, list(sl_a)), "SliceSubsetState"
                mask_a = np.zeros(shape_a, bool)
                mask_a[tuple(sl_a)] = True
                mask_b = np.transpose(mask_a, perm)
                sl_b = [sl_a[p] for p in perm]
                extra = {"selection_defined_on": "pixel_aligned_dataset", "axis_permutation": pname, "state_class": cls}
                wrap = rng.random()
                sel_kind, shortcut = "slice_state", sl_b
                if wrap < 0.15:
                    state, mask_b, sel_kind, shortcut = ~state, ~mask_b, "not_slice", None
                # the mask itself, for comparison
                ctx.count("aligned_mask_compared")
                try:
                    gm = np.asarray(ds_b.data.get_mask(state))
                    okm = gm.shape == mask_b.shape and bool(np.array_equal(gm, mask_b))
                except Exception as exc:
                    ctx.violation(dict(extra, api="get_mask", kind="exception", exc=type(exc).__name__, selection=sel_kind),
                                  {"shape_a": shape_a, "perm": perm, "slices_a": describe_view(tuple(sl_a)), "error": repr(exc)})
                    continue
                if not okm:
                    ctx.violation(dict(extra, api="get_mask", kind="mask_mismatch", selection=sel_kind),
                                  {"shape_a": shape_a, "perm": perm, "slices_a": describe_view(tuple(sl_a)), "got": gm,
                                   "expected": mask_b})
                    continue
                sel = (state, mask_b)
                if k % 4 == 3:
                    qh = random_hist_query(rng, ds_b, mask_b)
                    qh["sel_kind"] = sel_kind
                    run_hist_query(ctx, rng, ds_b, qh, sel=sel)
                    ctx.count("aligned_hist_queries")
                    continue
                q = random_stat_query(rng, ds_b)
                q["sel_kind"] = sel_kind
                q["kept_axis"] = None
                if k % 2 == 0:
                    # view None: the to_array shortcut; every axis kind
                    q["view_kind"], q["view"] = "none", None
                    q["axis"], q["axis_kind"] = axis_choice(rng, nd)
                    if rng.random() < 0.5:
                        q["axis"], q["axis_kind"] = None, "none"
                ctx.count("aligned_stat_queries")
                ctx.count("aligned_stat_%s" % pname)
                if q["view"] is None and sel_kind == "slice_state":
                    ctx.count("aligned_stat_shortcut_%s" % pname)
                run_stat_query(ctx, rng, ds_b, q, sel=sel, extra_feats=extra, shortcut_slices=shortcut)
    ctx.count("aligned_blocks")


# ---------------------------------------------------------------- magnitudes
# upper range ends across magnitudes; the range is the data's own min/max, so selected values equal both ends
MAGNITUDES = [1e-10, 3e-7, 0.003, 0.5, 1.0, 50.0, 3e4, 1e8, 2.5e8, 7e10, 1e12]


def magnitude_column(rng, shape, top):
    """Positive values spanning three decades below `top`, with `top` itself (the upper end) and top/1000 (the lower
    end) present at least once, some duplicates of both and some values on round fractions of `top`."""
    n = int(np.prod(shape))
    pool = [1.0, 1.0, 1e-3, 0.5, 0.25, 0.1, 0.01, 1e-3]
    fr = [rng.choice(pool) if rng.random() < 0.45 else 10 ** rng.uniform(-3, 0) for _ in range(n)]
    if n >= 2:
        i, j = rng.sample(range(n), 2)
        fr[i], fr[j] = 1.0, 1e-3
    else:
        fr[0] = 1.0
    return (np.array(fr) * top).reshape(shape)


def run_magnitude_block(ctx, tier, mi):
    """Histograms (1-d, 2-d, direct and through the viewer layer, log and linear) of an attribute of magnitude
    MAGNITUDES[mi] over ranges whose ends are data values."""
    rng = ctx.rng
    top = MAGNITUDES[mi]
    for _ in range(3):
        nd = rng.choice([1, 1, 2])
        shape = (rng.randint(4, 14),) if nd == 1 else (rng.randint(2, 4), rng.randint(2, 4))
        ds = make_dataset(rng, tier, shape=shape, with_collection=True)
        top2 = rng.choice(MAGNITUDES)
        for name, t in (("m", top), ("m2", top2)):
            ds.raw[name] = magnitude_column(rng, shape, t)
            ds.data.add_component(ds.raw[name].copy(), name)
            ds.kinds[name] = "float_magnitude"
        for k in range(14):
            sel_kind = rng.choice(["none", "none", "ineq", "mask", "pixrange", "or"])
            sel = checked_selection(ctx, rng, ds, sel_kind)
            if sel is None:
                continue

            def query(attr):
                x = ds.raw[attr][sel[1]] if sel[1].any() and rng.random() < 0.7 else ds.raw[attr]
                r = rng.random()
                if r < 0.2 and len(set(x.ravel().tolist())) >= 2:
                    # ends that agree with data values to a relative 1e-9 but include / exclude them
                    a, b = sorted(rng.sample(sorted(set(x.ravel().tolist())), 2))
                    lo, hi, rk = a * rng.choice([1 - 1e-9, 1 + 1e-9]), b * rng.choice([1 - 1e-9, 1 + 1e-9]), "data_values_nudged_1e-9"
                    ctx.count("magnitude_hist_nudged_range")
                elif r < 0.8 or len(set(x.ravel().tolist())) < 2:
                    lo, hi, rk = float(x.min()), float(x.max()), "data_minmax"
                else:
                    lo, hi = sorted(rng.sample(sorted(set(x.ravel().tolist())), 2))
                    rk = "data_values"
                return {"attr": attr, "weights": rng.choice([None, None, "i", "w"]), "sel_kind": sel_kind,
                        "log": rng.random() < 0.65, "range_kind": rk, "reversed": rng.random() < 0.2, "lo": lo, "hi": hi,
                        "bins": rng.randint(1, 12), "bins_kind": "free"}
            qx = query("m")
            ctx.count("magnitude_hist_queries")
            ctx.count("magnitude_hist_log" if qx["log"] else "magnitude_hist_linear")
            if top >= 1e4:
                ctx.count("magnitude_hist_large_log" if qx["log"] else "magnitude_hist_large_linear")
            r = k % 3
            if r == 0:
                run_hist_query(ctx, rng, ds, qx, sel=sel)
            elif r == 1:
                qx["weights"], qx["reversed"] = None, False
                run_hist_through_layer(ctx, rng, ds, qx, sel=sel)
            else:
                run_hist2d_query(ctx, rng, ds, qx, query(rng.choice(["m2", "m2", "w"])), sel)
    ctx.count("magnitude_blocks")


# ---------------------------------------------------------------- boundary guard
class HistogramArgumentError(Exception):
    pass


def setup(ctx):
    """Argument guard at the boundary between glue and the compiled fast_histogram routines: arrays of unequal length
    make the C code read out of bounds (a worker that dies decides nothing), so the guard raises instead and the
    call is reported like any other exception.  Nothing is checked about results here."""
    import glue.core.data as gd

    def guard(name):
        real = getattr(gd, name, None)
        if real is None or getattr(real, "_vf_guard", False):
            return

        def checked(*args, **kwargs):
            arrays = list(args[:1 if name == "histogram1d" else 2])
            if kwargs.get("weights") is not None:
                arrays.append(kwargs["weights"])
            sizes = {np.asarray(a).shape for a in arrays}
            if len(sizes) > 1:
                raise HistogramArgumentError("%s called with arrays of different shapes %s" % (name, sorted(sizes)))
            ctx.count("observed_fast_histogram_calls")
            return real(*args, **kwargs)
        checked._vf_guard = True
        setattr(gd, name, checked)
    guard("histogram1d")
    guard("histogram2d")


# ---------------------------------------------------------------- driver
def cases(tier, seed):
    q = tier == "quick"
    lists = [[["grid", si, sk] for si in range(len(GRID_SHAPES)) for sk in GRID_SELECTIONS],
             [["mag", mi, rep] for rep in range(1 if q else 8) for mi in range(len(MAGNITUDES))],
             [["aligned", i] for i in range(24 if q else 240)],
             [["history", i] for i in range(32 if q else 320)],
             [["viewer_history", i] for i in range(8 if q else 80)],
             [["big", i] for i in range(7 if q else 56)],
             [["dask", i] for i in range(4 if q else 40)],
             [["viewer", i] for i in range(N_VIEWER_BLOCKS[tier])],
             [["hist", i] for i in range(N_HIST_BLOCKS[tier])],
             [["stat", i] for i in range(N_STAT_BLOCKS[tier])]]
    # interleave so that every shard (and a run cut by the time cap) sees every class in proportion
    weights = [len(x) for x in lists]
    emitted = [0] * len(lists)
    for step in range(sum(weights)):
        best = None
        for j, w in enumerate(weights):
            if emitted[j] < w:
                lag = (emitted[j] + 0.5) / w
                if best is None or lag < best[0]:
                    best = (lag, j)
        j = best[1]
        yield lists[j][emitted[j]]
        emitted[j] += 1


def run_case(ctx, case):
    kind = case[0]
    if kind == "stat":
        run_stat_block(ctx, ctx.tier)
    elif kind == "hist":
        run_hist_block(ctx, ctx.tier)
    elif kind == "grid":
        run_grid(ctx, ctx.tier, case[1], case[2])
    elif kind == "viewer":
        run_viewer_block(ctx, ctx.tier)
    elif kind == "aligned":
        run_aligned_block(ctx, ctx.tier)
    elif kind == "history":
        run_history_block(ctx, ctx.tier)
    elif kind == "viewer_history":
        run_viewer_history_block(ctx, ctx.tier)
    elif kind == "big":
        run_big_block(ctx, ctx.tier, case[1])
    elif kind == "dask":
        run_dask_block(ctx, ctx.tier)
    elif kind == "mag":
        run_magnitude_block(ctx, ctx.tier, case[1])
    else:
        raise ValueError(case)


def floors(counters, tier):
    out = []
    need = {"stat_sel_pix_roi": 300, "stat_selection_mask_is_broadcast_array": 200,
            "stat_broadcast_mask_with_dimension_preserving_view": 150, "stat_view_negative_bounds": 300, "stat_negative_bounds_view_with_selection_reaching_its_end": 150,
            "stat_finite_false_with_infinities": 80, "stat_finite_false_lane_with_only_infinite_values": 30,
            "history_stat_calls": 150, "history_hist_calls": 80, "history_mask_rechecks": 300, "history_repeated_calls": 40,
            "history_fault_call_raised": 40, "viewer_history_histogram_reads": 30, "viewer_history_nudged_range": 6,
            "viewer_history_profile_reads": 25, "big_stat_queries": 15, "big_chunked_with_possibly_empty_chunks": 4,
            "dask_stat_queries": 15, "dask_hist_queries": 5, "stat_numpy_scalar_arguments": 800,
            "hist_numpy_scalar_arguments": 200, "stat_attr_float32": 150, "stat_attr_uint8": 150, "stat_attr_int8": 150,
            "stat_attr_float_big_endian": 150, "stat_attr_int_big_endian": 150, "stat_attr_float_magnitude": 300,
            "stat_view_empty_tuple": 100, "stat_view_list_of_slices": 100, "stat_layout_fortran_copy": 100,
            "stat_layout_transposed_view": 100, "stat_layout_strided_view": 100, "stat_layout_reversed_view": 100,
            "stat_layout_broadcast_stride0": 100, "magnitude_hist_nudged_range": 20,
            "stat_compared": 1500, "hist_compared": 800, "hist2d_compared": 150, "magnitude_hist_large_log": 25,
            "magnitude_hist_large_linear": 10, "aligned_stat_cyclic": 60, "aligned_stat_swap": 60,
            "aligned_stat_shortcut_cyclic": 25, "aligned_mask_compared": 150, "aligned_hist_queries": 30, "hist_value_at_positive_log_upper_end": 40, "stat_chunking_chunked_reduction": 300,
            "stat_minimal_subarray_configuration": 400, "stat_padding_configuration": 200,
            "stat_slice_state_shortcut_configuration": 40, "stat_nothing_qualifies": 50, "stat_zero_size_view": 30,
            "hist_log": 50, "hist_weighted": 100, "hist_reversed_range": 50, "hist_cases_with_edge_coincident_values": 30,
            "profile_compared": 40, "histogram_layer_calls": 40, "indexed_data_calls": 20}
    for s in STATS:
        need["stat_%s" % s] = 150
    for k in ("none", "ineq", "slice_state", "pixrange", "mask", "empty", "not_slice", "and", "or", "pix_roi"):
        need["stat_sel_%s" % k] = 40
    for k in ("none", "ellipsis", "slice_tuple_full", "slice_tuple_short", "int_slice_mix", "all_int", "empty_slice", "bare_slice"):
        need["stat_view_%s" % k] = 15
    for k in ("none", "partial", "all_axes", "empty_tuple"):
        need["stat_axis_%s" % k] = 40
    for key, low in need.items():
        if counters.get(key, 0) < low:
            out.append("fewer than %d %s (saw %d)" % (low, key, counters.get(key, 0)))
    if counters.get("excluded_reference_mask_disagrees_with_get_mask", 0) > 0.02 * max(1, counters.get("stat_calls", 0)):
        out.append("reference masks disagree with Data.get_mask in more than 2% of the cases")
    return out
