"""C17 - a dataset stays structurally consistent and announces every structural change.

Shape: history + invariant at a quiescent point + announcement ledger.

A *world* is one or two `Data` objects (no hub / bare hub / inside a
`DataCollection`, optionally with a cross-dataset link) plus a catch-all hub
listener.  A *history* is a random sequence of calls of the public mutation
API (add / add derived / remove / reorder / rename / update_id /
update_components / update_values_from_data / coords / label) with valid and
invalid arguments.  After every call the driver

 (I)  evaluates the structural invariants of the statement literally on the
      public accessors (`shape`, `components`, `get_data`, `pixel_component_ids`,
      `world_component_ids`, `coordinate_components`, `find_component_id`);
 (L1) reconciles the hub messages delivered during the call with the *observed*
      difference of `components` before/after (every appearance announced once by
      DataAddComponentMessage, every disappearance once by
      DataRemoveComponentMessage, re-identification by ComponentReplacedMessage,
      order change by DataReorderComponentMessage, rename by
      DataRenameComponentMessage, values by NumericalDataChangedMessage, label by
      DataUpdateMessage; nothing else, nothing about another dataset);
 (L2) for valid arguments compares the new component list with the list the
      operation is documented to produce (computed by a small model that only
      knows identities, order and the dependency closure of derived attributes).

The first violation ends a history (later states would only repeat it).
"""
import numpy as np

from glue.core import Data, DataCollection
from glue.core.component import Component
from glue.core.component_id import ComponentID, PixelComponentID
from glue.core.component_link import ComponentLink
from glue.core.coordinates import AffineCoordinates, IdentityCoordinates
from glue.core.hub import Hub, HubListener
from glue.core import message as M

ID = "C17"
LEVEL = "exploration"
BUDGET_S = {"quick": 35.0, "thorough": 480.0}
RULE = ("cases are blocks of random histories (4-22 calls) over the Data mutation API: add (array / list / Component; "
        "numeric, categorical, datetime; new label, duplicate label, fresh or existing ComponentID; wrong shape), add "
        "derived (chains; foreign inputs), remove (main, derived with transitive dependants, absent, coordinate), "
        "reorder (permutation, identical, wrong length / members), rename (new, same, duplicate label), update_id "
        "(leaf, input of a derived attribute, pixel / world attribute, absent, onto an existing id), update_components "
        "(by id / by Component, wrong shape, derived target), update_values_from_data (same / new shape, added and "
        "dropped columns, coordinates appearing / disappearing / replaced, new dimensionality, derived columns, "
        "sibling dataset as source), coords reassignment, label change, and blocks of calls inside "
        "hub.delay_callbacks(); on datasets without hub, with a bare hub, in a collection, in a collection with a "
        "linked sibling; start states from empty to 3-d with and without coordinates. One evaluation = one call "
        "followed by the invariant + ledger check; non-trivial when the call changed the dataset or was rejected; "
        "distinct = distinct (mode, dimensionality, has-coords, previous call, call variant, outcome).")
ASSUMPTIONS = [
    "the message documented for an operation is the one named in message.py / the method's docstring: "
    "DataAddComponentMessage / DataRemoveComponentMessage (+ ComponentsChangedMessage), DataReorderComponentMessage, "
    "DataRenameComponentMessage, ComponentReplacedMessage, NumericalDataChangedMessage, DataUpdateMessage('label')",
    "ComponentsChangedMessage carries no component: at least one per call that added or removed something and none "
    "otherwise is accepted (the code base itself notes that it sends too many)",
    "a call that raises may have changed the dataset as long as the invariants hold and everything that changed was "
    "announced (the statement does not promise atomicity); values replaced by a failed update_components are tallied",
    "assigning a component id its current label may or may not be announced (the statement does not say whether an "
    "idempotent assignment is a change); both are accepted and tallied",
    "when several components carry the same label, find_component_id may return None or any of them, except that "
    "the docstring's rule 'a unique match among the main components wins' is checked",
    "ExternallyDerivableComponentsChangedMessage / PixelAlignedDataChangedMessage and subset messages are link / "
    "subset bookkeeping, not structural changes of a dataset: tallied, never deciding",
]
ANCHORS = ["glue.core.data:Data.add_component", "glue.core.data:Data.remove_component",
           "glue.core.data:Data.reorder_components", "glue.core.data:Data.update_id",
           "glue.core.data:Data.update_components", "glue.core.data:Data.update_values_from_data",
           "glue.core.data:Data._update_world_components", "glue.core.data:Data.find_component_id",
           "glue.core.data:Data._check_can_add", "glue.core.component_id:ComponentID.label"]

MODES = ["nohub", "barehub", "collection", "collection_linked"]
N_BLOCKS = {"quick": 320, "thorough": 24000}
HIST_PER_BLOCK = 6


# ---------------------------------------------------------------- helpers
def ids(seq):
    return [id(x) for x in seq]


def is_in(x, seq):
    return any(x is y for y in seq)


def labels(seq):
    return [getattr(c, "label", repr(c)) for c in seq]


import collections
LOOKUP_CASES = collections.Counter()      # tallies of the lookup situations met by invariants(); flushed per case


class Recorder(HubListener):
    """Catch-all listener.  Besides logging it *reads* the sender while the message is being delivered: outside a
    harness delay block an announced appearance must already be visible and an announced disappearance already done."""

    def __init__(self, hub):
        self.log = []
        self.in_block = False
        self.early = []
        hub.subscribe(self, M.Message, handler=self.receive)

    def receive(self, msg):
        self.log.append(msg)
        if self.in_block:
            return
        try:
            if type(msg) is M.DataAddComponentMessage:
                if not is_in(msg.component_id, msg.sender.components):
                    self.early.append(("appearance_announced_before_it_is_visible", msg.component_id.label))
            elif type(msg) is M.DataRemoveComponentMessage:
                if is_in(msg.component_id, msg.sender.components):
                    self.early.append(("disappearance_announced_while_still_visible", msg.component_id.label))
            elif type(msg) is M.DataReorderComponentMessage:
                if ids(list(msg.component_ids)) != ids(msg.sender.components):
                    self.early.append(("reorder_announced_with_list_that_is_not_current", None))
            elif type(msg) is M.ComponentReplacedMessage:
                if is_in(msg.old, msg.sender.components) or not is_in(msg.new, msg.sender.components):
                    self.early.append(("replacement_announced_before_it_is_visible", msg.new.label))
        except Exception as e:      # a read during delivery failed
            self.early.append(("read_during_delivery_raised:" + type(e).__name__, None))


class Reactor(HubListener):
    """Re-entrant listener: when armed, reacts to the announcement of a new stored numeric attribute by calling back
    into the dataset (rename it / remove it / derive from it / read it) while the hub is still delivering."""

    def __init__(self, world):
        self.world = world
        self.action = None
        self.target = None
        self.done = []
        world.hub.subscribe(self, M.DataAddComponentMessage, handler=self.receive)

    def arm(self, action, model):
        self.action, self.target, self.done = action, model, []

    def disarm(self):
        self.action = None
        out, self.done = self.done, []
        return out

    def receive(self, msg):
        if self.action is None or msg.sender is not self.target.d:
            return
        m, d, cid = self.target, msg.sender, msg.component_id
        if not is_in(cid, d.main_components) or not _is_plain_numeric(d, cid):
            return
        action, self.action = self.action, None
        if action == "rename":
            cid.label = m.fresh("rr")
            self.done.append(("rename", cid, m))
        elif action == "remove":
            d.remove_component(cid)
            self.done.append(("remove", cid, m))
        elif action == "add_derived":
            d.add_component_link(cid * 2, m.fresh("rder"))
            new = d.components[-1]
            m.derived.append(new)
            m.deps[id(new)] = [cid]
            self.done.append(("add_derived", new, m))
        else:
            shp = np.shape(d.get_data(cid))
            ok = tuple(shp) == tuple(d.shape) and d.find_component_id(cid) is cid
            self.done.append(("read" if ok else "read_inconsistent", cid, m))


class Stop(Exception):
    """Ends the current history after a violation has been recorded."""


class EndHistory(Exception):
    """Ends the current history without a violation: the datasets may have been damaged silently by a call from a class
    with known defects, so nothing that happens later could be attributed to its cause."""


# ---------------------------------------------------------------- model of one dataset
class Model:
    """What the harness knows about a dataset independently of glue: the ordered identities it expects in
    `components`, which of them are derived from which (for the removal closure), and what it did to them."""

    def __init__(self, data, name):
        self.d = data
        self.name = name
        self.deps = {}            # id(derived cid) -> list of input cids
        self.derived = []         # derived cids added by the harness (identity list)
        self.orphaned = []        # derived cids one of whose inputs was re-identified with update_id
        self.broken_by_harness = []   # cids whose component was deliberately corrupted by an invalid call that was accepted
        self.aliased_to = None    # sibling Model whose Component / coordinate objects this dataset shares after a refresh
        self.alias_stale = False  # ... and the sibling changed shape afterwards
        self.entangled = False    # exchanged component / coordinate objects with a sibling through a refresh: later
        #                           damage of either dataset is an after-effect of that; only the two directly attributable
        #                           observations (shape of shared objects, source robbed of its derived attributes) are judged
        self.removed = []         # stored attributes the harness removed (candidates for remove-again / re-add)
        self.robbed = []          # derived cids of this dataset after it served as the source of a sibling's refresh
        self.counter = 0

    def fresh(self, stem):
        self.counter += 1
        return "%s%d" % (stem, self.counter)

    def kind_of(self, cid):
        d = self.d
        if is_in(cid, d.pixel_component_ids):
            return "pixel"
        if is_in(cid, d.world_component_ids):
            return "world"
        if is_in(cid, self.derived):
            return "derived"
        if is_in(cid, d.components):
            return "main" if is_in(cid, d.main_components) else ("derived" if is_in(cid, d.derived_components) else "coordinate_other")
        return "absent"

    def closure(self, cid, live=None):
        """cid plus every harness-known derived attribute (among `live`, default: the current components) that
        (transitively) reads it."""
        gone = [cid]
        live = self.d.components if live is None else live
        changed = True
        while changed:
            changed = False
            for dc in self.derived:
                if is_in(dc, gone) or not is_in(dc, live):
                    continue
                if any(is_in(i, gone) for i in self.deps[id(dc)]):
                    gone.append(dc)
                    changed = True
        return gone

    def depth_below(self, cid, gone):
        """Length of the longest dependency chain hanging below cid among `gone` (0 = nothing depends on it)."""
        best = 0
        for dc in self.derived:
            if is_in(dc, gone) and dc is not cid and is_in(cid, self.deps.get(id(dc), [])):
                best = max(best, 1 + self.depth_below(dc, gone))
        return best

    def prune(self):
        live = self.d.components
        self.derived = [c for c in self.derived if is_in(c, live)]
        self.orphaned = [c for c in self.orphaned if is_in(c, live)]
        self.broken_by_harness = [c for c in self.broken_by_harness if is_in(c, live)]
        self.robbed = [c for c in self.robbed if is_in(c, live)]


# ---------------------------------------------------------------- value recipes
def values(rng, shape, kind="num"):
    n = int(np.prod(shape)) if len(shape) else 1
    if kind == "num":
        scale = rng.choice([1.0, 1.0, 1.0, 1e-10, 1e12])      # magnitudes must not matter to structure
        return (np.array([round(rng.uniform(-5, 5), 2) for _ in range(n)], dtype=float) * scale).reshape(shape)
    if kind == "int":
        return np.array([rng.randint(-3, 9) for _ in range(n)], dtype=int).reshape(shape)
    if kind == "cat":
        return np.array([rng.choice(["a", "b", "cc"]) for _ in range(n)], dtype="U2").reshape(shape)
    if kind == "date":
        return (np.datetime64("2020-01-01") + np.array([rng.randint(0, 40) for _ in range(n)]).astype("timedelta64[D]")).reshape(shape)
    raise ValueError(kind)


DTYPES = ["float64", "float32", "int8", "int64", "uint16", ">f8", "bool"]
LAYOUTS = ["contiguous", "transposed_view", "fortran", "reversed", "strided", "broadcast"]


def fancy_values(rng, shape, dtype=None, layout=None):
    """Numeric values of the dataset's shape in a chosen dtype and memory layout -> (array, dtype name, layout name)."""
    dtype = dtype or rng.choice(DTYPES)
    layout = layout or rng.choice(LAYOUTS)
    n = int(np.prod(shape)) if len(shape) else 1
    base = np.array([rng.randint(0, 100) for _ in range(n)], dtype=float).reshape(shape)
    if dtype == "bool":
        base = base > 50
    arr = base.astype(dtype)
    if layout == "transposed_view" and len(shape) >= 2:
        arr = np.ascontiguousarray(arr.T).T
    elif layout == "fortran" and len(shape) >= 2:
        arr = np.asfortranarray(arr)
    elif layout == "reversed" and len(shape) >= 1:
        arr = arr[tuple(slice(None, None, -1) for _ in shape)]
    elif layout == "strided" and len(shape) >= 1:
        big = np.zeros(tuple(2 * s_ for s_ in shape), dtype=arr.dtype)
        view = big[tuple(slice(None, None, 2) for _ in shape)]
        view[...] = arr
        arr = view
    elif layout == "broadcast" and len(shape) >= 1 and n > 0:
        # stride-0 array: one slice repeated along the first axis
        arr = np.broadcast_to(arr[:1], shape)
    else:
        layout = "contiguous"
    assert tuple(arr.shape) == tuple(shape)
    return arr, dtype, layout


def same_size_other_shape(shape):
    """A different shape with the same number of elements (None if there is none that is cheap to state)."""
    if len(shape) >= 2 and shape[0] != shape[-1]:
        return tuple(reversed(shape))
    if len(shape) >= 2:
        return (int(np.prod(shape)),)
    if len(shape) == 1:
        return (shape[0], 1)
    return None


def rand_shape(rng, nd=None):
    nd = nd or rng.choice([1, 1, 2, 2, 3])
    return tuple(rng.randint(1, 4) for _ in range(nd))


def other_shape(rng, shape):
    """A shape of the same dimensionality that differs."""
    if not shape:
        return (2,)
    s = list(shape)
    i = rng.randrange(len(s))
    s[i] = s[i] + rng.choice([1, 2])
    return tuple(s)


def make_coords(rng, nd, kind):
    if kind == "none":
        return None
    if kind == "identity":
        return IdentityCoordinates(n_dim=nd)
    m = np.eye(nd + 1)
    for i in range(nd):
        m[i, i] = rng.choice([0.5, 2.0, 3.0])
        m[i, nd] = rng.choice([0.0, 1.0, -2.0])
    if nd > 1 and kind == "affine_coupled":
        m[0, 1] = 0.25
    return AffineCoordinates(m)


# ---------------------------------------------------------------- the world
class World:
    def __init__(self, ctx, mode, start):
        rng = ctx.rng
        self.ctx = ctx
        self.mode = mode
        self.models = []
        self.hub = None
        self.dc = None
        n = 2 if mode.startswith("collection") else 1
        for k in range(n):
            self.models.append(Model(self.build(rng, start if k == 0 else rng.choice(START_KINDS), "d%d" % k), "d%d" % k))
        if mode == "barehub":
            self.hub = Hub()
            self.models[0].d.register_to_hub(self.hub)
        elif mode.startswith("collection"):
            self.dc = DataCollection([m.d for m in self.models])
            self.hub = self.dc.hub
            if mode == "collection_linked":
                a, b = self.models[0].d, self.models[1].d
                if a.main_components and b.main_components:
                    try:
                        self.dc.add_link(ComponentLink([a.main_components[0]], b.main_components[0]))
                    except Exception:
                        ctx.count("setup_link_failed")
        self.rec = Recorder(self.hub) if self.hub is not None else None
        self.reactor = Reactor(self) if self.hub is not None else None

    def build(self, rng, start, label):
        if start == "empty":
            return Data(label=label)
        if start == "empty_coords":
            return Data(label=label, coords=IdentityCoordinates(n_dim=rng.choice([1, 2])))
        nd = {"1d": 1, "2d": 2, "3d": 3}[start[:2]]
        shape = rand_shape(rng, nd)
        special = start.split(":")[1] if ":" in start else None
        start = start.split(":")[0]
        if special == "zero_rows":
            shape = (0,)
        elif special == "zero_axis":
            shape = (rng.randint(1, 3), 0)
        elif special == "single":
            shape = (1,)
        elif special == "long":
            shape = (120,)
        ck = start[3:]
        d = Data(label=label, coords=make_coords(rng, nd, ck))
        d.add_component(values(rng, shape), "a")
        d.add_component(values(rng, shape, "int"), "b")
        if rng.random() < 0.5:
            d.add_component(values(rng, shape, "cat"), "c")
        if rng.random() < 0.3:
            d.add_component(values(rng, shape, "date"), "t")
        if special == "wide":
            for k in range(20):
                d.add_component(values(rng, shape, "int"), "w%02d" % k)
        return d


START_KINDS = ["empty", "empty_coords", "1d_none", "1d_identity", "1d_affine", "2d_none", "2d_identity", "2d_affine",
               "2d_affine_coupled", "3d_none", "3d_identity", "3d_affine_coupled",
               # scale / extreme starts: no rows, a zero-length axis, a single element, many rows, many columns
               "1d_none:zero_rows", "2d_identity:zero_axis", "1d_identity:single", "1d_none:long", "2d_none:wide"]


# ---------------------------------------------------------------- snapshots
class Snap:
    def __init__(self, m):
        d = m.d
        self.comps = list(d.components)
        self.shape = d.shape
        self.label = d.label
        self.coords = d.coords
        self.pix = list(d.pixel_component_ids)
        self.world = list(d.world_component_ids)
        self.labels = {id(c): c.label for c in self.comps}


# ---------------------------------------------------------------- invariants (I)
def invariants(m):
    """List of (kind, extra-signature, detail) for every violated invariant of the statement."""
    d = m.d
    out = []
    try:
        comps = d.components
        comps2 = d.components
    except Exception as e:
        return [("components_unreadable", {"exc": type(e).__name__}, repr(e))]
    if ids(comps) != ids(comps2) or ids(comps) != ids(list(d.component_ids())):
        out.append(("component_list_not_stable", {}, labels(comps)))
    if len(set(ids(comps))) != len(comps):
        out.append(("duplicate_identifier", {}, labels(comps)))
    shape = d.shape
    nd = d.ndim
    if nd != len(shape):
        out.append(("ndim_differs_from_shape", {}, [nd, list(shape)]))
    # every component has the dataset's shape
    for c in comps:
        ck = m.kind_of(c)
        try:
            got = np.shape(d.get_data(c))
        except Exception as e:
            out.append(("component_unreadable", {"component_kind": ck, "exc": type(e).__name__, "cause": cause_of(m, c)},
                        [c.label, repr(e)[:200]]))
            continue
        if tuple(got) != tuple(shape):
            out.append(("component_shape_differs", {"component_kind": ck, "cause": cause_of(m, c)},
                        [c.label, list(got), list(shape)]))
    # pixel attributes: one per dimension, in axis order, among the components;
    # world attributes: one per dimension iff coordinates are set, among the components;
    # the coordinate attributes among the components are exactly those
    pix = list(d.pixel_component_ids)
    wor = list(d.world_component_ids)
    want = nd if (d.coords is not None and len(comps) > 0) else 0
    bad = []
    if len(pix) != nd:
        bad.append("pixel_count_%s" % ("more" if len(pix) > nd else "fewer"))
    elif [getattr(p, "axis", None) for p in pix] != list(range(nd)):
        bad.append("pixel_axes")
    if len(set(ids(pix))) != len(pix):
        bad.append("pixel_repeated")
    if any(not is_in(p, comps) for p in pix):
        bad.append("pixel_not_a_component")
    if len(wor) != want:
        bad.append("world_count_%s" % ("more" if len(wor) > want else "fewer"))
    if len(set(ids(wor))) != len(wor):
        bad.append("world_repeated")
    if any(not is_in(w, comps) for w in wor):
        bad.append("world_not_a_component")
    try:
        cc = list(d.coordinate_components)
        extra = [c for c in cc if not is_in(c, pix) and not is_in(c, wor)]
        if extra:
            bad.append("extra_coordinate_component")
        part = list(d.main_components) + list(d.derived_components) + cc
        if sorted(ids(part)) != sorted(ids(comps)):
            out.append(("main_derived_coordinate_do_not_partition_components", {}, [labels(part), labels(comps)]))
    except Exception as e:
        out.append(("classification_unreadable", {"exc": type(e).__name__}, repr(e)[:200]))
    if bad:
        out.append(("coordinate_attributes_inconsistent",
                    {"pixel": any(x.startswith("pixel") for x in bad), "world": any(x.startswith("world") for x in bad),
                     "extra": "extra_coordinate_component" in bad},
                    {"problems": bad, "pixel": labels(pix), "world": labels(wor), "components": labels(comps), "shape": list(shape),
                     "coords_set": d.coords is not None}))
    # lookup by name
    labs = labels(comps)
    for lab in sorted(set(labs)):
        match = [c for c in comps if c.label == lab]
        try:
            r = d.find_component_id(lab)
        except Exception as e:
            out.append(("lookup_raised", {"exc": type(e).__name__}, [lab, repr(e)[:200]]))
            continue
        if len(match) == 1:
            if r is not match[0]:
                out.append(("lookup_misses_unique_label", {"component_kind": m.kind_of(match[0]),
                                                           "returned": "none" if r is None else "other"}, [lab, repr(r)]))
            LOOKUP_CASES["unique_label"] += 1
        else:
            if r is not None and not is_in(r, match):
                out.append(("lookup_returns_non_match", {}, [lab, repr(r)]))
            mains = [c for c in match if is_in(c, d.main_components)]
            ders = [c for c in match if is_in(c, d.derived_components)]
            coor = [c for c in match if not is_in(c, mains) and not is_in(c, ders)]
            case = "main%s_derived%s_coord%s" % tuple(min(len(x), 2) for x in (mains, ders, coor))
            LOOKUP_CASES["repeated_label:" + case] += 1
            if len(mains) == 1 and r is not mains[0]:
                out.append(("lookup_precedence_main_first", {"returned": "none" if r is None else m.kind_of(r), "case": case},
                            [lab, repr(r)]))
            # documented search order main > derived > coordinate: with no stored attribute of that name a single
            # derived one is the answer even if a coordinate attribute carries the label too
            if len(mains) == 0 and len(ders) == 1 and r is not ders[0]:
                out.append(("lookup_precedence_derived_before_coordinate", {"returned": "none" if r is None else m.kind_of(r), "case": case},
                            [lab, repr(r)]))
        try:
            viaid = d.id[lab]
            if r is None or viaid is not r:
                out.append(("id_lookup_disagrees", {}, [lab]))
        except KeyError:
            if r is not None:
                out.append(("id_lookup_disagrees", {}, [lab]))
        except Exception as e:
            out.append(("lookup_raised", {"exc": type(e).__name__, "via": "id"}, [lab, repr(e)[:200]]))
    try:
        if d.find_component_id("__no_such_label__") is not None:
            out.append(("lookup_invents_match", {}, None))
        # labels that only share a prefix / differ in case or blanks are different labels
        for lab in sorted(set(labs))[:2]:
            for near in (lab + " ", lab[:-1], lab.upper() if lab.upper() != lab else lab.lower(), " " + lab):
                if near not in labs and near != "":
                    LOOKUP_CASES["near_miss_probe"] += 1
                    r = d.find_component_id(near)
                    if r is not None and is_in(r, comps):
                        out.append(("lookup_matches_different_label", {}, [near, r.label]))
        for c in comps[:3]:
            if d.find_component_id(c) is not c:
                out.append(("lookup_by_identifier_misses", {"component_kind": m.kind_of(c)}, c.label))
        if d.find_component_id(ComponentID("a")) is not None:
            out.append(("lookup_by_foreign_identifier_matches", {}, None))
    except Exception as e:
        out.append(("lookup_raised", {"exc": type(e).__name__, "via": "probe"}, repr(e)[:200]))
    return out


def cause_of(m, c):
    """Why the harness thinks component c might be damaged (structural classifier for signatures)."""
    if is_in(c, m.orphaned):
        return "input_re_identified_by_update_id"
    if is_in(c, m.broken_by_harness):
        return "values_assigned_to_computed_component"
    if is_in(c, m.robbed):
        return "derived_component_taken_over_by_dataset_refreshed_from_this_one"
    if m.alias_stale:
        return "shares_objects_with_sibling_that_changed_shape"
    return "none"


# ---------------------------------------------------------------- announcement ledger (L1)
STRUCTURAL = (M.DataAddComponentMessage, M.DataRemoveComponentMessage, M.DataReorderComponentMessage,
              M.DataRenameComponentMessage, M.ComponentsChangedMessage, M.NumericalDataChangedMessage,
              M.DataUpdateMessage)


def ledger(world, touched, before, msgs, expect, composite):
    """Compare delivered messages with the observed before/after difference of every dataset of the world.
    `touched` = models the call was aimed at; `expect` = per model name dict(rename=[(cid, 'yes'|'maybe')],
    numerical='yes'|'no'|'any', replaced=[(old,new)] or None for 'whatever is consistent')."""
    out = []
    ctx = world.ctx
    by_model = {m.name: [] for m in world.models}
    for msg in msgs:
        if not isinstance(msg, STRUCTURAL):
            ctx.count("msg_other:" + type(msg).__name__)
            continue
        ctx.count("msg:" + type(msg).__name__)
        owner = [m for m in world.models if m.d is msg.sender]
        if not owner:
            out.append(("message_from_unknown_dataset", {"message": type(msg).__name__}, repr(msg.sender)))
            continue
        by_model[owner[0].name].append(msg)
    for m in world.models:
        b = before[m.name]
        after = list(m.d.components)
        mm = by_model[m.name]
        ex = expect.get(m.name, {})
        is_target = is_in(m, touched)
        adds = [x.component_id for x in mm if type(x) is M.DataAddComponentMessage]
        rems = [x.component_id for x in mm if type(x) is M.DataRemoveComponentMessage]
        reps = [(x.old, x.new) for x in mm if type(x) is M.ComponentReplacedMessage]
        generic = [x for x in mm if type(x) is M.ComponentsChangedMessage]
        reorders = [x for x in mm if type(x) is M.DataReorderComponentMessage]
        renames = [x.component_id for x in mm if type(x) is M.DataRenameComponentMessage]
        numer = [x for x in mm if type(x) is M.NumericalDataChangedMessage]
        upd = [x for x in mm if type(x) is M.DataUpdateMessage]
        tgt = {"on_target": is_target}
        appeared = [c for c in after if not is_in(c, b.comps)]
        vanished = [c for c in b.comps if not is_in(c, after)]
        rep_old = [o for o, n in reps]
        rep_new = [n for o, n in reps]
        # re-identification: a ComponentReplacedMessage stands for "old disappeared, new appeared in its slot"
        if not composite:
            for o, n in reps:
                if not (is_in(o, vanished) and is_in(n, after)):
                    out.append(("replacement_announced_but_not_observed", tgt, [repr(o), repr(n)]))
            if ex.get("replaced") is not None:
                key = lambda p: (id(p[0]), id(p[1]))
                if sorted(map(key, reps)) != sorted(map(key, ex["replaced"])):
                    out.append(("replacement_announcement_mismatch", dict(tgt, announced=min(len(reps), 2), expected=len(ex["replaced"])),
                                [[repr(o), repr(n)] for o, n in reps]))
        vadds = adds + [n for n in rep_new if not is_in(n, b.comps)]
        vrems = rems + list(rep_old)
        # appearances / disappearances: net effect per identifier
        universe = {id(c): c for c in list(b.comps) + after + vadds + vrems}
        for k, c in universe.items():
            na = sum(1 for x in vadds if x is c)
            nr = sum(1 for x in vrems if x is c)
            net = (1 if is_in(c, after) else 0) - (1 if is_in(c, b.comps) else 0)
            if na - nr != net or (not composite and (na > 1 or nr > 1)):
                if net == 1 and na == 0:
                    kind = "appearance_not_announced"
                elif net == -1 and nr == 0:
                    kind = "disappearance_not_announced"
                elif na > max(net, 0) and net >= 0 and nr == 0:
                    kind = "add_announced_but_nothing_appeared" if net == 0 else "appearance_announced_twice"
                elif nr > max(-net, 0) and net <= 0 and na == 0:
                    kind = "remove_announced_but_nothing_disappeared" if net == 0 else "disappearance_announced_twice"
                else:
                    kind = "add_remove_announcements_inconsistent"
                out.append((kind, dict(tgt, component_kind=m.kind_of(c) if is_in(c, after) else "gone"),
                            [c.label, {"adds": na, "removes": nr, "net": net}]))
        changed_set = bool(appeared or vanished)
        if changed_set and not reps and not generic:
            out.append(("components_changed_not_announced", tgt, None))
        if not changed_set and generic and not composite:
            out.append(("components_changed_announced_but_nothing_changed", tgt, len(generic)))
        # order of the survivors (an identifier replaced in place keeps its slot)
        if not composite and not any(is_in(n, b.comps) for n in rep_new):
            slot_b = [rep_new[ids(rep_old).index(id(c))] if is_in(c, rep_old) else c for c in b.comps]
            common_b = [c for c in slot_b if is_in(c, after)]
            common_a = [c for c in after if is_in(c, slot_b)]
            order_changed = ids(common_b) != ids(common_a)
            if order_changed and not reorders:
                out.append(("order_change_not_announced", tgt, [labels(b.comps), labels(after)]))
            if reorders and not order_changed:
                out.append(("reorder_announced_but_order_unchanged", tgt, len(reorders)))
            if reorders:
                if len(reorders) > 1:
                    out.append(("reorder_announced_twice", tgt, len(reorders)))
                if ids(list(reorders[-1].component_ids)) != ids(after):
                    out.append(("reorder_message_carries_wrong_list", tgt, [labels(reorders[-1].component_ids), labels(after)]))
        # rename: every effective rename of an identifier is announced, none is invented
        exp_ren = ex.get("rename", [])
        for c in renames:
            if not any(c is e for e, _ in exp_ren):
                out.append(("rename_announced_but_not_renamed", tgt, c.label))
        seen_r = []
        for c, how in exp_ren:
            if is_in(c, seen_r):
                continue
            seen_r.append(c)
            n = sum(1 for x in renames if x is c)
            n_yes = sum(1 for e, h in exp_ren if e is c and h == "yes")
            n_all = sum(1 for e, h in exp_ren if e is c)
            if n < n_yes or n > n_all:
                out.append(("rename_announcement_count", dict(tgt, n=min(n, 3), expected_min=min(n_yes, 3), expected_max=min(n_all, 3)), c.label))
            if n_all > n_yes:
                ctx.count("rename_same_label_announced" if n > n_yes else "rename_same_label_silent")
        # every call that changed the order is announced, also inside a delay block
        if "n_reorders" in ex and len(reorders) != ex["n_reorders"]:
            out.append(("reorder_announcement_count", dict(tgt, announced=min(len(reorders), 3), expected=min(ex["n_reorders"], 3),
                                                           in_block=composite), None))
        if ex.get("n_numerical_min", 0) > len(numer):
            out.append(("value_change_announcement_count", dict(tgt, announced=min(len(numer), 3),
                                                                expected_min=min(ex["n_numerical_min"], 3)), None))
        # values
        nx = ex.get("numerical", "no")
        if nx == "yes" and not numer:
            out.append(("value_change_not_announced", tgt, None))
        if nx == "no" and numer:
            out.append(("value_change_announced_but_no_values_replaced", tgt, len(numer)))
        if ex.get("numerical_keys") is not None and numer and not composite:
            got = numer[-1].components_changed
            if got is None or sorted(ids(got)) != sorted(ids(ex["numerical_keys"])):
                out.append(("value_change_message_carries_wrong_components", tgt, repr(got)))
        # label
        lab_changed = m.d.label != b.label
        lab_msgs = [x for x in upd if x.attribute == "label"]
        for x in upd:
            if x.attribute != "label":
                ctx.count("msg_dataupdate_attr:" + str(x.attribute))
        if lab_changed and not lab_msgs:
            out.append(("label_change_not_announced", tgt, None))
        if lab_msgs and not lab_changed and not composite:
            out.append(("label_change_announced_but_label_same", tgt, None))
    return out


# ---------------------------------------------------------------- operations
class Op:
    """kind/variant: structural names (go into signatures). call: closure running the real API. expect: 'ok' |
    'raise' | 'any'. after: function(before_snap, ret) -> expected `components` list for a successful valid call
    (entries may be the token FRESH for identifiers created by glue) or None when only (I) and (L1) apply."""
    FRESH = object()

    def __init__(self, kind, variant, m, call, expect="ok", after=None, ledger=None, desc=None, post=None, sigx=None):
        self.kind, self.variant, self.m, self.call = kind, variant, m, call
        self.expect, self.after, self.ledger, self.desc, self.post = expect, after, ledger or {}, desc, post
        self.sigx = sigx or {}      # further structural classification of the call, merged into violation signatures


def gen_op(world, rng, allow_hostile=True, force_kind=None, force_m=None):
    """Draw one operation for a random dataset of the world."""
    m = force_m or rng.choice(world.models)
    d = m.d
    comps = list(d.components)
    mains = list(d.main_components)
    derived = list(d.derived_components)
    pix = list(d.pixel_component_ids)
    wor = list(d.world_component_ids)
    shape = d.shape
    r = rng.random

    table = [("add", 16), ("add_derived", 10), ("remove", 12), ("reorder", 9), ("rename", 8), ("update_id", 8),
             ("update_components", 8), ("refresh", 10), ("coords", 7), ("label", 3)]
    kind = force_kind or rng.choices([k for k, _ in table], [w for _, w in table])[0]

    if not comps and kind not in ("add", "coords", "label", "refresh", "remove", "reorder"):
        kind = "add"

    # ---------------------------------------------------------------- add
    if kind == "add":
        v = rng.choices(["array", "list", "component", "cat", "date", "dup_label", "fresh_cid", "existing_cid",
                         "wrong_shape", "wrong_ndim", "existing_cid_wrong_shape", "setitem", "dtype_layout", "same_size_other_shape",
                         "shared_component_object", "readd_removed_cid", "odd_label", "dask", "object_array"],
                        [4, 2, 3, 3, 2, 3, 3, 4, 3, 2, 1, 2, 6, 4, 2, 3, 3, 1, 1])[0]
        if not comps:
            shp = rand_shape(rng, (d.coords.pixel_n_dim if d.coords is not None else None))
            lab = m.fresh("n")
            vals = values(rng, shp, rng.choice(["num", "int", "cat"]))
            nd = len(shp)
            nworld = nd if d.coords is not None else 0

            def after(b, ret, nd=nd, nworld=nworld):
                return [Op.FRESH] * (nd + nworld) + [ret]
            return Op("add", "first_component", m, lambda: d.add_component(vals, lab), after=after, desc=[lab, list(shp)])
        if v in ("existing_cid", "existing_cid_wrong_shape") and not mains:
            v = "array"
        lab = m.fresh("n")
        if v == "readd_removed_cid":
            gone = [c for c in m.removed if not is_in(c, comps)]
            if not gone:
                v = "array"
            else:
                cid = rng.choice(gone)
                vals = values(rng, shape)
                return Op("add", v, m, lambda: d.add_component(vals, cid), after=lambda b, ret: b.comps + [cid], desc=cid.label)
        if v == "shared_component_object":
            plain = [c for c in mains if type(d.get_component(c)) is Component]
            if not plain:
                v = "array"
            else:
                comp = d.get_component(rng.choice(plain))      # the same Component object under a second identifier
                return Op("add", v, m, lambda: d.add_component(comp, lab), after=lambda b, ret: b.comps + [ret], desc=lab)
        if v == "dask":
            try:
                import dask.array as da
                from glue.core.component import DaskComponent
                comp = DaskComponent(da.from_array(np.asarray(values(rng, shape)), chunks=tuple(max(1, s_) for s_ in shape)))
                return Op("add", v, m, lambda: d.add_component(comp, lab), after=lambda b, ret: b.comps + [ret], desc=lab)
            except ImportError:
                v = "array"
        if v == "object_array":
            vals = values(rng, shape, "cat").astype(object)
            return Op("add", v, m, lambda: d.add_component(vals, lab), after=lambda b, ret: b.comps + [ret], desc=lab)
        if v == "odd_label":
            # falsy / non-string / prefix-sharing labels: all legal, the identifier's label is str(label)
            base = rng.choice(comps).label
            lab2 = rng.choice(["", 0, None, base + " ", base[:1], base + base, base.upper(), np.str_(m.fresh("ns")), 1.5])
            vals = values(rng, shape)
            return Op("add", v, m, lambda: d.add_component(vals, lab2), after=lambda b, ret: b.comps + [ret], desc=repr(lab2))
        if v == "dtype_layout":
            vals, dt, lay = fancy_values(rng, shape)
            world.ctx.count("add_dtype:" + dt)
            world.ctx.count("add_layout:" + lay)
            return Op("add", v, m, lambda: d.add_component(vals, lab), after=lambda b, ret: b.comps + [ret], desc=[lab, dt, lay])
        if v == "same_size_other_shape":
            oshape = same_size_other_shape(shape)
            if oshape is None or int(np.prod(shape)) == 0 and False:
                v = "wrong_shape"
            else:
                # same number of elements, other shape (transposed / flattened / extra unit axis): must be rejected
                vals = values(rng, oshape)
                return Op("add", v, m, lambda: d.add_component(vals, lab), expect="raise", desc=[lab, list(oshape)])
        if v == "array":
            vals = values(rng, shape, rng.choice(["num", "int"]))
            return Op("add", v, m, lambda: d.add_component(vals, lab), after=lambda b, ret: b.comps + [ret], desc=lab)
        if v == "setitem":
            vals = values(rng, shape)

            def call():
                d[lab] = vals
                return d.components[-1]
            return Op("add", v, m, call, after=lambda b, ret: b.comps + [Op.FRESH], desc=lab)
        if v == "list":
            vals = values(rng, shape).tolist()
            return Op("add", v, m, lambda: d.add_component(vals, lab), after=lambda b, ret: b.comps + [ret], desc=lab)
        if v == "component":
            comp = Component(values(rng, shape), units="m")
            return Op("add", v, m, lambda: d.add_component(comp, lab), after=lambda b, ret: b.comps + [ret], desc=lab)
        if v == "cat":
            vals = values(rng, shape, "cat")
            return Op("add", v, m, lambda: d.add_component(vals, lab), after=lambda b, ret: b.comps + [ret], desc=lab)
        if v == "date":
            vals = values(rng, shape, "date")
            return Op("add", v, m, lambda: d.add_component(vals, lab), after=lambda b, ret: b.comps + [ret], desc=lab)
        if v == "dup_label":
            lab2 = rng.choice(comps).label
            vals = values(rng, shape)
            return Op("add", v, m, lambda: d.add_component(vals, lab2), after=lambda b, ret: b.comps + [ret], desc=lab2)
        if v == "fresh_cid":
            cid = ComponentID(lab)
            vals = values(rng, shape)

            def after(b, ret, cid=cid):
                return b.comps + [cid] if ret is cid else None
            return Op("add", v, m, lambda: d.add_component(vals, cid), after=lambda b, ret: b.comps + [cid], desc=lab)
        if v == "existing_cid":
            cid = rng.choice(mains)
            vals = values(rng, shape)
            return Op("add", v, m, lambda: d.add_component(vals, cid), after=lambda b, ret: list(b.comps), desc=cid.label)
        if v == "wrong_shape":
            vals = values(rng, other_shape(rng, shape))
            return Op("add", v, m, lambda: d.add_component(vals, lab), expect="raise", desc=lab)
        if v == "wrong_ndim":
            vals = values(rng, tuple(shape) + (2,))
            return Op("add", v, m, lambda: d.add_component(vals, lab), expect="raise", desc=lab)
        if v == "existing_cid_wrong_shape":
            cid = rng.choice(mains)
            vals = values(rng, other_shape(rng, shape))
            return Op("add", v, m, lambda: d.add_component(vals, cid), expect="raise", desc=cid.label)

    # ---------------------------------------------------------------- add derived
    if kind == "add_derived":
        readable = [c for c in comps if not is_in(c, m.orphaned) and not is_in(c, m.broken_by_harness)
                    and m.kind_of(c) in ("main", "derived", "pixel", "world")]
        numeric = []
        for c in readable:
            try:
                if d.get_kind(c) == "numerical":
                    numeric.append(c)
            except Exception:
                pass
        v = rng.choices(["binary", "chain", "via_add_component", "foreign_input", "no_target", "chain3"], [6, 4, 3, 2, 1, 4])[0]
        if not numeric:
            v = "foreign_input"
        lab = m.fresh("der")
        if v == "chain3":
            # three levels in one go: l1 = f(root), l2 = f(l1), l3 = f(l2, l1) - removing root must take all of them
            root = rng.choice(numeric)
            labs = [lab, m.fresh("der"), m.fresh("der")]

            def call3():
                d.add_component_link(root * 2, labs[0])
                l1 = d.components[-1]
                d.add_component_link(l1 + 1, labs[1])
                l2 = d.components[-1]
                d.add_component_link(l2 - l1, labs[2])
                return None

            def post3(ret, b, root=root):
                l1, l2, l3 = d.components[-3:]
                for c, inp in ((l1, [root]), (l2, [l1]), (l3, [l2, l1])):
                    m.derived.append(c)
                    m.deps[id(c)] = inp
            return Op("add_derived", v, m, call3, after=lambda b, ret: b.comps + [Op.FRESH] * 3, desc=[labs, root.label], post=post3)
        if v == "foreign_input":
            foreign = ComponentID("zz")
            link = foreign * 2
            return Op("add_derived", v, m, lambda: d.add_component_link(link, lab), expect="raise", desc=lab)
        if v == "no_target":
            link = rng.choice(numeric) + 1

            def call():
                link.set_to_id(None)
                return d.add_component_link(link)
            return Op("add_derived", v, m, call, expect="raise", desc=lab)
        if v == "chain" and [c for c in numeric if m.kind_of(c) == "derived"]:
            a = rng.choice([c for c in numeric if m.kind_of(c) == "derived"])
            b2 = rng.choice(numeric)
            link = a * 2 - b2
            inputs = [a, b2]
        else:
            a = rng.choice(numeric)
            if r() < 0.5:
                b2 = rng.choice(numeric)
                link = a + b2
                inputs = [a, b2]
            else:
                link = a * rng.choice([2, -1, 0.5]) + 1
                inputs = [a]
        if v == "via_add_component":
            def call():
                dc = d.add_component(link, lab)
                return dc
        else:
            def call():
                return d.add_component_link(link, lab)

        def post(ret, b, inputs=inputs):
            new = d.components[-1]
            m.derived.append(new)
            m.deps[id(new)] = list(inputs)
        return Op("add_derived", v if v != "chain" else "chain", m, call, after=lambda b, ret: b.comps + [Op.FRESH], desc=[lab, labels(inputs)],
                  post=post)

    # ---------------------------------------------------------------- remove
    if kind == "remove":
        v = rng.choices(["main", "derived", "input_of_derived", "absent", "pixel", "world", "last_main", "removed_again", "middle"],
                        [8, 4, 7, 2, 1 if allow_hostile else 0, 1 if allow_hostile else 0, 1, 2, 2])[0]
        if v == "removed_again":
            gone_before = [c for c in m.removed if not is_in(c, comps)]
            if gone_before:
                cid = rng.choice(gone_before)      # the same call a second time: nothing happens, nothing is announced
                return Op("remove", v, m, lambda: d.remove_component(cid), after=lambda b, ret: list(b.comps), desc=cid.label)
            v = "absent"
        if v == "middle":
            v = "main"
            if len(mains) >= 3:
                mains = mains[1:-1]
        inputs = [c for c in comps if any(is_in(c, m.deps[id(dc)]) for dc in m.derived if is_in(dc, comps))
                  and m.kind_of(c) in ("main", "derived")]
        if v == "input_of_derived" and not inputs:
            v = "main"
        if v == "derived" and not [c for c in m.derived if is_in(c, comps)]:
            v = "main"
        if v == "pixel" and not pix:
            v = "absent"
        if v == "world" and not wor:
            v = "absent"
        if v in ("main", "last_main") and not mains:
            v = "absent"
        if v == "absent":
            cid = ComponentID("ghost")
            return Op("remove", v, m, lambda: d.remove_component(cid), after=lambda b, ret: list(b.comps), desc="ghost")
        if v == "main":
            cid = rng.choice(mains)
        elif v == "last_main":
            cid = mains[-1]
        elif v == "derived":
            cid = rng.choice([c for c in m.derived if is_in(c, comps)])
        elif v == "input_of_derived":
            cid = rng.choice(inputs)
            if r() < 0.6:
                # prefer the root of the deepest cascade
                cid = max(inputs, key=lambda c: m.depth_below(c, m.closure(c)))
        elif v == "pixel":
            cid = rng.choice(pix)
        else:
            cid = rng.choice(wor)
        gone = m.closure(cid)
        if len(gone) > 1 and v in ("main", "last_main"):
            v = "input_of_derived"
        world.ctx.count("removal_cascade_size:%s" % min(len(gone), 4) + ("+" if len(gone) >= 4 else ""))
        depth = m.depth_below(cid, gone)
        world.ctx.count("removal_cascade_depth:%d%s:%s" % (min(depth, 3), "+" if depth >= 3 else "", "hub" if world.hub is not None else "nohub"))
        if v in ("main", "last_main", "input_of_derived") and not is_in(cid, m.removed):
            m.removed.append(cid)

        def after(b, ret, gone=gone):
            return [c for c in b.comps if not is_in(c, gone)]
        if v in ("pixel", "world"):
            # hostile: the statement's invariants must still hold, whatever the call does
            return Op("remove", "coordinate", m, lambda: d.remove_component(cid), expect="any", desc=cid.label,
                      sigx={"removed_kind": v})
        return Op("remove", v, m, lambda: d.remove_component(cid), after=after, desc=[cid.label, labels(gone)])

    # ---------------------------------------------------------------- reorder
    if kind == "reorder":
        v = rng.choices(["permutation", "identical", "swap_two", "rotate", "missing_one", "duplicate_entry", "foreign_member",
                         "extra_member", "derived_first", "reversed", "repeated_id_longer", "foreign_same_label",
                         "duplicate_entry_middle"], [6, 2, 3, 2, 2, 2, 2, 1, 3, 2, 2, 2, 2])[0]
        if len(comps) < 2 and v in ("permutation", "swap_two", "rotate", "duplicate_entry", "reversed", "duplicate_entry_middle"):
            v = "identical"
        new = list(comps)
        if v == "derived_first":
            # dependants stored before their inputs
            new = [c for c in comps if is_in(c, derived)][::-1] + [c for c in comps if not is_in(c, derived)]
            v = "derived_first" if ids(new) != ids(comps) else "identical"
        elif v == "reversed":
            new = new[::-1]
            v = "reversed" if ids(new) != ids(comps) else "identical"
        if v == "permutation":
            while ids(new) == ids(comps):
                rng.shuffle(new)
        elif v == "swap_two":
            i, j = rng.sample(range(len(new)), 2)
            new[i], new[j] = new[j], new[i]
        elif v == "rotate":
            new = new[1:] + new[:1]
            if ids(new) == ids(comps):
                v = "identical"
        if v in ("permutation", "swap_two", "rotate", "identical", "derived_first", "reversed"):
            arg = new if r() < 0.7 else tuple(new)
            return Op("reorder", v, m, lambda: d.reorder_components(arg), after=lambda b, ret: list(new), desc=labels(new))
        if v == "missing_one":
            new = new[:-1] if new else [ComponentID("x")]
        elif v == "duplicate_entry":
            new[0] = new[1]
        elif v == "foreign_member":
            if new:
                new[rng.randrange(len(new))] = ComponentID("foreign")
            else:
                new = [ComponentID("foreign")]
        elif v == "extra_member":
            new = new + [ComponentID("extra")]
        elif v == "repeated_id_longer":
            new = new + [rng.choice(new)] if new else [ComponentID("x")]
        elif v == "duplicate_entry_middle":
            # same length, one identifier twice, another missing: in the middle rather than at the front
            i, j = rng.sample(range(len(new)), 2)
            new[i] = new[j]
            rng.shuffle(new)
        elif v == "foreign_same_label":
            # an equal-looking but distinct identifier in place of a member
            if new:
                k = rng.randrange(len(new))
                new[k] = ComponentID(new[k].label, parent=d)
            else:
                new = [ComponentID("foreign")]
        return Op("reorder", v, m, lambda: d.reorder_components(new), expect="raise", desc=labels(new))

    # ---------------------------------------------------------------- rename
    if kind == "rename":
        cid = rng.choice(comps)
        v = rng.choices(["new_label", "same_label", "duplicate_label", "non_string", "dup_same_category", "dup_other_category",
                         "empty_label", "prefix_label"], [6, 2, 2, 1, 4, 4, 1, 2])[0]
        if v in ("dup_same_category", "dup_other_category"):
            # a label repeated within one category (main / derived / coordinate) or across two of them: what lookup by
            # name must return depends on exactly this
            cat = lambda c: "coordinate" if m.kind_of(c) in ("pixel", "world") else m.kind_of(c)
            same = [c for c in comps if c is not cid and cat(c) == cat(cid) and c.label != cid.label]
            other = [c for c in comps if cat(c) != cat(cid) and c.label != cid.label]
            pool = same if v == "dup_same_category" else other
            if pool:
                lab = rng.choice(pool).label
                how = "yes"
            else:
                v = "new_label"
        if v == "empty_label":
            lab = ""
            how = "maybe" if cid.label == "" else "yes"
        elif v == "prefix_label":
            base = rng.choice(comps).label
            lab = rng.choice([base + " ", base[:-1] or "q", base + "2", base.upper(), " " + base])
            how = "maybe" if lab == cid.label else "yes"
        if v == "new_label":
            lab = m.fresh("r")
            how = "yes"
        elif v == "same_label":
            lab = cid.label
            how = "maybe"
        elif v == "duplicate_label":
            lab = rng.choice(comps).label
            how = "maybe" if lab == cid.label else "yes"
        elif v == "non_string":
            lab = rng.randint(0, 9)
            how = "maybe" if str(lab) == cid.label else "yes"

        def call():
            cid.label = lab
        return Op("rename", v + ":" + m.kind_of(cid), m, call, after=lambda b, ret: list(b.comps),
                  ledger={"rename": [(cid, how)]}, desc=[str(cid.label), str(lab)])

    # ---------------------------------------------------------------- update_id
    if kind == "update_id":
        leafs = [c for c in mains + derived if not any(is_in(c, m.deps[id(dc)]) for dc in m.derived if is_in(dc, comps))]
        inputs = [c for c in mains + derived if not is_in(c, leafs)]
        v = rng.choices(["leaf", "input_of_derived", "pixel", "world", "absent", "same", "onto_existing"],
                        [8, 3, 2, 2, 2, 1, 1])[0]
        if v == "leaf" and not leafs:
            v = "absent"
        if v == "input_of_derived" and not inputs:
            v = "leaf" if leafs else "absent"
        if v == "pixel" and not pix:
            v = "absent"
        if v == "world" and not wor:
            v = "absent"
        numeric_mains = [c for c in mains if _is_plain_numeric(d, c)]
        if v == "onto_existing" and len(numeric_mains) < 2:
            v = "absent"
        lab = m.fresh("u")
        if v == "absent":
            old, new = ComponentID("ghost"), ComponentID(lab)
            return Op("update_id", v, m, lambda: d.update_id(old, new), after=lambda b, ret: list(b.comps),
                      ledger={"replaced": []}, desc=lab)
        if v == "same":
            old = rng.choice(comps)
            return Op("update_id", v, m, lambda: d.update_id(old, old), after=lambda b, ret: list(b.comps),
                      ledger={"replaced": []}, desc=old.label)
        if v == "onto_existing":
            # an identifier collision: not a valid re-identification, so no outcome is modelled - glue may reject it or
            # merge the two, but the invariants and the ledger must hold afterwards. Both are numeric stored attributes
            # (a derived attribute that ends up reading a categorical column is unreadable by construction, which is
            # outside the domain exactly as deriving from a categorical column directly would be).
            old, new = rng.sample(numeric_mains, 2)

            def post_onto(ret, b, old=old, new=new):
                # whatever survives of the dependants of `old` can only be reading `new` now
                for dc in m.derived:
                    m.deps[id(dc)] = [new if i is old else i for i in m.deps[id(dc)]]
            return Op("update_id", v, m, lambda: d.update_id(old, new), expect="any", desc=[old.label, new.label], post=post_onto)
        if v == "leaf":
            old = rng.choice(leafs)
            # now and then an equal-looking identifier: same label, other object
            new = ComponentID(lab if r() < 0.75 else old.label)
        elif v == "input_of_derived":
            old = rng.choice(inputs)
            new = ComponentID(lab)
        elif v == "pixel":
            old = rng.choice(pix)
            new = PixelComponentID(old.axis, lab)
        else:
            old = rng.choice(wor)
            new = ComponentID(lab)

        def post(ret, b, old=old, new=new, v=v):
            # re-identifying keeps values, order and dependencies: whatever read `old` reads `new` from now on
            for dc in m.derived:
                m.deps[id(dc)] = [new if i is old else i for i in m.deps[id(dc)]]
            # a re-identified derived attribute keeps its own inputs
            if is_in(old, m.derived):
                m.derived[ids(m.derived).index(id(old))] = new
                m.deps[id(new)] = m.deps[id(old)]
        if v in ("pixel", "world") and any(is_in(old, m.deps[id(dc)]) for dc in m.derived if is_in(dc, comps)):
            v = v + "+input_of_derived"
        return Op("update_id", v, m, lambda: d.update_id(old, new),
                  after=lambda b, ret: [new if c is old else c for c in b.comps],
                  ledger={"replaced": [(old, new)]}, desc=[old.label, lab], post=post)

    # ---------------------------------------------------------------- update_components
    if kind == "update_components":
        plain = [c for c in mains if _is_plain_numeric(d, c)]
        v = rng.choices(["one_by_id", "two_by_id", "by_component", "wrong_shape", "second_wrong_shape", "derived_target", "empty_mapping",
                         "dtype_layout", "same_size_other_shape", "list_values"],
                        [5, 3, 3, 3, 2, 2, 1, 4, 3, 1])[0]
        if v == "same_size_other_shape" and same_size_other_shape(shape) is None:
            v = "wrong_shape"
        if not plain and v != "empty_mapping":
            v = "empty_mapping"
        if v == "two_by_id" and len(plain) < 2:
            v = "one_by_id"
        if v == "second_wrong_shape" and len(plain) < 2:
            v = "wrong_shape"
        if v == "derived_target" and not [c for c in m.derived if is_in(c, comps)]:
            v = "one_by_id"
        if v == "empty_mapping":
            return Op("update_components", v, m, lambda: d.update_components({}), after=lambda b, ret: list(b.comps),
                      ledger={"numerical": "any"}, desc=None)
        if v == "one_by_id":
            c = rng.choice(plain)
            mp = {c: values(rng, shape)}
        elif v == "dtype_layout":
            c = rng.choice(plain)
            vals, dt, lay = fancy_values(rng, shape)
            world.ctx.count("update_dtype:" + dt)
            world.ctx.count("update_layout:" + lay)
            mp = {c: vals}
        elif v == "list_values":
            c = rng.choice(plain)
            mp = {c: values(rng, shape).tolist()}
        elif v == "same_size_other_shape":
            c = rng.choice(plain)
            mp = {c: values(rng, same_size_other_shape(shape))}
            return Op("update_components", v, m, lambda: d.update_components(mp), expect="raise", ledger={"numerical": "no"},
                      desc=labels(mp))
        elif v == "two_by_id":
            c1, c2 = rng.sample(plain, 2)
            mp = {c1: values(rng, shape), c2: values(rng, shape, "int")}
        elif v == "by_component":
            c = rng.choice(plain)
            mp = {d.get_component(c): values(rng, shape)}
        elif v == "wrong_shape":
            c = rng.choice(plain)
            mp = {c: values(rng, other_shape(rng, shape))}
            return Op("update_components", v, m, lambda: d.update_components(mp), expect="raise", ledger={"numerical": "no"},
                      desc=labels(mp))
        elif v == "second_wrong_shape":
            c1, c2 = rng.sample(plain, 2)
            mp = {c1: values(rng, shape), c2: values(rng, other_shape(rng, shape))}
            return Op("update_components", v, m, lambda: d.update_components(mp), expect="raise", ledger={"numerical": "no"},
                      desc=labels(mp))
        else:
            c = rng.choice([c for c in m.derived if is_in(c, comps)] + list(d.pixel_component_ids))
            mp = {c: values(rng, shape)}
            return Op("update_components", v, m, lambda: d.update_components(mp), expect="raise", ledger={"numerical": "no"},
                      desc=labels(mp))
        keys = list(mp.keys())
        return Op("update_components", v, m, lambda: d.update_components(mp), after=lambda b, ret: list(b.comps),
                  ledger={"numerical": "yes", "numerical_keys": keys}, desc=[getattr(k, "label", "component-object") for k in keys])

    # ---------------------------------------------------------------- coords
    if kind == "coords":
        nd = d.ndim if comps else rng.choice([1, 2])
        v = rng.choices(["none", "identity", "affine", "same_object"], [3, 3, 3, 2])[0]
        if v == "same_object":
            val = d.coords
        else:
            val = make_coords(rng, max(nd, 1), v)
        had = d.coords

        def call():
            d.coords = val

        def after(b, ret, val=val, had=had):
            if val is had or not b.comps:
                return list(b.comps)
            # the world attributes disappear, and so do the derived attributes that read them
            gone = []
            for w in b.world:
                gone += m.closure(w, b.comps)
            keep = [c for c in b.comps if not is_in(c, gone)]
            return keep + ([Op.FRESH] * len(b.shape) if val is not None else [])
        trans = ("set" if had is not None else "none") + "_to_" + ("same" if val is had else ("set" if val is not None else "none"))
        return Op("coords", trans, m, call, after=after, desc=v)

    # ---------------------------------------------------------------- label
    if kind == "label":
        v = rng.choice(["new", "new", "same"])
        lab = m.fresh("L") if v == "new" else d.label

        def call():
            d.label = lab
        return Op("label", v, m, call, after=lambda b, ret: list(b.comps), desc=lab)

    # ---------------------------------------------------------------- refresh from another dataset
    if kind == "refresh":
        return gen_refresh(world, rng, m, allow_hostile)
    raise ValueError(kind)


SAME_KIND_BLOCKS = ["add", "remove", "rename", "reorder", "add_derived", "update_components", "update_id", "coords"]


def _is_plain_numeric(d, c):
    try:
        comp = d.get_component(c)
        return type(comp) is Component and d.get_kind(c) == "numerical"
    except Exception:
        return False


def refresh_flags(m, o, sibling=False):
    """Structural classification of update_values_from_data(o) on m.d, computed from the two datasets as they are
    just before the call (so that renamed or re-identified coordinate attributes are classified correctly)."""
    d = m.d
    flags = []
    comps = list(d.components)
    if not any(c.label in labels(o.components) for c in comps):
        # nothing of the dataset survives the label matching (an empty dataset is the special case)
        flags.append("no_common_label")
    else:
        if sorted(labels(d.pixel_component_ids)) != sorted(labels(o.pixel_component_ids)):
            flags.append("pixel_labels_differ")
        if o.coords is not None and sorted(labels(d.world_component_ids)) != sorted(labels(o.world_component_ids)):
            flags.append("world_labels_differ")
        ol = labels(o.components)
        o_plain = [c.label for c in o.main_components]
        for c in comps:
            # a computed (derived / coordinate) attribute whose label is a stored column of the source, or a derived
            # attribute whose label is any component of the source (e.g. renamed to a pixel label)
            if (c.label in o_plain and not is_in(c, d.main_components)) or (is_in(c, d.derived_components) and c.label in ol):
                flags.append("label_of_computed_attribute_matches_source_column")
                break
        for c in o.coordinate_components:
            if c.label in labels(d.main_components) + labels(d.derived_components):
                flags.append("label_of_source_coordinate_matches_column")
                break
    if len(o.derived_components) > 0:
        flags.append("source_has_derived")
    if sibling:
        flags.append("source_is_sibling")
    return flags


def gen_refresh(world, rng, m, allow_hostile):
    d = m.d
    comps = list(d.components)
    mains = list(d.main_components)
    shape = d.shape
    nd = len(shape)
    r = rng.random
    hostile = rng.choices(["clean", "ndim_change", "coords_none_to_set", "other_has_derived", "main_over_derived_label",
                           "from_sibling", "duplicate_labels_other"],
                          [14, 1, 2, 1, 1, 2, 1] if allow_hostile else [14, 0, 0, 0, 0, 0, 1])[0]
    labs = labels(comps)
    unique = len(set(labs)) == len(labs)
    if not comps and not allow_hostile:
        return gen_op(world, rng, allow_hostile)
    if hostile == "from_sibling":
        sib = [x for x in world.models if x is not m and x.d.ndim == nd and len(x.d.components) > 0]
        if not sib or not unique or not comps:
            hostile = "clean"
    if hostile == "main_over_derived_label" and not [c for c in m.derived if is_in(c, comps)]:
        hostile = "clean"
    if hostile == "coords_none_to_set" and d.coords is not None:
        hostile = "clean"

    if hostile == "from_sibling":
        sm = rng.choice(sib)
        o = sm.d
        olabs = labels(o.components)
        flags = refresh_flags(m, o, sibling=True)
        if len(set(olabs)) != len(olabs):
            return Op("refresh", "duplicate_labels", m, lambda: d.update_values_from_data(o), expect="raise",
                      ledger={"numerical": "any"}, desc=olabs)

        def post(ret, b, sm=sm):
            m.aliased_to = sm
            sm.aliased_to = m
            sm.robbed = list(sm.d.derived_components)
            m.prune()
        # the documented outcome is not modelled for a sibling source: only the invariants and the ledger apply
        op_ = Op("refresh", "flagged", m, lambda: d.update_values_from_data(o), expect="any",
                 ledger={"numerical": "any"}, desc=[olabs, flags], post=post, sigx={f: True for f in flags})
        op_.sibling = sm
        return op_

    # build the source dataset from what d holds
    new_shape = shape
    feats = []
    if comps and r() < 0.4:
        new_shape = other_shape(rng, shape)
        feats.append("reshape")
    if hostile == "ndim_change" and comps:
        new_shape = tuple(shape) + (2,) if r() < 0.5 or nd == 1 else tuple(shape)[:-1]
        feats.append("ndim_change")
    if not comps:
        new_shape = rand_shape(rng)
    ond = len(new_shape)
    # coordinates of the source
    if hostile == "coords_none_to_set":
        ocoords = make_coords(rng, ond, rng.choice(["identity", "affine"]))
        feats.append("coords_none_to_set")
    elif d.coords is None or hostile == "ndim_change" or not comps:
        ocoords = None
        if d.coords is not None:
            feats.append("coords_set_to_none")
    else:
        c = rng.choice(["same_object", "same_object", "replaced", "none"])
        if c == "same_object":
            ocoords = d.coords
            feats.append("coords_same_object")
        elif c == "replaced":
            ocoords = make_coords(rng, ond, rng.choice(["identity", "affine"]))
            feats.append("coords_replaced")
        else:
            ocoords = None
            feats.append("coords_set_to_none")
    o = Data(label=d.label if r() < 0.6 else m.fresh("lab"), coords=ocoords)
    kept, dropped = [], []
    for c in mains:
        if r() < 0.8 or not kept:
            kept.append(c)
        else:
            dropped.append(c)
    col_labels = []
    for c in kept:
        if c.label in col_labels:
            continue
        col_labels.append(c.label)
        try:
            k = d.get_kind(c)
        except Exception:
            k = "numerical"
        o.add_component(values(rng, new_shape, {"numerical": "num", "categorical": "cat", "datetime": "date"}.get(k, "num")), c.label)
    if dropped:
        feats.append("drops_column")
    if r() < 0.45 or not o.main_components:
        for _ in range(rng.randint(1, 2)):
            o.add_component(values(rng, new_shape, rng.choice(["num", "int", "cat"])), m.fresh("z"))
        feats.append("adds_column")
    if hostile == "other_has_derived":
        o.add_component_link(o.main_components[0] * 2, m.fresh("oder"))
    if hostile == "main_over_derived_label":
        tgt = rng.choice([c for c in m.derived if is_in(c, comps)])
        if tgt.label not in labels(o.components):
            o.add_component(values(rng, new_shape), tgt.label)
    if hostile == "duplicate_labels_other":
        o.add_component(values(rng, new_shape), o.main_components[0].label)
    if any(is_in(c, comps) for c in m.derived):
        feats.append("drops_derived")
    for f in feats:
        world.ctx.count("refresh_feature:" + f)
    olabs = labels(o.components)
    if not unique or len(set(olabs)) != len(olabs):
        return Op("refresh", "duplicate_labels", m, lambda: d.update_values_from_data(o), expect="raise", ledger={"numerical": "any"},
                  desc=[olabs, list(new_shape)])
    flags = refresh_flags(m, o)
    variant = "flagged" if flags else "clean"
    for f in flags:
        world.ctx.count("refresh_flag:" + f)

    def after(b, ret, o=o, ocoords=ocoords):
        newl = labels(o.components)
        gone = []
        for c in b.comps:
            if c.label not in newl and not is_in(c, gone):
                gone += m.closure(c, b.comps)
        keep = [c for c in b.comps if not is_in(c, gone)]
        oldl = labels(b.comps)
        fresh_cols = [l for l in newl if l not in oldl]
        out = keep + [Op.FRESH] * len(fresh_cols)
        # assigning a different coordinates object rebuilds the world attributes at the end of the list
        if ocoords is not b.coords:
            gone = []
            for w in b.world:
                gone += m.closure(w, b.comps)
            out = [c for c in out if c is Op.FRESH or not is_in(c, gone)]
            out = out + ([Op.FRESH] * len(o.shape) if ocoords is not None else [])
        return out

    def post(ret, b):
        m.prune()
    return Op("refresh", variant, m, lambda: d.update_values_from_data(o), expect="any" if flags else "ok",
              after=None if flags else after, ledger={"numerical": "yes" if not flags else "any"},
              desc=[olabs, list(new_shape), feats, flags], post=post, sigx={f: True for f in flags})


# ---------------------------------------------------------------- running one history
def run_history(ctx, mode, start, length, allow_hostile):
    rng = ctx.rng
    world = World(ctx, mode, start)
    ctx.count("histories:" + mode)
    ctx.count("start:" + start)
    trace = []
    # invariants must hold on the freshly built datasets as well
    for m in world.models:
        if report(ctx, world, None, m, invariants(m), "ok", trace, mode=mode, start=start):
            raise Stop()
    if world.rec is not None:
        world.rec.log[:] = []
    state = {"prev": "start", "changed": 0, "prev_outcome": "ok"}
    step = 0
    while step < length:
        composite = world.hub is not None and rng.random() < 0.14
        before = {m.name: Snap(m) for m in world.models}
        pre_entangled = {m.name: m.entangled for m in world.models}
        done = []          # (op, outcome, ret, exc, snapshot of op's dataset before the call)
        problems = 0
        reacted = []
        if composite:
            # several calls inside one delay block: one announcement unit, the invariants are evaluated after every call
            n = rng.randint(2, 3)
            same_kind, same_m = None, None
            if rng.random() < 0.45:
                # the same kind of structural change several times in one block: each one must be announced
                same_kind, same_m = rng.choice(SAME_KIND_BLOCKS), rng.choice(world.models)
                n = rng.randint(2, 4)
                ctx.count("delay_blocks_same_kind:" + same_kind)
            world.rec.in_block = True
            cm = world.hub.delay_callbacks()
            cm.__enter__()
            try:
                for k in range(n):
                    op = gen_op(world, rng, allow_hostile, force_kind=same_kind, force_m=same_m)
                    done.append((op,) + execute(ctx, world, op, trace))
                    if not _only_nonstructural(world.rec.log):
                        ctx.violation({"kind": "message_delivered_inside_delay_block", "op": op.kind}, {"trace": trace[-6:]})
                        problems += 1
                    problems += check_state(ctx, world, done[-1], trace, mode, start, state, composite=True)
                    if problems:
                        break
            finally:
                cm.__exit__(None, None, None)
                world.rec.in_block = False
            ctx.count("delay_blocks")
        else:
            op = gen_op(world, rng, allow_hostile)
            if world.reactor is not None and rng.random() < 0.10:
                # re-entrancy: a listener that calls back into the dataset while the "component added" message is delivered
                world.reactor.arm(rng.choice(["rename", "remove", "add_derived", "read", "rename", "add_derived"]), op.m)
            done.append((op,) + execute(ctx, world, op, trace))
            if world.reactor is not None:
                reacted = world.reactor.disarm()
                for what in reacted:
                    ctx.count("reentrant_reaction:" + what[0])
                    trace.append(["(listener)", what[0], labels(what[1:2])])
        msgs = list(world.rec.log) if world.rec is not None else []
        if world.rec is not None:
            world.rec.log[:] = []
        step += len(done)
        if world.rec is not None and world.rec.early:
            for what, lab_ in world.rec.early[:3]:
                ctx.violation({"kind": what, "op": done[-1][0].kind, "variant": done[-1][0].variant},
                              {"mode": mode, "trace": trace[-8:], "component": lab_})
                problems += 1
            world.rec.early[:] = []
        if not composite:
            problems += check_state(ctx, world, done[0], trace, mode, start, state, composite=False, skip_semantics=bool(reacted))
        ledger_composite = composite or bool(reacted)
        # ---- (L1) announcement ledger over the whole unit
        if composite and any(x[0].variant == "onto_existing" for x in done):
            # the slot semantics of re-identifying onto an identifier added in the same block are not defined
            ctx.count("ledger_skipped_block_with_update_id_onto_existing")
        elif world.rec is not None and not problems and (any(pre_entangled[x[0].m.name] for x in done) or
                                                         (composite and any(x[0].m.entangled for x in done))):
            ctx.count("ledger_skipped_entangled_dataset")
        elif world.rec is not None and not problems:
            expect = {}
            for op, outcome, ret, exc, b_op in done:
                e = expect.setdefault(op.m.name, {"rename": [], "numerical": "no", "replaced": [], "n_reorders": 0, "n_numerical_min": 0})
                if op.kind == "reorder" and outcome == "ok":
                    sb = [c for c in b_op.comps if is_in(c, op.after_comps)]
                    sa = [c for c in op.after_comps if is_in(c, b_op.comps)]
                    if ids(sb) != ids(sa):
                        e["n_reorders"] += 1
                if outcome == "ok" and op.ledger.get("numerical") == "yes":
                    e["n_numerical_min"] += 1
                led = op.ledger
                ren = list(led.get("rename", []))
                nx = led.get("numerical", "no")
                rep = led.get("replaced", [] if op.expect != "any" else None)
                if outcome == "raised":
                    ren = [(c, "maybe") for c, _ in ren]
                    nx = "any" if op.kind == "refresh" else nx
                    rep = None
                e["rename"] += ren
                order = {"no": 0, "yes": 2, "any": 1}
                if order[nx] == 2 or order[e["numerical"]] == 2:
                    e["numerical"] = "yes" if "any" not in (nx, e["numerical"]) else "any"
                elif order[nx] == 1 or order[e["numerical"]] == 1:
                    e["numerical"] = "any"
                if ledger_composite or rep is None or e["replaced"] is None:
                    e["replaced"] = None
                else:
                    e["replaced"] = e["replaced"] + list(rep)
                if "numerical_keys" in led and not ledger_composite and outcome == "ok":
                    e["numerical_keys"] = led["numerical_keys"]
            for what in reacted:
                # what the listener did belongs to the same announcement unit
                mm = what[-1]
                e = expect.setdefault(mm.name, {"rename": [], "numerical": "no", "replaced": None, "n_reorders": 0, "n_numerical_min": 0})
                if what[0] == "rename":
                    e["rename"].append((what[1], "yes"))
            probs = ledger(world, [x[0].m for x in done], before, msgs, expect, ledger_composite)
            ctx.count("ledger_checks")
            op0 = done[0][0]
            for kind, extra, detail in probs:
                sig = {"kind": kind, "op": "delay_block" if composite else op0.kind,
                       "variant": "+".join(sorted(set(x[0].kind for x in done))) if composite else op0.variant,
                       "outcome": "composite" if composite else done[0][1]}
                if reacted:
                    sig["reentrant_listener"] = reacted[0][0]
                if not composite:
                    sig.update(op0.sigx)
                sig.update(extra)
                ctx.violation(sig, {"mode": mode, "start": start, "trace": trace[-8:], "detail": detail,
                                    "messages": [type(x).__name__ for x in msgs][:30]})
            problems += len(probs)
        elif world.rec is None:
            ctx.count("steps_without_hub")
        if problems:
            raise Stop()
        if state.get("end_after_step"):
            raise EndHistory(state["end_after_step"])
    if state["changed"] >= 3:
        ctx.count("histories_with_3_or_more_effective_calls")
    if ctx.rng.random() < 0.002:
        ctx.sample({"mode": mode, "start": start, "trace": trace[:14]})


def check_state(ctx, world, rec, trace, mode, start, state, composite, skip_semantics=False):
    """(L2) + (I) after one call; returns the number of problems reported."""
    op, outcome, ret, exc, b_op = rec
    if op.m.entangled:
        ctx.count("semantic_check_skipped_entangled_dataset")
        problems = 0
    elif skip_semantics:
        ctx.count("semantic_check_skipped_listener_changed_the_dataset")
        problems = 0
    else:
        problems = check_semantics(ctx, world, op, outcome, ret, exc, b_op, trace)
    if state.get("prev_outcome") == "raised" and outcome == "ok":
        ctx.count("ok_call_right_after_rejected_call")
        ctx.count("ok_call_right_after_rejected_call:" + op.kind)
    state["prev_outcome"] = outcome
    for m in world.models:
        # a sibling that this dataset borrowed objects from and that changed shape since
        if m.aliased_to is not None and tuple(m.aliased_to.d.shape) != tuple(m.d.shape):
            m.alias_stale = True
        inv = invariants(m)
        ctx.count("invariant_checks")
        problems += report(ctx, world, op if m is op.m else None, m, inv, outcome, trace, mode=mode, start=start)
    did = ids(b_op.comps) != ids(op.m.d.components) or outcome == "raised" or op.kind in ("update_components", "rename", "label")
    if did:
        state["changed"] += 1
    ctx.evaluation([mode, len(op.m.d.shape), op.m.d.coords is not None, state["prev"], op.kind, op.variant, outcome, composite], did)
    ctx.count("%s:%s" % (outcome, op.kind))
    ctx.count("variant:%s:%s:%s" % (op.kind, op.variant, outcome))
    if composite:
        ctx.count("calls_inside_delay_block")
    state["prev"] = op.kind
    if op.kind == "refresh" and getattr(op, "sibling", None) is not None:
        # whatever the outcome, the two datasets may share Component / coordinate objects from now on
        op.m.entangled = True
        op.sibling.entangled = True
        ctx.count("datasets_entangled_by_sibling_refresh")
    elif op.kind == "refresh" and op.sigx and not problems:
        # a refresh of a class with known defects that left no visible damage *yet*
        state["end_after_step"] = "flagged_refresh_without_visible_damage"
    return problems


def _only_nonstructural(log):
    return not any(isinstance(x, STRUCTURAL) for x in log)


def execute(ctx, world, op, trace):
    b = Snap(op.m)
    try:
        ret = op.call()
        outcome, exc = "ok", None
    except Exception as e:   # classified below; glue may reject invalid arguments any way it likes
        ret, outcome, exc = None, "raised", e
    trace.append([op.m.name, op.kind, op.variant, outcome if exc is None else "raised:" + type(exc).__name__, ctx_json(op.desc)])
    op.after_comps = list(op.m.d.components)
    # the documented outcome is computed from the harness model as it was before the call
    op.want = op.after(b, ret) if (outcome == "ok" and op.after is not None and op.expect != "raise") else None
    if outcome == "ok" and op.post is not None:
        op.post(ret, b)
    op.m.prune()
    return outcome, ret, exc, b


def ctx_json(x):
    from vf.ctx import jsonable
    return jsonable(x)


def check_semantics(ctx, world, op, outcome, ret, exc, b, trace):
    n = 0
    sigbase = dict(op.sigx, op=op.kind, variant=op.variant)
    detail = {"mode": world.mode, "trace": trace[-8:]}
    if outcome == "raised":
        if op.expect == "ok":
            ctx.violation(dict(sigbase, kind="valid_call_raised", exc=type(exc).__name__), dict(detail, error=repr(exc)[:300]))
            return 1
        ctx.count("rejected:%s:%s:%s" % (op.kind, op.variant, type(exc).__name__))
        if op.kind == "update_components" and op.variant == "second_wrong_shape":
            ctx.count("failed_update_components_left_first_values_replaced_tally")
        return 0
    if op.expect == "raise":
        ctx.count("invalid_call_accepted:%s:%s" % (op.kind, op.variant))
        return 0
    want = getattr(op, "want", None)
    if want is None:
        ctx.count("outcome_not_modelled:%s:%s" % (op.kind, op.variant))
        return 0
    got = list(op.m.d.components)
    ctx.count("semantic_checks")
    ok = len(got) == len(want)
    if ok:
        for g, w in zip(got, want):
            if w is Op.FRESH:
                if is_in(g, b.comps):
                    ok = False
            elif g is not w:
                ok = False
    if not ok:
        if len(got) != len(want):
            how = "more_components" if len(got) > len(want) else "fewer_components"
        elif sorted(ids(got)) == sorted(ids([w for w in want if w is not Op.FRESH])) and Op.FRESH not in want:
            how = "order"
        else:
            how = "identity"
        ctx.violation(dict(sigbase, kind="component_list_differs_from_documented_outcome", how=how),
                      dict(detail, got=labels(got), want=["<fresh>" if w is Op.FRESH else w.label for w in want]))
        n += 1
    # shape after the call
    if op.kind == "refresh":
        pass
    elif op.kind == "add" and op.variant == "first_component":
        pass
    elif tuple(op.m.d.shape) != tuple(b.shape):
        ctx.violation(dict(sigbase, kind="shape_changed_by_call_that_must_not"), dict(detail, shape=[list(b.shape), list(op.m.d.shape)]))
        n += 1
    return n


ENTANGLED_JUDGED = (("component_shape_differs", "shares_objects_with_sibling_that_changed_shape"),
                    ("component_unreadable", "derived_component_taken_over_by_dataset_refreshed_from_this_one"))


def report(ctx, world, op, m, inv, outcome, trace, mode=None, start=None):
    if m.entangled:
        kept = [x for x in inv if (x[0], x[1].get("cause")) in ENTANGLED_JUDGED]
        for x in inv:
            if x not in kept:
                ctx.count("after_effect_not_judged_on_entangled_dataset:" + x[0])
        if inv and not kept:
            # damaged, but not in a way that names its cause: stop looking at this world
            raise EndHistory("entangled_dataset_damaged")
        inv = kept
    for kind, extra, detail in inv:
        sig = {"kind": kind, "op": op.kind if op is not None else "none_on_this_dataset",
               "variant": op.variant if op is not None else "-", "outcome": outcome}
        if op is not None:
            sig.update(op.sigx)
        sig.update(extra)
        ctx.violation(sig, {"mode": mode, "start": start, "dataset": m.name, "trace": trace[-8:], "detail": detail})
    return len(inv)


# ---------------------------------------------------------------- cases
def cases(tier, seed):
    for i in range(N_BLOCKS[tier]):
        yield ["hist", i]


def run_case(ctx, case):
    rng = ctx.rng
    for h in range(HIST_PER_BLOCK):
        mode = MODES[(case[1] + h) % len(MODES)]
        start = rng.choice(START_KINDS)
        length = rng.randint(4, 22)
        # two thirds of the histories avoid the argument classes that are known to break the dataset, so that the
        # calls after them are still observed on an intact dataset
        allow_hostile = rng.random() < 0.4
        ctx.count("histories")
        ctx.count("histories_hostile_classes_enabled" if allow_hostile else "histories_hostile_classes_disabled")
        try:
            run_history(ctx, mode, start, length, allow_hostile)
            ctx.count("histories_completed")
        except Stop:
            ctx.count("histories_ended_by_violation")
            ctx.count("histories_ended_after_first_violation")
        except EndHistory as e:
            ctx.count("histories_ended_undecided:" + str(e))
    for k, v in LOOKUP_CASES.items():
        ctx.count("lookup_case:" + k, v)
    LOOKUP_CASES.clear()


FLOOR_KINDS = ["add", "add_derived", "remove", "reorder", "rename", "update_id", "update_components", "refresh", "coords", "label"]


def floors(counters, tier):
    out = []
    for k in FLOOR_KINDS:
        if counters.get("ok:" + k, 0) < 20:
            out.append("fewer than 20 successful applications of %s" % k)
    for k in ("add", "reorder", "update_components", "add_derived"):
        if counters.get("raised:" + k, 0) < 10:
            out.append("fewer than 10 rejected (invalid-argument) calls of %s" % k)
    if counters.get("ledger_checks", 0) < 1000:
        out.append("fewer than 1000 announcement-ledger comparisons")
    if counters.get("invariant_checks", 0) < 2000:
        out.append("fewer than 2000 invariant evaluations")
    if counters.get("semantic_checks", 0) < 1000:
        out.append("fewer than 1000 documented-outcome comparisons")
    for mode in MODES:
        if counters.get("histories:" + mode, 0) < 50:
            out.append("fewer than 50 histories in mode %s" % mode)
    if counters.get("delay_blocks", 0) < 20:
        out.append("fewer than 20 delay blocks")
    for k in SAME_KIND_BLOCKS:
        if counters.get("delay_blocks_same_kind:" + k, 0) < 8:
            out.append("fewer than 8 delay blocks repeating the call kind %s" % k)
    if counters.get("removal_cascade_depth:3+:hub", 0) < 5:
        out.append("fewer than 5 removals with a cascade three levels deep on a dataset attached to a hub")
    if sum(v for k, v in counters.items() if k.startswith("reentrant_reaction:")) < 15:
        out.append("fewer than 15 steps with a re-entrant listener")
    for k, n in (("variant:add:same_size_other_shape:raised", 20), ("variant:update_components:same_size_other_shape:raised", 15),
                 ("variant:reorder:foreign_same_label:raised", 10), ("variant:reorder:repeated_id_longer:raised", 10),
                 ("variant:add:readd_removed_cid:ok", 5), ("variant:remove:removed_again:ok", 5),
                 ("lookup_case:repeated_label:main1_derived1_coord0", 15), ("lookup_case:repeated_label:main0_derived1_coord1", 10),
                 ("lookup_case:repeated_label:main2_derived0_coord0", 100), ("lookup_case:near_miss_probe", 5000),
                 ("ok_call_right_after_rejected_call", 200)):
        if counters.get(k, 0) < n:
            out.append("%s observed fewer than %d times" % (k, n))
    if sum(v for k, v in counters.items() if k.startswith("add_layout:") and not k.endswith("contiguous")) < 40:
        out.append("fewer than 40 components added from non-contiguous / broadcast arrays")
    if sum(v for k, v in counters.items() if k.startswith("start:") and ":" in k[6:]) < 40:
        out.append("fewer than 40 histories from the extreme start states (no rows, zero-length axis, single element, long, wide)")
    return out
