"""C20 - chunk, slice and broadcast helpers are exact.

Shape: complete enumeration of small input spaces, each input run through the
REAL helper in glue.utils.array and compared with the definition written in
plain Python / plain numpy indexing:

  combine_slices      positions, within arange(L)[s1], of the elements also chosen by s2
  iterate_chunks      every element visited exactly once, no chunk above n_max / chunk_shape
  find_chunk_shape    product <= n_max, fits in shape
  unbroadcast         broadcast_to(unbroadcast(a), a.shape) == a, broadcast axes have length 1
  broadcast_arrays_minimal   every output broadcasts back to its input; common broadcast axes removed
  view_shape          == np.empty(shape)[view].shape
  categorical_ndarray / unique / index_lookup    categories[codes] == values, categories sorted unique

A case id is a block of the enumeration (so a replay re-runs the block).
"""
import itertools

import numpy as np

from glue.utils.array import (broadcast_arrays_minimal, categorical_ndarray, combine_slices, find_chunk_shape,
                              index_lookup, iterate_chunks, unbroadcast, unique, view_shape)

from vf import lib_C20_widen as widen

try:
    from numpy.lib.array_utils import byte_bounds
except ImportError:  # numpy < 2
    from numpy import byte_bounds

ID = "C20"
LEVEL = "exploration"
BUDGET_S = {"quick": 45.0, "thorough": 420.0}
SHARDS = {"quick": 16, "thorough": 16}
EXHAUSTIVE = {"quick": True, "thorough": True}

# ---------------------------------------------------------------- bounds
CS_MAXLEN = {"quick": 8, "thorough": 11}
CS_STEPS = {"quick": [None, 1, 2, 3], "thorough": [None, 1, 2, 3, 4, 5, 7]}
CAT_MAXLEN = {"quick": 4, "thorough": 6}
ALPHABET = ["a", "b", "cc", ""]
NUM_ALPHABETS = {"int": [3, -1, 0, 7], "float": [0.5, -2.0, 1e10, 3.25]}

RULE = ("complete enumeration inside stated bounds, in blocks. combine_slices: every pair of slices with start/stop in "
        "None | 0..L+1 | negative offsets (quick: -1,-2,-L,-L-1; thorough: -L-1..-1) and step in None|1|2|3 (thorough "
        "also 4,5,7) for every length L <= 8 (thorough 11); one evaluation per pair, fingerprint = (L, slice1, step2) row, "
        "non-trivial when slice1 selects something. iterate_chunks/find_chunk_shape: every shape with 1-d axes 0..8, 2-d "
        "axes 0..4, 3-d axes 0..3, 4-d axes 1..2 (thorough: 0..12, 0..6, 0..4, 1..3) x every n_max in 1..size+2 x every "
        "chunk_shape that fits; non-trivial when the limit is below the array size. unbroadcast / "
        "broadcast_arrays_minimal: every shape with axes 0..3 up to 3-d (thorough 0..4, and 4-d 1..2) x every per-axis "
        "stride pattern in {normal, broadcast(0), reversed(<0), strided(2x)} x {float,bool} x {plain, transposed}; "
        "non-trivial when a broadcast or reversed axis longer than 1 is present. view_shape: every shape with axes 0..3 "
        "up to 3-d x a per-axis catalogue of slices / integers (1-d: all start/stop/step incl. negative) plus plain Python "
        "lists (of ints, numpy ints, bools, slices, nested, inside tuples; what numpy rejects is skipped and counted), Ellipsis, "
        "short tuples, newaxis, index arrays, boolean masks. categorical_ndarray / unique: every array over the 4-symbol "
        "alphabet ('a','b','cc','') up to length 4 (thorough 6) incl. its 2-d/3-d reshapes, every one of them also as "
        "transposed view, Fortran-ordered copy, strided-rows view, reversed-columns view (1-d: reversed and strided "
        "views), three slices of it as a categorical array, and int / "
        "float alphabets; index_lookup: every data tuple up to length 3 x every ordered duplicate-free item list. "
        "Widening classes (vf/lib_C20_widen.py): combine_slices on lengths 1e6 .. 2**62 (ends near 0, the middle and the "
        "end, steps up to 101, congruence oracle); iterate_chunks / find_chunk_shape on shapes up to 1e6 elements with "
        "limits far below / at / above the size, numpy-integer shapes and limits, 0-d shape; view_shape tuples with "
        "backward (bounded, stepped, empty), empty, stepped, out-of-range and numpy-integer slices, duplicate / "
        "out-of-order / negative / small-dtype index arrays, shapes as lists or numpy integers, 0-d shape; unbroadcast on "
        "nine further dtypes / byte orders; broadcast_arrays_minimal with reversed / strided inputs and the same object "
        "twice; unique / categorical_ndarray / index_lookup over 19 dtype alphabets (widths, shared prefixes, bytes, "
        "objects, bool, int8 .. uint64 extremes, float32, floats agreeing to 1e-9, big-endian, mixed objects), empty "
        "arrays, arrays of 100 .. 1000 (thorough 20000) rows with duplicates, call histories (jitter on / off, categories "
        "assigned before / after codes were read, views and copies after the read) and raising calls followed by valid "
        "ones. distinct = distinct (helper, input) fingerprints (combine_slices: rows).")
ASSUMPTIONS = ["numpy basic/advanced indexing, slice.indices and np.broadcast_to are trusted (they are the definition)",
               "combine_slices is only defined for positive steps; negative steps are not generated",
               "n_max >= 1 and chunk shapes with every entry >= 1 that fit the shape; other arguments are outside the statement",
               "NaN / None categorical values are outside 'a small alphabet' and are not generated; for mixed-type object arrays only uniqueness and categories[codes] == values are required (no order is defined)",
               "combine_slices calls whose overlap holds fewer than two common elements scan the whole overlap (O(n)); on the 1e6 .. 2**62 lengths those are skipped and counted (a cost, not an exactness, matter)",
               "byte bounds of unbroadcast(a) vs a are recorded as evidence only (zero-size arrays: see C10)"]
ANCHORS = ["glue.utils.array:find_chunk_shape", "glue.utils.array:iterate_chunks", "glue.utils.array:combine_slices",
           "glue.utils.array:unbroadcast", "glue.utils.array:broadcast_arrays_minimal", "glue.utils.array:view_shape",
           "glue.utils.array:unique", "glue.utils.array:index_lookup",
           "glue.utils.array:categorical_ndarray._update_categories_and_codes"]


# ---------------------------------------------------------------- combine_slices
def cs_ends(tier, L):
    pos = [None] + list(range(0, L + 2))
    if tier == "quick":
        neg = sorted({-1, -2, -L, -L - 1} - {0})
    else:
        neg = list(range(-L - 1, 0))
    return pos + neg


def run_combine_slices(ctx, tier, L, b1):
    ends = cs_ends(tier, L)
    steps = CS_STEPS[tier]
    # every second slice once, with the set of chosen indices as a bit mask
    seconds = []
    for st2 in steps:
        row = []
        for b2 in ends:
            for e2 in ends:
                s2 = slice(b2, e2, st2)
                bits = 0
                for i in range(*s2.indices(L)):
                    bits |= 1 << i
                row.append((s2, bits))
        seconds.append((st2, row))
    npairs = 0
    for e1 in ends:
        for st1 in steps:
            s1 = slice(b1, e1, st1)
            viewed = list(range(*s1.indices(L)))
            nv = len(viewed)
            positions = range(nv)
            for st2, row in seconds:
                for s2, bits in row:
                    try:
                        comb = combine_slices(s1, s2, L)
                        got = list(positions[comb])
                    except Exception as exc:
                        ctx.violation({"helper": "combine_slices", "kind": "exception", "exc": type(exc).__name__,
                                       "step1_gt1": (st1 or 1) > 1, "step2_gt1": (st2 or 1) > 1},
                                      {"length": L, "slice1": s1, "slice2": s2, "error": repr(exc)})
                        continue
                    exp = [i for i, v in enumerate(viewed) if (bits >> v) & 1]
                    if got != exp or not isinstance(comb, slice):
                        ctx.violation({"helper": "combine_slices",
                                       "kind": "wrong_positions" if got != exp else "not_a_slice",
                                       "step1_gt1": (st1 or 1) > 1, "step2_gt1": (st2 or 1) > 1,
                                       "expected_count": "0" if not exp else ("1" if len(exp) == 1 else "many"),
                                       "got_vs_expected": ("fewer" if len(got) < len(exp) else
                                                           "more" if len(got) > len(exp) else "shifted")},
                                      {"length": L, "slice1": s1, "slice2": s2, "combined": comb, "got": got,
                                       "expected": exp})
                n = len(row)
                npairs += n
                ctx.evaluation(["cs", L, b1, e1, st1, st2], nv > 0, n=n)
    ctx.count("combine_slices_pairs", npairs)
    ctx.count("combine_slices_blocks")


# ---------------------------------------------------------------- chunks
def chunk_shapes_list(tier):
    if tier == "quick":
        spec = [(1, range(0, 9)), (2, range(0, 5)), (3, range(0, 4)), (4, range(1, 3))]
    else:
        spec = [(1, range(0, 13)), (2, range(0, 7)), (3, range(0, 5)), (4, range(1, 4))]
    out = []
    for nd, r in spec:
        out.extend(itertools.product(r, repeat=nd))
    return out


def _walk_chunks(ctx, shape, size, mode, limit, **kw):
    """Visit counts + limit check for one call of iterate_chunks."""
    cnt = np.zeros(shape, int)
    nd = len(shape)
    sig = None
    detail = None
    nchunks = 0
    try:
        for sl in iterate_chunks(shape, **kw):
            nchunks += 1
            if nchunks > size + 3:
                sig, detail = "does_not_terminate", {"chunks_seen": nchunks}
                break
            if not (isinstance(sl, tuple) and len(sl) == nd and all(isinstance(s, slice) for s in sl)):
                sig, detail = "not_a_tuple_of_slices", {"chunk": sl}
                break
            if any((s.stop is not None and s.stop > n) or (s.step not in (None, 1)) for s, n in zip(sl, shape)):
                # not demanded by the statement (numpy clips); recorded as evidence only
                ctx.count("observed_chunk_slice_beyond_shape_or_stepped")
            block = cnt[sl]
            if mode == "n_max":
                if block.size > limit:
                    sig, detail = "chunk_over_limit", {"chunk": sl, "chunk_size": block.size}
            else:
                if any(b > c for b, c in zip(block.shape, limit)):
                    sig, detail = "chunk_over_limit", {"chunk": sl, "chunk_shape_seen": block.shape}
            cnt[sl] += 1
    except Exception as exc:
        ctx.violation({"helper": "iterate_chunks", "mode": mode, "kind": "exception", "exc": type(exc).__name__,
                       "ndim": nd, "zero_size": size == 0},
                      {"shape": shape, "limit": limit, "error": repr(exc)})
        return
    if sig is None and size:
        if (cnt == 0).any():
            sig = "element_missed"
        elif (cnt > 1).any():
            sig = "element_repeated"
        if sig:
            detail = {"visit_counts": cnt}
    if sig is not None:
        d = {"shape": shape, "limit": limit}
        d.update(detail or {})
        ctx.violation({"helper": "iterate_chunks", "mode": mode, "kind": sig, "ndim": nd}, d)
    ctx.count("chunk_slices_seen", nchunks)


def run_chunks(ctx, shape):
    shape = tuple(shape)
    size = int(np.prod(shape))
    nd = len(shape)
    n = 0
    for n_max in range(1, size + 3):
        # find_chunk_shape on its own (defined for shapes without zero-length axes)
        if size:
            try:
                cs = find_chunk_shape(shape, n_max)
                ok = (len(cs) == nd and all(1 <= c <= s for c, s in zip(cs, shape)) and int(np.prod(cs)) <= n_max)
                if not ok:
                    ctx.violation({"helper": "find_chunk_shape", "kind": "over_limit_or_misfit", "ndim": nd,
                                   "product_over_limit": int(np.prod(cs)) > n_max},
                                  {"shape": shape, "n_max": n_max, "chunk_shape": cs})
            except Exception as exc:
                ctx.violation({"helper": "find_chunk_shape", "kind": "exception", "exc": type(exc).__name__, "ndim": nd},
                              {"shape": shape, "n_max": n_max, "error": repr(exc)})
            ctx.count("find_chunk_shape_calls")
        _walk_chunks(ctx, shape, size, "n_max", n_max, n_max=n_max)
        ctx.evaluation(["ic", shape, "n", n_max], size > 1 and n_max < size)
        n += 1
    ctx.count("iterate_chunks_n_max_cases", n)
    n = 0
    if size:
        for cs in itertools.product(*[range(1, s + 1) for s in shape]):
            _walk_chunks(ctx, shape, size, "chunk_shape", cs, chunk_shape=cs)
            ctx.evaluation(["ic", shape, "c", cs], int(np.prod(cs)) < size)
            n += 1
    else:
        # zero-size: any chunk shape with the right length; nothing may be visited
        cs = tuple(0 if s == 0 else 1 for s in shape)
        _walk_chunks(ctx, shape, size, "chunk_shape", cs, chunk_shape=cs)
        ctx.evaluation(["ic", shape, "c", cs], False)
        n += 1
    ctx.count("iterate_chunks_chunk_shape_cases", n)
    if size == 0:
        ctx.count("iterate_chunks_zero_size_shapes")
    # find_chunk_shape(n_max=None) returns the shape
    if tuple(find_chunk_shape(shape, None)) != shape:
        ctx.violation({"helper": "find_chunk_shape", "kind": "none_limit_not_whole_shape", "ndim": nd}, {"shape": shape})


# ---------------------------------------------------------------- unbroadcast
PATTERNS = "nbrs"


def ub_shapes(tier):
    out = [()]
    top = 4 if tier == "quick" else 5
    for nd in (1, 2, 3):
        out.extend(itertools.product(range(0, top), repeat=nd))
    if tier != "quick":
        out.extend(itertools.product(range(1, 3), repeat=4))
    return out


def build_strided(shape, pattern, dtype, transposed):
    """Array of the requested shape whose axis i is normal / broadcast / reversed / strided."""
    if transposed:
        # build the transposed array in reversed axis order, then .T
        shape = shape[::-1]
        pattern = pattern[::-1]
    base_shape = tuple({"n": s, "b": 1, "r": s, "s": 2 * s}[p] for s, p in zip(shape, pattern))
    n = int(np.prod(base_shape))
    base = np.arange(n, dtype=float)
    if dtype == "bool":
        base = (base % 3 == 0)
    elif dtype not in ("float", "bool"):
        base = (base % 100).astype(dtype)       # other dtypes / byte orders / widths ('>f8', 'int8', '<U2', ...)
    base = base.reshape(base_shape)
    idx = tuple({"n": slice(None), "b": slice(None), "r": slice(None, None, -1), "s": slice(None, None, 2)}[p]
                for p in pattern)
    arr = np.broadcast_to(base[idx], shape)
    if transposed:
        arr = arr.T
    return arr


def inside(inner, outer):
    lo_i, hi_i = byte_bounds(inner)
    lo_o, hi_o = byte_bounds(outer)
    if lo_i == hi_i:      # nothing addressable
        return True
    return lo_o <= lo_i and hi_i <= hi_o


def check_unbroadcast_one(ctx, arr, pattern, fp):
    shape = arr.shape
    feats = {"has_broadcast_axis": any(p == "b" and s > 1 for p, s in zip(pattern, shape)),
             "has_negative_stride": any(p == "r" and s > 1 for p, s in zip(pattern, shape)),
             "zero_size": arr.size == 0, "bool": arr.dtype.kind == "b",
             "dtype_class": "float_or_bool" if arr.dtype in (np.dtype(float), np.dtype(bool)) else arr.dtype.str.lstrip("|")}
    ctx.evaluation(fp, feats["has_broadcast_axis"] or feats["has_negative_stride"])
    ctx.count("unbroadcast_cases")
    if feats["zero_size"]:
        ctx.count("unbroadcast_zero_size_cases")
    if feats["has_negative_stride"]:
        ctx.count("unbroadcast_negative_stride_cases")
    if feats["has_broadcast_axis"]:
        ctx.count("unbroadcast_broadcast_axis_cases")
    try:
        u = unbroadcast(arr)
        back = np.broadcast_to(u, shape)
    except Exception as exc:
        sig = {"helper": "unbroadcast", "kind": "exception", "exc": type(exc).__name__}
        sig.update(feats)
        ctx.violation(sig, {"shape": shape, "pattern": pattern, "strides": arr.strides, "error": repr(exc)})
        return
    kind = None
    if back.shape != shape or not np.array_equal(back, arr):
        kind = "roundtrip_mismatch"
    elif any(us != 1 for us, p, s in zip(u.shape, pattern, shape) if p == "b" and s > 1):
        kind = "broadcast_axis_not_removed"
    elif u.dtype != arr.dtype:
        kind = "dtype_changed"
    if kind:
        sig = {"helper": "unbroadcast", "kind": kind}
        sig.update(feats)
        ctx.violation(sig, {"shape": shape, "pattern": pattern, "strides": arr.strides, "unbroadcast_shape": u.shape,
                            "array": arr, "back": back if back.shape == shape else None})
    # non-deciding observation
    if not inside(u, arr):
        ctx.count("observed_unbroadcast_bytes_outside_input" + ("_zero_size" if arr.size == 0 else "_NONZERO_SIZE"))


def run_unbroadcast(ctx, shape):
    shape = tuple(shape)
    nd = len(shape)
    if nd == 0:
        for val in (np.array(2.5), np.array(True)):
            try:
                u = unbroadcast(val)
                ok = u.shape == () and u == val
            except Exception:
                ok = False
            ctx.evaluation(["ub", "0d", str(val.dtype)], False)
            ctx.count("unbroadcast_cases")
            if not ok:
                ctx.violation({"helper": "unbroadcast", "kind": "zero_dim_not_returned"}, {"value": val})
        return
    for pattern in itertools.product(PATTERNS, repeat=nd):
        pattern = "".join(pattern)
        for dtype in ("float", "bool"):
            for transposed in ((False, True) if nd > 1 else (False,)):
                arr = build_strided(shape, pattern, dtype, transposed)
                check_unbroadcast_one(ctx, arr, pattern, ["ub", shape, pattern, dtype, transposed])
    if nd <= 2:
        for pattern in itertools.product(PATTERNS, repeat=nd):
            pattern = "".join(pattern)
            for dtype in (">f8", "float32", "int8", "uint16", ">i4", "complex128", "<U2", "S1", "object"):
                arr = build_strided(shape, pattern, dtype, nd == 2 and dtype in (">f8", "<U2"))
                check_unbroadcast_one(ctx, arr, pattern, ["ub", shape, pattern, dtype])
                ctx.count("unbroadcast_dtype_variant_cases")
    # freshly computed arrays (comparison results, as compute_statistic feeds them)
    fresh = np.arange(int(np.prod(shape)), dtype=float).reshape(shape) > 1
    check_unbroadcast_one(ctx, fresh, "n" * nd, ["ub", shape, "fresh"])
    # broadcast_arrays_minimal over pairs / one triple of {normal, broadcast} patterns
    pats = ["".join(p) for p in itertools.product("nb", repeat=nd)]
    combos = list(itertools.product(pats, repeat=2))
    if nd <= 2:
        combos += list(itertools.product(pats, repeat=3))
        # reversed / strided inputs next to broadcast ones, and the same object passed twice
        allp = ["".join(p) for p in itertools.product(PATTERNS, repeat=nd)]
        combos += [(a, b) for a in allp for b in allp if ("r" in a + b or "s" in a + b)]
        combos += [(a, "same") for a in allp]
    for combo in combos:
        if combo[-1] == "same":
            one = build_strided(shape, combo[0], "float", False)
            arrays, combo = [one, one], (combo[0], combo[0])
            ctx.count("broadcast_arrays_minimal_same_object_twice")
        else:
            arrays = [build_strided(shape, p, "float" if k != 1 else "bool", False) for k, p in enumerate(combo)]
        common = [all(p[i] == "b" for p in combo) and shape[i] > 1 for i in range(nd)]
        ctx.evaluation(["bm", shape, combo], any("b" in p for p in combo) and int(np.prod(shape)) > 1)
        ctx.count("broadcast_arrays_minimal_cases")
        try:
            res = broadcast_arrays_minimal(*arrays)
            backs = [np.broadcast_to(r, shape) for r in res]
        except Exception as exc:
            ctx.violation({"helper": "broadcast_arrays_minimal", "kind": "exception", "exc": type(exc).__name__,
                           "zero_size": int(np.prod(shape)) == 0},
                          {"shape": shape, "patterns": combo, "error": repr(exc)})
            continue
        kind = None
        if len(res) != len(arrays) or len({r.shape for r in res}) != 1:
            kind = "outputs_not_one_common_shape"
        elif any(not np.array_equal(b, a) for a, b in zip(arrays, backs)):
            kind = "roundtrip_mismatch"
        elif any(res[0].shape[i] != 1 for i in range(nd) if common[i]):
            kind = "common_broadcast_axis_not_removed"
        elif any(res[0].shape[i] not in (1, shape[i]) for i in range(nd)):
            kind = "result_axis_neither_1_nor_full"
        if kind:
            ctx.violation({"helper": "broadcast_arrays_minimal", "kind": kind, "zero_size": int(np.prod(shape)) == 0,
                           "n_arrays": len(arrays)},
                          {"shape": shape, "patterns": combo, "result_shapes": [r.shape for r in res]})


# ---------------------------------------------------------------- view_shape
CORE_TAGS = ("full", "step2", "rev", "back_bounded", "empty", "int")


def axis_catalogue(n):
    """(tag, index) options for one axis of length n (all valid numpy indices): forward, empty, stepped and backward
    slices with and without bounds, negative bounds, integers (Python and numpy)."""
    opts = [("full", slice(None)), ("empty", slice(0, 0)), ("from1", slice(1, None)), ("step2", slice(None, None, 2)),
            ("to_last", slice(None, -1)), ("odd", slice(1, n + 1, 2)), ("beyond", slice(n, n + 2)),
            ("rev", slice(None, None, -1)), ("back_bounded", slice(n - 1, 0, -1)), ("back_step2", slice(None, None, -2)),
            ("back_empty", slice(0, n, -1)), ("back_from_last", slice(-1, None, -1)), ("back_to_neg", slice(None, -n - 1, -1)),
            ("neg_start", slice(-2, None)), ("start_gt_stop", slice(2, 1)), ("step3", slice(None, None, 3)),
            ("big_step", slice(None, None, n + 2)), ("far_start", slice(n + 3, None)), ("np_bounds", slice(np.int64(0), np.int64(n), np.int64(1)))]
    if n > 0:
        opts += [("int", 0), ("int", n - 1), ("negint", -1), ("np_int", np.int64(n - 1))]
    return opts


def one_d_views(n):
    ends = [None] + list(range(0, n + 2)) + [-1, -n - 1]
    for a in ends:
        for b in ends:
            for st in (None, 1, 2, 3, -1, -2):
                yield ("slice" if (st or 1) > 0 else "negstep_slice"), slice(a, b, st)
    for i in range(-n, n):
        yield "int", i


def check_view_shape(ctx, shape, kind, view):
    arr = np.empty(tuple(int(n) for n in shape), dtype=bool)
    try:
        exp = arr[view].shape if view is not None else arr.shape
    except Exception:
        ctx.count("view_shape_invalid_index_skipped")
        return
    ctx.evaluation(["vs", [int(n) for n in shape], kind, repr(view)], view is not None)
    ctx.count("view_shape_cases")
    ctx.count("view_shape_kind_" + kind)
    try:
        got = view_shape(shape, view)
    except Exception as exc:
        ctx.violation({"helper": "view_shape", "kind": "exception", "exc": type(exc).__name__, "view_kind": kind,
                       "ndim": len(shape)}, {"shape": shape, "view": repr(view), "error": repr(exc)})
        return
    if tuple(got) != tuple(exp):
        ctx.violation({"helper": "view_shape", "kind": "shape_mismatch", "view_kind": kind, "ndim": len(shape),
                       "zero_size": 0 in shape},
                      {"shape": shape, "view": repr(view), "got": tuple(got), "expected": tuple(exp)})


def run_view_shape(ctx, shape):
    shape = tuple(shape)
    nd = len(shape)
    check_view_shape(ctx, shape, "none", None)
    check_view_shape(ctx, shape, "ellipsis", Ellipsis)
    check_view_shape(ctx, shape, "empty_tuple", ())
    if nd == 1:
        for kind, v in one_d_views(shape[0]):
            check_view_shape(ctx, shape, "bare_" + kind, v)
            check_view_shape(ctx, shape, "tuple_" + kind, (v,))
    cats = [axis_catalogue(n) for n in shape]
    for k in range(1, nd + 1):
        if k <= 2 and nd <= 2:
            combos = itertools.product(*cats[:k])
        elif k <= 2:
            # short tuples on 3-d shapes: full catalogue on one axis, core on the other
            core = [[o for o in c if o[0] in CORE_TAGS] for c in cats]
            combos = list(itertools.product(*cats[:k])) if k == 1 else \
                list(itertools.product(cats[0], core[1])) + list(itertools.product(core[0], cats[1]))
        else:
            # 3-d: the full catalogue on one axis at a time against a core of six on the two others
            core = [[o for o in c if o[0] in CORE_TAGS] for c in cats]
            seen, combos = set(), []
            for full_axis in range(3):
                for combo in itertools.product(*[cats[a] if a == full_axis else core[a] for a in range(3)]):
                    key = repr(combo)
                    if key not in seen:
                        seen.add(key)
                        combos.append(combo)
        for combo in combos:
            tags = [t for t, _ in combo]
            view = tuple(v for _, v in combo)
            if any(t.startswith("back") or t == "rev" for t in tags):
                ctx.count("view_shape_tuples_with_backward_slice")
            if any(t in ("empty", "back_empty", "start_gt_stop", "far_start", "beyond") for t in tags):
                ctx.count("view_shape_tuples_with_empty_slice")
            if any(t in ("step2", "step3", "odd", "big_step", "back_step2") for t in tags):
                ctx.count("view_shape_tuples_with_stepped_slice")
            ints = sum(1 for t in tags if t in ("int", "negint", "np_int"))
            kind = ("short_" if k < nd else "") + ("all_int" if ints == k else "int_slice_mix" if ints else "slices")
            check_view_shape(ctx, shape, kind, view)
            if k < nd and k <= 2:
                check_view_shape(ctx, shape, "ellipsis_tuple", view + (Ellipsis,))
                check_view_shape(ctx, shape, "ellipsis_tuple", (Ellipsis,) + view)
            if k == nd and nd <= 2:
                check_view_shape(ctx, shape, "newaxis", (None,) + view)
                check_view_shape(ctx, shape, "newaxis", view + (None,))
    # plain Python lists as the view (numpy: a fancy index along axis 0 - not a tuple of per-axis entries)
    if nd >= 1:
        n0 = shape[0]
        lists = [("list_empty", [])]
        if n0 > 0:
            lists += [("list_of_ints", [0]), ("list_of_ints", [n0 - 1, 0, 0]), ("list_of_ints", [-1, 0]),
                      ("list_of_ints", list(range(n0))), ("list_of_numpy_ints", [np.int64(0), np.int64(n0 - 1)]),
                      ("nested_list_of_ints", [[0, n0 - 1], [n0 - 1, 0]]), ("nested_list_of_ints", [[0], [0]]),
                      ("list_in_tuple", ([0, n0 - 1],) + (slice(None),) * (nd - 1)),
                      ("list_in_tuple", (slice(None),) * (nd - 1) + ([0, 0],))]
        lists += [("list_of_bools", [True] * n0), ("list_of_bools", [i % 2 == 0 for i in range(n0)]),
                  ("list_of_bools", [False] * n0), ("list_of_bools_wrong_length", [True] * (n0 + 1)),
                  ("list_of_slices", [slice(None)] * nd), ("list_of_slices", [slice(0, 1)] * min(nd, 2)),
                  ("list_of_slice_and_int", [slice(None), 0][:max(1, nd)]), ("list_with_ellipsis", [Ellipsis, 0]),
                  ("list_with_none", [None, slice(None)])]
        if nd >= 2 and n0 > 0 and shape[1] > 0:
            lists += [("list_of_int_lists_as_tuple_entries", ([0, n0 - 1], [0, shape[1] - 1])),
                      ("nested_list_of_bools", [[True] * shape[1]] * n0)]
        for kind, v in lists:
            ctx.count("view_shape_list_views_tried")
            check_view_shape(ctx, shape, kind, v)
    # the shape given as a list / as numpy integers
    check_view_shape(ctx, list(shape), "shape_as_list", tuple(slice(None, None, 2) for _ in shape))
    check_view_shape(ctx, tuple(np.int64(n) for n in shape), "shape_of_numpy_ints", tuple(slice(1, None) for _ in shape))
    # advanced indexing
    if all(s > 0 for s in shape):
        # duplicate, out-of-order and negative entries; small integer dtypes
        for dt in ("int64", "int8", "uint8"):
            idx = tuple(np.array([n - 1, 0, 0, n - 1, n // 2], dtype=dt) for n in shape)
            check_view_shape(ctx, shape, "index_arrays_duplicates_out_of_order", idx)
        check_view_shape(ctx, shape, "index_arrays_negative", tuple(np.array([-1, 0, -n]) for n in shape))
        check_view_shape(ctx, shape, "index_arrays_broadcast", tuple(np.array([0, n - 1]).reshape([2] + [1] * i) for i, n in enumerate(shape)))
        for m in (0, 1, 3):
            idx = tuple(np.arange(m) % s for s in shape)
            check_view_shape(ctx, shape, "index_arrays", idx)
            check_view_shape(ctx, shape, "index_arrays_short", idx[:1])
            check_view_shape(ctx, shape, "index_lists", tuple(i.tolist() for i in idx))
        idx2 = tuple(np.zeros((2, 2), int) for _ in shape)
        check_view_shape(ctx, shape, "index_arrays_2d", idx2)
        if nd >= 2:
            check_view_shape(ctx, shape, "index_array_and_slice", (np.array([0, 0, shape[0] - 1]),) + (slice(None),) * (nd - 1))
            check_view_shape(ctx, shape, "index_array_and_slice", (slice(None),) * (nd - 1) + (np.array([0]),))
    if nd == 0:
        check_view_shape(ctx, shape, "newaxis", (None,))
        check_view_shape(ctx, shape, "bool_mask", np.array(True))
        check_view_shape(ctx, shape, "bool_mask", np.array(False))
        return
    size = int(np.prod(shape))
    for fill in ("none", "all", "third"):
        m = np.zeros(size, bool)
        if fill == "all":
            m[:] = True
        elif fill == "third":
            m[::3] = True
        check_view_shape(ctx, shape, "bool_mask", m.reshape(shape))
        first = np.zeros(shape[0], bool)
        first[::2] = fill != "none"
        check_view_shape(ctx, shape, "bool_mask_first_axis", first)
        check_view_shape(ctx, shape, "bool_mask_first_axis", (first,) + (slice(None),) * (nd - 1))


def vs_shapes(tier):
    out = [()]
    top = 4 if tier == "quick" else 5
    out.extend(itertools.product(range(0, 7 if tier == "quick" else 10), repeat=1))
    out.extend(itertools.product(range(0, top), repeat=2))
    # 3-d: axis lengths 0, 2, 3 in the quick tier (27 shapes), 0..4 in the thorough tier
    out.extend(itertools.product((0, 2, 3) if tier == "quick" else range(0, top), repeat=3))
    return out


# ---------------------------------------------------------------- categorical
def sorted_unique(values):
    return sorted(set(values))


def layouts(arr):
    """(layout name, array) presentations of the same enumerated values: the C-contiguous array itself and its
    non-C-contiguous forms (the values seen through the presentation are what the helpers must reproduce)."""
    out = [("c_contiguous", arr)]
    if arr.ndim == 1:
        if arr.size >= 2:
            out.append(("reversed_view", arr[::-1]))
            out.append(("strided_view", np.repeat(arr, 2)[::2]))
    else:
        out.append(("transposed_view", arr.T))
        out.append(("fortran_copy", np.asfortranarray(arr)))
        out.append(("strided_rows_view", arr[::2]))
        out.append(("reversed_columns_view", arr[:, ::-1]))
        if arr.ndim == 3:
            out.append(("axes_swapped_view", arr.transpose(1, 0, 2)))
    return out


def check_cat_array(ctx, vals, shape, tag):
    """vals: flat python list; shape: how to shape it.  Every layout of the array is checked."""
    base = np.array(vals).reshape(shape)
    for layout, arr in layouts(base):
        check_cat_presented(ctx, arr, tag, layout, vals, shape)


def check_cat_presented(ctx, arr, tag, layout, vals, shape):
    seen = arr.ravel().tolist()
    exp_cats = sorted_unique(seen)
    ndist = len(exp_cats)
    feats = {"ndim": arr.ndim, "alphabet": tag, "layout": layout}
    wit = {"enumerated_values": vals, "enumerated_shape": shape, "layout": layout, "array": arr, "strides": arr.strides}
    ctx.count("layout_%s_cases" % layout)
    # -- unique
    ctx.evaluation(["uniq", tag, vals, shape, layout], ndist >= 2)
    ctx.count("unique_cases")
    try:
        U, I = unique(arr)
        ok_sorted = list(U.tolist()) == exp_cats
        ok_back = I.shape == arr.shape and np.array_equal(np.asarray(U)[I], arr)
    except Exception as exc:
        sig = {"helper": "unique", "kind": "exception", "exc": type(exc).__name__}
        sig.update(feats)
        ctx.violation(sig, dict(wit, error=repr(exc)))
    else:
        if not (ok_sorted and ok_back):
            sig = {"helper": "unique", "kind": "categories_not_sorted_unique" if not ok_sorted else
                   ("index_shape" if I.shape != arr.shape else "U[I]_differs")}
            sig.update(feats)
            ctx.violation(sig, dict(wit, U=U, I=I))
    if tag != "str":
        return
    # -- categorical_ndarray (a copy keeping the memory order, and - for views - the view itself)
    for copy in ((True,) if layout == "c_contiguous" else (True, False)):
        ctx.evaluation(["cat", vals, shape, layout, copy], ndist >= 2)
        ctx.count("categorical_cases")
        try:
            c = categorical_ndarray(arr, copy=copy)
            cats, codes = c.categories, c.codes
            problems = cat_problems(cats, codes, arr, exact=exp_cats)
        except Exception as exc:
            sig = {"helper": "categorical_ndarray", "kind": "exception", "exc": type(exc).__name__, "derived_view": False,
                   "copy": copy}
            sig.update(feats)
            ctx.violation(sig, dict(wit, error=repr(exc)))
            continue
        if problems:
            sig = {"helper": "categorical_ndarray", "kind": problems, "derived_view": False, "copy": copy}
            sig.update(feats)
            ctx.violation(sig, dict(wit, categories=cats, codes=codes))
    # -- views of a categorical array keep the identity categories[codes] == values (1-d only: index_lookup is 1-d)
    if arr.ndim == 1 and arr.size >= 2 and layout == "c_contiguous":
        for name, sl in (("tail", slice(1, None)), ("every_second", slice(None, None, 2)), ("reversed", slice(None, None, -1))):
            ctx.evaluation(["catview", vals, name], ndist >= 2)
            ctx.count("categorical_view_cases")
            try:
                sub = categorical_ndarray(arr)[sl]
                cats, codes = sub.categories, sub.codes
                problems = cat_problems(cats, codes, arr[sl], exact=None)
            except Exception as exc:
                sig = {"helper": "categorical_ndarray", "kind": "exception", "exc": type(exc).__name__,
                       "derived_view": True}
                sig.update(feats)
                ctx.violation(sig, dict(wit, slice=sl, error=repr(exc)))
                continue
            if problems:
                sig = {"helper": "categorical_ndarray", "kind": problems, "derived_view": True}
                sig.update(feats)
                ctx.violation(sig, dict(wit, slice=sl, categories=cats, codes=codes))


def cat_problems(cats, codes, arr, exact):
    cl = list(np.asarray(cats).tolist())
    if exact is not None and cl != exact:
        return "categories_not_sorted_unique"
    if cl != sorted(set(cl)):
        return "categories_not_sorted_unique"
    codes = np.asarray(codes)
    if codes.shape != arr.shape:
        return "codes_shape"
    if codes.size and (not np.all(np.isfinite(codes)) or np.any(codes != np.round(codes)) or codes.min() < 0
                       or codes.max() >= len(cl)):
        return "codes_not_valid_indices"
    if not np.array_equal(np.asarray(cats)[codes.astype(int)], np.asarray(arr)):
        return "categories[codes]_differs"
    return None


def run_categorical(ctx, n, first):
    for rest in itertools.product(ALPHABET, repeat=n - 1):
        vals = [first] + list(rest)
        check_cat_array(ctx, vals, (n,), "str")
        for r in range(2, n):
            if n % r == 0:
                check_cat_array(ctx, vals, (r, n // r), "str")
        if n == 4:
            check_cat_array(ctx, vals, (1, 2, 2), "str")


def run_numeric_unique(ctx, tag, nmax):
    alpha = NUM_ALPHABETS[tag]
    for n in range(1, nmax + 1):
        for vals in itertools.product(alpha, repeat=n):
            check_cat_array(ctx, list(vals), (n,), tag)
            if n == 4:
                check_cat_array(ctx, list(vals), (2, 2), tag)


def run_index_lookup(ctx, first=None):
    """first=None: data tuples of length 0..2; otherwise the length-3 tuples starting with ALPHABET[first]."""
    item_lists = []
    for k in range(0, len(ALPHABET) + 1):
        item_lists.extend(itertools.permutations(ALPHABET, k))
    for n in (range(0, 3) if first is None else [3]):
        for data in itertools.product(ALPHABET, repeat=n):
            if first is not None and data[0] != ALPHABET[first]:
                continue
            for items in item_lists:
                ctx.evaluation(["il", data, items], n >= 2 and 0 < len(items) < len(ALPHABET))
                ctx.count("index_lookup_cases")
                d = np.array(data, dtype="<U2")
                it = np.array(items, dtype="<U2")
                try:
                    res = np.asarray(index_lookup(d, it))
                except Exception as exc:
                    ctx.violation({"helper": "index_lookup", "kind": "exception", "exc": type(exc).__name__,
                                   "empty_data": n == 0, "empty_items": len(items) == 0},
                                  {"data": data, "items": items, "error": repr(exc)})
                    continue
                kind = None
                if res.shape != (n,):
                    kind = "result_shape"
                else:
                    for i in range(n):
                        if data[i] in items:
                            if not (np.isfinite(res[i]) and res[i] == items.index(data[i])):
                                kind = "wrong_or_missing_index"
                        elif np.isfinite(res[i]):
                            kind = "index_for_absent_value"
                if kind:
                    ctx.violation({"helper": "index_lookup", "kind": kind}, {"data": data, "items": items, "result": res})
                # categorical array with explicitly given categories goes through index_lookup
                if n >= 1 and len(items) >= 1 and all(x in items for x in data):
                    ctx.count("categorical_explicit_categories_cases")
                    try:
                        c = categorical_ndarray(d, categories=it)
                        ok = np.array_equal(np.asarray(c.categories)[np.asarray(c.codes).astype(int)], d)
                    except Exception as exc:
                        ctx.violation({"helper": "categorical_ndarray", "kind": "exception", "exc": type(exc).__name__,
                                       "explicit_categories": True}, {"data": data, "items": items, "error": repr(exc)})
                        continue
                    if not ok:
                        ctx.violation({"helper": "categorical_ndarray", "kind": "categories[codes]_differs",
                                       "explicit_categories": True},
                                      {"data": data, "items": items, "codes": np.asarray(c.codes)})


# ---------------------------------------------------------------- driver
def cases(tier, seed):
    # interleave cheap and expensive blocks so that shards (case i -> shard i % n) are balanced
    cs = []
    for L in range(CS_MAXLEN[tier], -1, -1):
        for b1 in cs_ends(tier, L):
            cs.append(["cs", L, b1])
    other = []
    for shape in chunk_shapes_list(tier):
        other.append(["ic", list(shape)])
    for shape in ub_shapes(tier):
        other.append(["ub", list(shape)])
    for shape in vs_shapes(tier):
        other.append(["vs", list(shape)])
    for n in range(1, CAT_MAXLEN[tier] + 1):
        for first in range(len(ALPHABET)):
            other.append(["cat", n, first])
    other.append(["num", "int"])
    other.append(["num", "float"])
    other.append(["il", None])
    for first in range(len(ALPHABET)):
        other.append(["il", first])
    for k in range(len(widen.LARGE_LENGTHS)):
        other.append(["wide", "cs_large", k])
    for k in range(len(widen.LARGE_SHAPES)):
        other.append(["wide", "chunks_large", k])
    for name in widen.DTYPE_ALPHABETS:
        other.append(["wide", "dtype_alphabet", name])
    for k in range(2 if tier == "quick" else 6):
        other.append(["wide", "big_arrays", k])
    other.append(["wide", "misc", 0])
    # cheap blocks first, then the combine_slices blocks largest first (a time cap then only cuts small lengths)
    for c in other:
        yield c
    for c in cs:
        yield c


def setup(ctx):
    widen.selfcheck_expected_positions()


def run_case(ctx, case):
    kind = case[0]
    if kind == "cs":
        run_combine_slices(ctx, ctx.tier, case[1], case[2])
    elif kind == "ic":
        run_chunks(ctx, case[1])
        ctx.count("chunk_blocks")
    elif kind == "ub":
        run_unbroadcast(ctx, case[1])
        ctx.count("unbroadcast_blocks")
    elif kind == "vs":
        run_view_shape(ctx, case[1])
        ctx.count("view_shape_blocks")
    elif kind == "cat":
        run_categorical(ctx, case[1], ALPHABET[case[2]])
        ctx.count("categorical_blocks")
    elif kind == "num":
        run_numeric_unique(ctx, case[1], 4 if ctx.tier == "quick" else 5)
        ctx.count("numeric_unique_blocks")
    elif kind == "il":
        run_index_lookup(ctx, case[1])
        ctx.count("index_lookup_blocks")
    elif kind == "wide":
        what, arg = case[1], case[2]
        if what == "cs_large":
            widen.run_cs_large(ctx, arg)
        elif what == "chunks_large":
            widen.run_chunks_large(ctx, arg)
        elif what == "dtype_alphabet":
            widen.run_dtype_alphabet(ctx, arg)
        elif what == "big_arrays":
            widen.run_big_arrays(ctx, arg)
        else:
            widen.run_chunks_zero_dim(ctx)
            widen.run_fault_sequences(ctx)
            widen.run_index_lookup_variants(ctx)
            widen.run_categorical_histories(ctx)
        ctx.count("widening_blocks")
    else:
        raise ValueError(case)


def expected_blocks(tier):
    exp = {}
    for c in cases(tier, 0):
        exp[c[0]] = exp.get(c[0], 0) + 1
    return exp


BLOCK_COUNTER = {"cs": "combine_slices_blocks", "ic": "chunk_blocks", "ub": "unbroadcast_blocks",
                 "vs": "view_shape_blocks", "cat": "categorical_blocks", "num": "numeric_unique_blocks",
                 "il": "index_lookup_blocks", "wide": "widening_blocks"}


def floors(counters, tier):
    """A helper of which less than a quarter of the enumeration blocks ran makes the run inconclusive.  (A run cut
    by the per-shard time cap reports coverage.exhaustive = false and truncated_by_time_budget = true.)"""
    out = []
    for kind, want in expected_blocks(tier).items():
        got = counters.get(BLOCK_COUNTER[kind], 0)
        if got < max(1, want // 4):
            out.append("enumeration too incomplete for %s: %d of %d blocks ran" % (BLOCK_COUNTER[kind], got, want))
    for key, low in (("combine_slices_pairs", 150000), ("iterate_chunks_n_max_cases", 400),
                     ("iterate_chunks_chunk_shape_cases", 300), ("unbroadcast_cases", 1500),
                     ("unbroadcast_negative_stride_cases", 300), ("unbroadcast_broadcast_axis_cases", 300),
                     ("broadcast_arrays_minimal_cases", 500), ("view_shape_cases", 5000), ("categorical_cases", 100),
                     ("unique_cases", 150), ("index_lookup_cases", 1000),
                     ("combine_slices_large_length_pairs", 20000), ("iterate_chunks_large_shape_cases", 100),
                     ("view_shape_kind_list_of_ints", 100), ("view_shape_kind_list_of_bools", 80),
                     ("view_shape_kind_nested_list_of_ints", 50), ("view_shape_tuples_with_backward_slice", 5000), ("view_shape_tuples_with_empty_slice", 5000),
                     ("view_shape_tuples_with_stepped_slice", 5000), ("unbroadcast_dtype_variant_cases", 500),
                     ("unique_dtype_cases", 1000), ("unique_big_array_cases", 20), ("categorical_history_cases", 100),
                     ("index_lookup_dtype_cases", 15)):
        if counters.get(key, 0) < low:
            out.append("fewer than %d %s" % (low, key))
    return out
